"""Fault injection for the main process of infretis (properties C08 and C14).

While the real REPEX_state.treat_output runs, every file-system effect of the main process is
counted and logged: builtins.open for writing/appending (each write() call is one effect),
os.remove, os.rmdir, os.rename/os.replace, shutil.move/copy*, os.makedirs/os.mkdir.  A `Crash`
(BaseException: nothing of the program runs afterwards, like a killed process) can be raised
before effect number i, or half-way through it when it is a write (half of the bytes are
written and flushed first).
"""
from __future__ import annotations

import builtins
import os
import shutil


class Crash(BaseException):
    pass


class Injector:
    def __init__(self, crash_at=None, torn=False, log_only=False, buffered=False):
        """buffered=False: every write() call reaches the disk at once (one effect per call).
        buffered=True: what is written stays in the process (as with Python's buffered files, which
        these small files never fill) and reaches the disk when the file is flushed or closed: that
        flush is the effect (tearable); a process that dies with the file still open loses it."""
        self.crash_at = crash_at
        self.torn = torn
        self.buffered = buffered
        self.crashed = False
        self.n = 0
        self.log = []
        self.active = False
        self.root = None
        self._orig = {}

    # ---- effect accounting
    def rel(self, p):
        try:
            p = os.path.abspath(p)
            if self.root and p.startswith(self.root):
                return os.path.relpath(p, self.root)
        except Exception:
            pass
        return str(p)

    def effect(self, kind, target, writer=None, data=None):
        """Returns True when the effect may be carried out normally."""
        if not self.active:
            return True
        i = self.n
        self.n += 1
        self.log.append((i, kind, self.rel(target)))
        if self.crash_at is not None and i == self.crash_at:
            if self.torn and writer is not None and data:
                half = data[: max(1, len(data) // 2)]
                writer(half)
                self.log[-1] = (i, kind + ":torn", self.rel(target))
            self.active = False
            self.crashed = True
            raise Crash(f"crash at effect {i} ({kind} {self.rel(target)})")
        return True

    # ---- patching
    def install(self, root):
        self.root = os.path.abspath(root)
        inj = self
        o_open = builtins.open
        self._orig = {"open": o_open, "remove": os.remove, "rmdir": os.rmdir, "rename": os.rename, "replace": os.replace,
                      "move": shutil.move, "copy": shutil.copy, "copyfile": shutil.copyfile, "makedirs": os.makedirs,
                      "mkdir": os.mkdir, "unlink": os.unlink}

        class WFile:
            def __init__(self, f, name):
                self._f, self._name = f, name
                self._buf = []

            def write(self, data):
                def raw(d):
                    self._f.write(d)
                    self._f.flush()
                if inj.buffered:
                    if inj.crashed:
                        return len(data)
                    self._buf.append(data)
                    return len(data)
                inj.effect("write", self._name, raw, data)
                return self._f.write(data)

            def _drain(self, kind):
                if inj.crashed:
                    self._buf = []
                    return
                if self._buf:
                    data = self._buf[0][:0].join(self._buf)
                    self._buf = []

                    def raw(d):
                        self._f.write(d)
                        self._f.flush()
                    inj.effect(kind, self._name, raw, data)
                    self._f.write(data)
                    self._f.flush()

            def flush(self):
                self._drain("write:flush")
                if not inj.crashed:
                    self._f.flush()

            def close(self):
                try:
                    self._drain("write:close")
                finally:
                    try:
                        self._f.close()
                    except Exception:
                        pass

            def __del__(self):
                try:
                    if self._buf and not inj.crashed:
                        self._f.write(self._buf[0][:0].join(self._buf))
                    self._f.close()
                except Exception:
                    pass

            def __enter__(self):
                return self

            def __exit__(self, et, ev, tb):
                # a killed process does not flush: what was written through effect() is already flushed,
                # what is still buffered (buffered mode) is lost
                if et is not None and issubclass(et, Crash):
                    self._buf = []
                    try:
                        self._f.close()
                    except Exception:
                        pass
                    return False
                self.close()
                return False

            def __getattr__(self, k):
                return getattr(self._f, k)

            def __iter__(self):
                return iter(self._f)

        def p_open(file, mode="r", *a, **k):
            if inj.active and isinstance(file, (str, bytes, os.PathLike)) and any(c in mode for c in "wax+"):
                inj.effect("open:" + mode, file)
                f = o_open(file, mode, *a, **k)
                return WFile(f, file)
            return o_open(file, mode, *a, **k)

        def wrap(name, kind, argidx=0):
            orig = self._orig[name]

            def f(*a, **k):
                inj.effect(kind, a[argidx] if len(a) > argidx else "?")
                return orig(*a, **k)
            return f

        builtins.open = p_open
        os.remove = wrap("remove", "remove")
        os.unlink = wrap("unlink", "remove")
        os.rmdir = wrap("rmdir", "rmdir")
        os.rename = wrap("rename", "rename", 1)
        os.replace = wrap("replace", "replace", 1)
        shutil.move = wrap("move", "move", 1)
        shutil.copy = wrap("copy", "copy", 1)
        shutil.copyfile = wrap("copyfile", "copy", 1)
        os.makedirs = wrap("makedirs", "mkdir")
        os.mkdir = wrap("mkdir", "mkdir")

    def uninstall(self):
        o = self._orig
        if not o:
            return
        builtins.open = o["open"]
        os.remove, os.unlink, os.rmdir, os.rename, os.replace = o["remove"], o["unlink"], o["rmdir"], o["rename"], o["replace"]
        shutil.move, shutil.copy, shutil.copyfile = o["move"], o["copy"], o["copyfile"]
        os.makedirs, os.mkdir = o["makedirs"], o["mkdir"]
        self._orig = {}


def arm_on_treat(state, inj, which=0):
    """Activate the injector during the `which`-th treat_output call of this run (0-based)."""
    inner = state.treat_output
    cnt = {"k": 0}

    def treat(md):
        if cnt["k"] == which:
            inj.active = True
            inj.step_info = {"status": md.get("status"), "ens": list(md["picked"].keys())}
        cnt["k"] += 1
        try:
            return inner(md)
        finally:
            inj.active = False

    state.treat_output = treat


def tree_snapshot(root):
    """relative path -> size of every file below root (load dir, data, restart)."""
    out = {}
    for d, _, fs in os.walk(root):
        for f in fs:
            p = os.path.join(d, f)
            out[os.path.relpath(p, root)] = os.path.getsize(p)
    return out


def referenced_files(wd, load="load"):
    """For the restart.toml on disk: (parse_ok, active, {path: [missing files]})."""
    import tomli
    rp = os.path.join(wd, "restart.toml")
    if not os.path.exists(rp):
        return None, [], {}
    try:
        with open(rp, "rb") as f:
            cfg = tomli.load(f)
    except Exception as e:  # noqa: BLE001
        return False, [], {"restart.toml": [repr(e)[:200]]}
    try:
        active = cfg["current"]["active"]
        cfg["current"]["locked"], cfg["current"]["cstep"], cfg["current"]["traj_num"], cfg["current"]["rng_state"]
    except KeyError as e:
        return False, [], {"restart.toml": [f"incomplete (a prefix of the file that still parses): missing {e!r}"]}
    missing = {}
    for pn in active:
        d = os.path.join(wd, load, str(pn))
        miss = []
        for txt in ("traj.txt", "order.txt"):
            if not os.path.isfile(os.path.join(d, txt)):
                miss.append(txt)
        tt = os.path.join(d, "traj.txt")
        if os.path.isfile(tt):
            for line in open(tt):
                if line.startswith("#") or not line.strip():
                    continue
                tok = line.split()
                if len(tok) >= 2:
                    fp = os.path.join(d, "accepted", tok[1])
                    if not os.path.isfile(fp) and tok[1] not in miss:
                        miss.append(tok[1])
        if miss:
            missing[pn] = miss
    return True, active, missing
