"""Shared part of the fake MD programs (fake_lmp.py, fake_cp2k.py, fake_gmx.py) used by the
C12 check.  No third-party imports (start-up time matters: hundreds of launches per run).

The fake programs stand for LAMMPS / CP2K / GROMACS with respect to the *file and timing
contract* the infretis engine classes rely on, nothing more:

* dynamics: uniformly accelerated flight (velocity Verlet under a constant acceleration from
  the control file, default none) and a box that changes linearly per MD step (rates from the
  control file).  This is deterministic and time-reversible: started from (x_j, -v_j) with the
  box rates negated it retraces x_j, x_{j-1}, ...; velocities differ from frame to frame.
* the trajectory is written in the program's real output format by the caller; this module
  only decides WHEN bytes become visible, following a schedule from a control file:

  control file (JSON, path in $FAKEMD_CTL):
    dir        directory for the hand-shake files  go / ack / pid / sigterm / started
    mode       "sync": the harness replaces the engine's `sleep` by a hand-shake, the fake
               advances one schedule entry per engine sleep (deterministic);
               "async": free running, `delay` seconds between schedule entries
    schedule   list of entries; entry = list with one cumulative amount per output stream,
               in HALF FRAMES (2k = k complete frames, 2k+1 = k frames + the first part of
               the next one)
    frames     total number of frames the program writes before it ends by itself
               (null = as many as the input asks for)
    exit_code  exit status when it ends by itself
    exit_signal  if set (9, 11, 15, ...): the program does not exit but is KILLED BY THAT SIGNAL
               when it ends by itself (OOM killer, batch system, crash) - the signal is not
               sent by the engine, so no SIGTERM marker is left; the parent's
               Popen.returncode is then -signal (a shell launcher reports 128 + signal)
    box_rate   per-MD-step change of every box number (list), default none
    accel      constant acceleration [ax, ay, az] of every atom, default none
    cut        "line" | "midline": where a frame is cut in two parts (text formats)
    unit       "half" (default): schedule amounts are half frames as described above;
               "bytes": schedule amounts are cumulative BYTE counts of the stream, so the
               program can flush at ANY byte position (inside a number, before a newline, ...);
               honoured by the programs that pass it to Stream (fake_cp2k.py)
"""
import json
import os
import signal
import sys
import time


class Ctl:
    def __init__(self):
        path = os.environ.get("FAKEMD_CTL")
        if not path or not os.path.exists(path):
            self.cfg = {"mode": "free", "schedule": [], "frames": None, "exit_code": 0}
            self.dir = None
        else:
            with open(path) as f:
                self.cfg = json.load(f)
            self.dir = self.cfg["dir"]
        self.mode = self.cfg.get("mode", "free")
        self.step = 0
        if self.dir:
            self._put("pid", str(os.getpid()))
            signal.signal(signal.SIGTERM, self._on_term)

    def _put(self, name, txt):
        tmp = os.path.join(self.dir, f".{name}.{os.getpid()}")
        with open(tmp, "w") as f:
            f.write(txt)
        os.replace(tmp, os.path.join(self.dir, name))

    def _on_term(self, signum, frame):
        # honour SIGTERM: leave a marker (the check looks for it), then die of the signal
        try:
            self._put("sigterm", str(self.step))
        finally:
            signal.signal(signal.SIGTERM, signal.SIG_DFL)
            os.kill(os.getpid(), signal.SIGTERM)
            time.sleep(5)
            os._exit(143)

    def _go(self):
        try:
            with open(os.path.join(self.dir, "go")) as f:
                return int(f.read().strip() or 0)
        except (OSError, ValueError):
            return 0

    def next(self):
        """Block until the harness allows the next schedule step (sync) or wait (async)."""
        self.step += 1
        if self.mode == "sync":
            t0 = time.time()
            while self._go() < self.step:
                time.sleep(0.0004)
                if time.time() - t0 > 120:
                    sys.stderr.write("fakemd: harness silent for 120 s, giving up\n")
                    os._exit(97)
        elif self.mode == "async":
            time.sleep(float(self.cfg.get("delay", 0.003)))

    def ack(self, final=False):
        if self.dir and self.mode == "sync":
            self._put("ack", "exit" if final else str(self.step))

    def finish(self, code):
        sys.stdout.flush()
        sys.stderr.flush()
        sig = self.cfg.get("exit_signal")
        self.ack(final=True)
        if sig:
            self.die_of(int(sig))
        os._exit(int(code))

    def die_of(self, sig):
        """Die of signal `sig` as if somebody else had sent it (default disposition, no marker)."""
        try:
            import resource
            resource.setrlimit(resource.RLIMIT_CORE, (0, 0))      # SIGSEGV: no core file
        except Exception:  # noqa: BLE001
            pass
        try:
            signal.signal(sig, signal.SIG_DFL)
        except (OSError, ValueError):
            pass                                                   # SIGKILL cannot be (and need not be) reset
        os.kill(os.getpid(), sig)
        time.sleep(5)
        os._exit(128 + sig)


class Stream:
    """One output file that becomes visible in (half-)frame units."""

    def __init__(self, path, frames, cuts, unit="half"):
        self.path = path
        self.frames = frames        # list of bytes, one per frame
        self.cuts = cuts            # cut offset inside each frame (first part length)
        self.unit = unit            # "half": amounts in half frames; "bytes": amounts are byte counts
        self.written = 0
        self.fh = None

    def target_bytes(self, half):
        if self.unit == "bytes":
            return max(0, min(int(half), sum(len(b) for b in self.frames)))
        k, odd = divmod(int(half), 2)
        k = min(k, len(self.frames))
        n = sum(len(b) for b in self.frames[:k])
        if odd and k < len(self.frames):
            n += self.cuts[k]
        return n

    def emit(self, half):
        n = self.target_bytes(half)
        if n <= self.written and self.fh is not None:
            return
        if self.fh is None:
            self.fh = open(self.path, "wb")
        elif n > self.written and not os.path.exists(self.path):
            # somebody removed the output file while the program runs (an engine cleaning up
            # after a program it believes stopped): like the real programs, which reopen their
            # output per write, keep writing under the same name
            self.fh.close()
            self.fh = open(self.path, "ab")
        blob = b"".join(self.frames)
        if n > self.written:
            self.fh.write(blob[self.written:n])
            self.fh.flush()
            self.written = n

    def emit_all(self):
        self.emit(sum(len(b) for b in self.frames) if self.unit == "bytes" else 2 * len(self.frames))


def text_cut(frame_bytes, mode):
    """Offset at which a text frame is cut: after about half of its lines ("line"), or in the
    middle of the line after that ("midline").  Never inside the last line."""
    lines = frame_bytes.split(b"\n")[:-1]
    if len(lines) < 2:
        return 0
    h = max(1, len(lines) // 2)
    off = sum(len(x) + 1 for x in lines[:h])
    if mode == "midline" and h < len(lines) - 1:
        off += max(1, len(lines[h]) // 2)
    return off


def run_schedule(ctl, streams, on_start=None):
    """Drive the streams through the schedule, then finish the run and exit."""
    sched = ctl.cfg.get("schedule") or []
    started = False
    for entry in sched:
        ctl.next()
        if not started and on_start:
            on_start()
            started = True
        for s, amount in zip(streams, entry):
            if amount is not None and amount >= 0:
                s.emit(amount)
        ctl.ack()
    ctl.next()
    if not started and on_start:
        on_start()
    if ctl.cfg.get("write_rest", True):
        for s in streams:
            if s.frames or s.fh is not None:
                s.emit_all()
    return


def fmt(x):
    """Shortest exact decimal for a float that is an integer multiple of 2**-k."""
    return repr(float(x))


def free_flight(pos, vel, box, box_rate, dt, nsteps, every, accel=None):
    """Frames (pos, vel, box) at MD steps 0, every, 2*every, ... <= nsteps.  Velocity Verlet under
    a constant, position-independent acceleration `accel` (same for every atom; None = free
    flight): deterministic and time-reversible, exact for dyadic inputs."""
    pos = [list(map(float, p)) for p in pos]
    vel = [list(map(float, v)) for v in vel]
    box = [float(b) for b in box]
    rate = [float(r) for r in (box_rate or [])] + [0.0] * len(box)
    acc = [float(a) for a in (accel or [0.0, 0.0, 0.0])]
    out = []
    for step in range(0, nsteps + 1):
        if step % every == 0:
            out.append(([p[:] for p in pos], [v[:] for v in vel], box[:]))
        for p, v in zip(pos, vel):
            for d in range(3):
                p[d] += v[d] * dt + 0.5 * acc[d] * dt * dt
                v[d] += acc[d] * dt
        box = [b + r for b, r in zip(box, rate)]
    return out
