#!/venv/bin/python
"""Fake CP2K for the C12 check:  fake_cp2k.py -i run.inp   (cwd = the engine's exe_dir).

Reads the input cp2k.py's write_for_run_vel produced (PROJECT, MOTION/MD STEPS and TIMESTEP,
MOTION/PRINT/TRAJECTORY/EACH MD, SUBSYS/TOPOLOGY COORD_FILE_NAME, SUBSYS/VELOCITY), takes the
positions from the xyz file and the velocities from the VELOCITY section (as CP2K does),
integrates free flight and writes <project>-pos-1.xyz and <project>-vel-1.xyz (one frame every
EACH steps, starting with step 0) and <project>-1.ener.  The two trajectory files become
visible according to two independent schedules (fakemd.py); with the control key unit = "bytes"
the schedule amounts are byte counts, i.e. each file can be flushed at any byte position
(inside the last number of a frame's last line, before its newline, ...).  The byte length of
every frame of both files is left in <ctl dir>/layout for the harness to cross-check.
"""
import json
import os
import sys

sys.path.insert(0, os.path.dirname(os.path.abspath(__file__)))
import fakemd  # noqa: E402


def read_input(fn):
    """{section path: [data lines]} of a CP2K input."""
    stack, out = [], {}
    with open(fn) as f:
        for line in f:
            s = line.strip()
            if not s or s.startswith("#") or s.startswith("!"):
                continue
            if s.upper().startswith("&END"):
                stack.pop()
            elif s.startswith("&"):
                stack.append(s[1:].split()[0].upper())
                out.setdefault("->".join(stack), [])
            else:
                out.setdefault("->".join(stack), []).append(s)
    return out


def keyword(lines, key, default=None):
    for ln in lines or []:
        spl = ln.split()
        if spl and spl[0].upper() == key:
            return spl[1]
    return default


def read_xyz(fn):
    with open(fn) as f:
        lines = f.read().split("\n")
    n = int(lines[0].split()[0])
    names, pos = [], []
    for ln in lines[2:2 + n]:
        spl = ln.split()
        names.append(spl[0])
        pos.append([float(x) for x in spl[1:4]])
    return names, pos


def main():
    ctl = fakemd.Ctl()
    args = sys.argv[1:]
    inp = read_input(args[args.index("-i") + 1])
    name = keyword(inp.get("GLOBAL"), "PROJECT", "cp2k")
    nsteps = int(keyword(inp.get("MOTION->MD"), "STEPS"))
    dt = float(keyword(inp.get("MOTION->MD"), "TIMESTEP"))
    every = int(keyword(inp.get("MOTION->PRINT->TRAJECTORY->EACH"), "MD", 1))
    coord = keyword(inp.get("FORCE_EVAL->SUBSYS->TOPOLOGY"), "COORD_FILE_NAME")
    names, pos = read_xyz(coord)
    vel = [[float(x) for x in ln.split()[:3]] for ln in inp.get("FORCE_EVAL->SUBSYS->VELOCITY", [])]
    assert len(vel) == len(pos), "VELOCITY section does not match the coordinates"
    frames = fakemd.free_flight(pos, vel, [], None, dt, nsteps, every, ctl.cfg.get("accel"))
    total = ctl.cfg.get("frames")
    if total is not None:
        frames = frames[:int(total)]
    pblobs, vblobs, ener = [], [], ["#     Step Nr.          Time[fs]        Kin.[a.u.]          Temp[K]            Pot.[a.u.]        Cons Qty[a.u.]        UsedTime[s]\n"]
    for k, (p, v, _) in enumerate(frames):
        head = f"{len(p):8d}\n i = {k * every:8d}, time = {k * every * dt:12.3f}, E = {0.0:20.10f}\n"
        pblobs.append((head + "".join(f"{nm:>3s} " + " ".join(f"{x:19.10f}" for x in r) + "\n"
                                      for nm, r in zip(names, p))).encode())
        vblobs.append((head + "".join(f"{nm:>3s} " + " ".join(f"{x:19.10f}" for x in r) + "\n"
                                      for nm, r in zip(names, v))).encode())
    for s in range(0, nsteps + 1):
        ke = 0.5 * sum(x * x for vv in vel for x in vv)
        ener.append(f"{s:10d} {s * dt:16.6f} {ke:18.9f} {300.0:16.9f} {float(s):18.9f} {ke + s:18.9f} {0.0:14.9f}\n")
    mode = ctl.cfg.get("cut", "line")
    unit = ctl.cfg.get("unit", "half")
    ptraj = fakemd.Stream(f"{name}-pos-1.xyz", pblobs, [fakemd.text_cut(b, mode) for b in pblobs], unit)
    vtraj = fakemd.Stream(f"{name}-vel-1.xyz", vblobs, [fakemd.text_cut(b, mode) for b in vblobs], unit)
    if ctl.dir:
        ctl._put("layout", json.dumps({"pos": [len(b) for b in pblobs], "vel": [len(b) for b in vblobs]}))

    def on_start():
        with open(f"{name}-1.ener", "w") as f:
            f.write("".join(ener))
        for extra in (f"{name}-1.restart", f"{name}-RESTART.wfn"):
            with open(extra, "w") as f:
                f.write("fake\n")

    if ctl.cfg.get("die_before_output"):
        ctl.next()
        ctl.finish(ctl.cfg.get("exit_code", 1))
    fakemd.run_schedule(ctl, [ptraj, vtraj], on_start)
    ctl.finish(int(ctl.cfg.get("exit_code", 0)))


if __name__ == "__main__":
    main()
