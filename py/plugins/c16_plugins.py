"""Plug-in engine of the C16 call-site family (py/checks/c16.py).

SpyLatticeEngine is the lattice walk of py/plugins/engines.py whose `modify_velocities` records
what it is handed: the `vel_settings` dictionary (a copy, and whether it is the very object the
ensemble holds is left to the caller), the chain of functions of infretis/core/tis.py on the call
stack (the call site) and the frame it was asked to regenerate.  Records are kept on the instance
and, when INFV_C16_SPY_LOG names a file, appended to it as JSON lines (engines created by the
package's own factory inside a real run are not reachable otherwise).
"""
from __future__ import annotations

import inspect
import json
import os

from plugins.engines import IntOrder, LatticeEngine  # noqa: F401  (IntOrder re-exported for the plug-in loader)


def tis_chain():
    """names of the functions of infretis/core/tis.py on the stack, outermost first"""
    out = []
    for fr in inspect.stack():
        if fr.filename.replace(os.sep, "/").endswith("infretis/core/tis.py"):
            out.append(fr.function)
    return out[::-1]


def jsonable(v):
    return v if isinstance(v, (bool, int, float, str, type(None))) else repr(v)


class SpyLatticeEngine(LatticeEngine):
    def __init__(self, *args, **kwargs):
        super().__init__(*args, **kwargs)
        self.records = []

    def modify_velocities(self, system, vel_settings):
        rec = {"chain": tis_chain(), "got": {str(k): jsonable(v) for k, v in dict(vel_settings).items()},
               "object_id": id(vel_settings), "frame": [str(system.config[0]), system.config[1]]}
        self.records.append(rec)
        log = os.environ.get("INFV_C16_SPY_LOG")
        if log:
            with open(log, "a") as f:
                f.write(json.dumps(rec) + "\n")
        return super().modify_velocities(system, vel_settings)
