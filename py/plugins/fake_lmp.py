#!/venv/bin/python
"""Fake LAMMPS for the C12 check:  fake_lmp.py -i run.inp   (cwd = the engine's exe_dir).

Reads the `variable <name> index <value>` lines the engine substituted into its template
(subcycles, timestep, nsteps, initconf, name), reads the initial configuration with
`read_dump ... x y z vx vy vz box yes` semantics, integrates free flight and writes
`<name>.lammpstrj` in the dump format lammps.py expects
(`dump custom id type x y z vx vy vz id`, frame every <subcycles> steps starting with step 0,
box bounds per frame) plus `log.lammps` with the thermo table.  Timing/exit: see fakemd.py.
"""
import os
import sys

sys.path.insert(0, os.path.dirname(os.path.abspath(__file__)))
import fakemd  # noqa: E402


def read_vars(inp):
    out = {}
    with open(inp) as f:
        for line in f:
            spl = line.split()
            if len(spl) >= 4 and spl[0] == "variable" and spl[2] == "index":
                out[spl[1]] = spl[3]
    return out


def read_conf(fn):
    with open(fn) as f:
        lines = f.read().split("\n")
    assert lines[0].startswith("ITEM: TIMESTEP"), fn
    n = int(lines[3])
    box_hdr = lines[4]
    box = [[float(x) for x in lines[5 + i].split()] for i in range(3)]
    atoms = []
    for ln in lines[9:9 + n]:
        spl = ln.split()
        atoms.append((int(spl[0]), int(float(spl[1])), [float(x) for x in spl[2:5]], [float(x) for x in spl[5:8]]))
    atoms.sort()
    return box_hdr, box, atoms


def main():
    ctl = fakemd.Ctl()
    args = sys.argv[1:]
    inp = args[args.index("-i") + 1]
    v = read_vars(inp)
    sub = int(v["subcycles"])
    dt = float(v["timestep"])
    nsteps = int(v["nsteps"])
    name = v["name"]
    box_hdr, box, atoms = read_conf(v["initconf"])
    ncol = len(box[0])
    flat = [x for row in box for x in row]
    frames = fakemd.free_flight([a[2] for a in atoms], [a[3] for a in atoms], flat,
                                ctl.cfg.get("box_rate"), dt, nsteps, sub, ctl.cfg.get("accel"))
    total = ctl.cfg.get("frames")
    if total is not None:
        frames = frames[:int(total)]
    order = list(range(len(atoms)))
    if ctl.cfg.get("shuffle_ids"):
        order = order[::-1]
    blobs, thermo = [], []
    for k, (pos, vel, bx) in enumerate(frames):
        txt = [f"ITEM: TIMESTEP\n{k * sub}\nITEM: NUMBER OF ATOMS\n{len(atoms)}\n{box_hdr}\n"]
        for i in range(3):
            txt.append(" ".join(fakemd.fmt(x) for x in bx[ncol * i:ncol * (i + 1)]) + "\n")
        txt.append("ITEM: ATOMS id type x y z vx vy vz id\n")
        for i in order:
            aid, typ = atoms[i][0], atoms[i][1]
            txt.append(f"{aid} {typ} " + " ".join(fakemd.fmt(x) for x in pos[i]) + " "
                       + " ".join(fakemd.fmt(x) for x in vel[i]) + f" {aid}\n")
        blobs.append("".join(txt).encode())
        ke = 0.5 * sum(x * x for vv in vel for x in vv)
        thermo.append(f"{k * sub:10d} {ke:.6f} {float(k):.6f} {ke + k:.6f} 300.0\n")
    cuts = [fakemd.text_cut(b, ctl.cfg.get("cut", "line")) for b in blobs]
    traj = fakemd.Stream(f"{name}.lammpstrj", blobs, cuts)

    def on_start():
        with open("log.lammps", "w") as f:
            f.write("LAMMPS (fake)\n   Step         KinEng         PotEng         TotEng          Temp\n")
            f.write("".join(thermo))
            f.flush()

    if ctl.cfg.get("die_before_output"):
        ctl.next()
        ctl.finish(ctl.cfg.get("exit_code", 1))
    fakemd.run_schedule(ctl, [traj], on_start)
    code = int(ctl.cfg.get("exit_code", 0))
    if code == 0:
        with open("log.lammps", "a") as f:
            f.write("Loop time of 0.1 on 1 procs\n")
    ctl.finish(code)


if __name__ == "__main__":
    main()
