"""Plug-ins of the C12 check.

LinOrder: order parameter  wx * pos[0,0] + wv * vel[0,0] + wb * box[bidx]  — depends on a
frame's positions, velocities AND box at once, so that any mis-pairing of the three by an
engine's polling loop changes the value.  With dyadic inputs the value is exact in floats.
"""
import numpy as np

from infretis.classes.orderparameter import OrderParameter


class LinOrder(OrderParameter):
    def __init__(self, wx=1.0, wv=0.0, wb=0.0, bidx=0):
        super().__init__(description="linear pos/vel/box", velocity=(wv != 0.0))
        self.wx, self.wv, self.wb, self.bidx = float(wx), float(wv), float(wb), int(bidx)

    def calculate(self, system):
        val = self.wx * float(system.pos[0][0])
        if self.wv != 0.0:
            val += self.wv * float(system.vel[0][0])
        if self.wb != 0.0:
            box = np.asarray(system.box, dtype=float).ravel()
            val += self.wb * float(box[self.bidx])
        return [val]


from ase.calculators.calculator import Calculator, all_changes  # noqa: E402


class HarmonicCalc(Calculator):
    """ASE calculator: every atom is bound to the origin by a spring, forces = -k * x
    (k = 0: free flight).  Deterministic and time-reversible under velocity Verlet.  Loaded
    through create_external (argument `kspring`)."""

    implemented_properties = ["energy", "forces"]

    def __init__(self, kspring=0.0):
        super().__init__()
        self.kspring = float(kspring)

    def calculate(self, atoms=None, properties=("energy", "forces"), system_changes=all_changes):
        super().calculate(atoms, properties, system_changes)
        x = self.atoms.get_positions()
        self.results = {"energy": 0.5 * self.kspring * float((x * x).sum()), "forces": -self.kspring * x}
