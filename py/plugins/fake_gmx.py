#!/venv/bin/python
"""Fake `gmx` for the C12 check (cwd = the engine's exe_dir).

  fake_gmx.py grompp -f X.mdp -c conf.g96 -p topol.top -o X.tpr [-n ..] [-maxwarn ..]
      writes X.tpr (JSON: the mdp settings and the configuration) and mdout.mdp
  fake_gmx.py mdrun -s X.tpr -deffnm NAME -c NAME.g96
      integrates free flight from the configuration in the tpr and writes NAME.trr in the real
      TRR format (big endian, double precision, box + x + v per frame, one frame every nstxout
      steps starting with step 0), NAME.edr, NAME.log, NAME.cpt and the final configuration;
      the .trr becomes visible according to the schedule of the control file (fakemd.py)
  fake_gmx.py energy -f NAME.edr     (terms on stdin)
      writes energy.xvg with the legends "Potential" and "Kinetic En."
"""
import json
import os
import struct
import sys

sys.path.insert(0, os.path.dirname(os.path.abspath(__file__)))
import fakemd  # noqa: E402

G96_ORDER = ((0, 0), (1, 1), (2, 2), (0, 1), (0, 2), (1, 0), (1, 2), (2, 0), (2, 1))


def opt(args, key, default=None):
    return args[args.index(key) + 1] if key in args else default


def read_mdp(fn):
    out = {}
    with open(fn) as f:
        for line in f:
            line = line.split(";")[0]
            if "=" in line:
                k, v = line.split("=", 1)
                out[k.strip().replace("-", "_")] = v.strip()
    return out


def read_g96(fn):
    sec, data = None, {"POSITION": [], "VELOCITY": [], "BOX": []}
    with open(fn) as f:
        for line in f:
            s = line.strip()
            if s == "END":
                sec = None
            elif s in ("TITLE", "POSITION", "VELOCITY", "BOX", "POSITIONRED", "VELOCITYRED"):
                sec = s.replace("RED", "")
            elif sec in ("POSITION", "VELOCITY"):
                data[sec].append([float(line[24 + 15 * i:39 + 15 * i]) for i in range(3)])
            elif sec == "BOX":
                data["BOX"] = [float(x) for x in s.split()]
    if not data["VELOCITY"]:
        data["VELOCITY"] = [[0.0, 0.0, 0.0] for _ in data["POSITION"]]
    return data


def g96_text(pos, vel, box):
    out = ["TITLE\nfake\nEND\nPOSITION\n"]
    for i, p in enumerate(pos):
        out.append(f"{1:5d} {'AR':5s} {'AR':5s}{i + 1:7d}" + "".join(f"{x:15.9f}" for x in p) + "\n")
    out.append("END\nVELOCITY\n")
    for i, v in enumerate(vel):
        out.append(f"{1:5d} {'AR':5s} {'AR':5s}{i + 1:7d}" + "".join(f"{x:15.9f}" for x in v) + "\n")
    out.append("END\nBOX\n" + "".join(f"{x:15.9f}" for x in box) + "\nEND\n")
    return "".join(out)


def trr_frame(step, time, pos, vel, boxnums):
    n = len(pos)
    mat = [[0.0] * 3 for _ in range(3)]
    for val, (i, j) in zip(list(boxnums) + [0.0] * (9 - len(boxnums)), G96_ORDER):
        mat[i][j] = val
    version = b"GMX_trn_file"
    head = struct.pack(">i", 1993) + struct.pack(">2i", len(version) + 1, len(version)) + version
    #            ir e box vir pres top sym x v f natoms step nre
    head += struct.pack(">13i", 0, 0, 72, 0, 0, 0, 0, 24 * n, 24 * n, 0, n, step, 0)
    head += struct.pack(">2d", time, 0.0)
    data = struct.pack(">9d", *[x for row in mat for x in row])
    data += struct.pack(f">{3 * n}d", *[x for p in pos for x in p])
    data += struct.pack(f">{3 * n}d", *[x for v in vel for x in v])
    return head, data


def grompp(args):
    mdp = read_mdp(opt(args, "-f"))
    conf = read_g96(opt(args, "-c"))
    with open(opt(args, "-o"), "w") as f:
        json.dump({"mdp": mdp, "conf": conf}, f)
    with open("mdout.mdp", "w") as f:
        f.write("; fake\n")
    return 0


def mdrun(args):
    ctl = fakemd.Ctl()
    with open(opt(args, "-s")) as f:
        tpr = json.load(f)
    name = opt(args, "-deffnm")
    confout = opt(args, "-c", f"{name}.g96")
    mdp, conf = tpr["mdp"], tpr["conf"]
    nsteps = int(float(mdp["nsteps"]))
    every = int(float(mdp.get("nstxout", 1)))
    dt = float(mdp["dt"])
    frames = fakemd.free_flight(conf["POSITION"], conf["VELOCITY"], conf["BOX"], ctl.cfg.get("box_rate"), dt, nsteps, every, ctl.cfg.get("accel"))
    total = ctl.cfg.get("frames")
    if total is not None:
        frames = frames[:int(total)]
    blobs, cuts = [], []
    for k, (pos, vel, box) in enumerate(frames):
        head, data = trr_frame(k * every, k * every * dt, pos, vel, box)
        blobs.append(head + data)
        cuts.append(len(head) + len(data) // 2)     # a half frame = the header and half of the data block
    traj = fakemd.Stream(f"{name}.trr", blobs, cuts)

    def on_start():
        with open(f"{name}.edr", "w") as f:
            json.dump({"n": len(frames), "dt": dt * every,
                       "ekin": [0.5 * sum(x * x for v in fr[1] for x in v) for fr in frames]}, f)
        with open(f"{name}.log", "w") as f:
            f.write("fake gmx mdrun\n")

    if ctl.cfg.get("die_before_output"):
        ctl.next()
        ctl.finish(ctl.cfg.get("exit_code", 1))
    fakemd.run_schedule(ctl, [traj], on_start)
    code = int(ctl.cfg.get("exit_code", 0))
    if code == 0 and frames:
        pos, vel, box = frames[-1]
        with open(confout, "w") as f:
            f.write(g96_text(pos, vel, box))
        with open(f"{name}.cpt", "w") as f:
            f.write("fake\n")
    ctl.finish(code)


def energy(args):
    sys.stdin.read()
    with open(opt(args, "-f")) as f:
        edr = json.load(f)
    with open("energy.xvg", "w") as f:
        f.write('# fake gmx energy\n@    title "GROMACS Energies"\n@ s0 legend "Potential"\n@ s1 legend "Kinetic En."\n')
        for k in range(edr["n"]):
            f.write(f"{k * edr['dt']:12.6f} {float(k):14.6f} {edr['ekin'][k]:14.6f}\n")
    return 0


def main():
    args = sys.argv[1:]
    cmd = args[0] if args else ""
    if cmd == "grompp":
        sys.exit(grompp(args))
    if cmd == "mdrun":
        mdrun(args)
    if cmd == "energy":
        sys.exit(energy(args))
    sys.stderr.write(f"fake_gmx: unknown command {cmd!r}\n")
    sys.exit(2)


if __name__ == "__main__":
    main()
