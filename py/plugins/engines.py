"""Plug-in engines used by the verification harness (loaded through infretis' own
`class`/`module` plug-in path, or instantiated directly).

* LatticeEngine  — a +-1 random walk on the integers driven ONLY by `self.rgen` (the job's
  engine stream).  Order parameter = position.  Optional reflecting wall on the left.
  Configurations live in small text files (one integer per line = one frame), so that the
  real PathStorage / load_path / delete_old machinery works on them.
* ScriptedEngine — returns exactly the frames a script prescribes; used for lock-step
  comparison of the moves in core/tis.py with the Coq model (the model is given the same
  streams).  File operations are no-ops.
* IntOrder       — order parameter: the integer stored in the referenced frame.
"""
from __future__ import annotations

import os

import numpy as np

from infretis.classes.engines.enginebase import EngineBase
from infretis.classes.orderparameter import OrderParameter


def read_lat(filename):
    with open(filename) as f:
        return [int(line.split()[0]) for line in f if line.strip()]


def extra_orders(x, n_order):
    """progress coordinate + (n_order - 1) further collective variables, exact at six decimals"""
    return [float(x)] + [float((x * (k + 2)) % 5) + 0.25 * k for k in range(n_order - 1)]


class IntOrder(OrderParameter):
    def __init__(self, order_eps=0.0):
        super().__init__(description="lattice position", velocity=False)
        # optional offset of the progress coordinate (0.0: the integers themselves); a value below 5e-7
        # is lost when order.txt is written with six decimals (C08: orders a hair off an interface)
        self.order_eps = float(order_eps)

    def calculate(self, system):
        x = float(system.pos[0][0])
        return [x + self.order_eps] if self.order_eps else [x]


class LatticeEngine(EngineBase):
    """+-1 walk.  `wall`: reflecting wall position (x never goes below it)."""

    def __init__(self, wall=-4, timestep=1.0, subcycles=1, temperature=1.0, input_path=".", sleep=0.0, n_order=1,
                 order_eps=0.0):
        super().__init__("lattice walk", timestep, subcycles)
        self.ext = "lat"
        self.wall = int(wall)
        self._beta = 1.0 / float(temperature)
        self.temperature = temperature
        self.input_path = input_path
        self.name = "lattice"
        self.sleep = sleep
        self.n_order = int(n_order)     # number of order-parameter values per frame (progress coordinate + extra columns)
        self.order_eps = float(order_eps)   # added to the progress coordinate (default 0.0: nothing changes)

    def order_of(self, x):
        orders = extra_orders(x, self.n_order)
        if self.order_eps:
            orders[0] += self.order_eps
        return orders

    # the plug-in loader requires a callable attribute `step`
    def step(self, x):
        u = self.rgen.random()
        nx = x + (1 if u < 0.5 else -1)
        if nx < self.wall:
            nx = self.wall + 1
        return nx

    def set_mdrun(self, md_items):
        self.exe_dir = md_items["exe_dir"]

    def _extract_frame(self, traj_file, idx, out_file):
        xs = read_lat(traj_file)
        with open(out_file, "w") as f:
            f.write(f"{xs[idx]}\n")

    def _read_configuration(self, filename):
        xs = read_lat(filename)
        pos = np.array([[float(xs[0]), 0.0, 0.0]])
        vel = np.zeros((1, 3))
        return pos, vel, None, ["X"]

    def _reverse_velocities(self, filename, outfile):
        self._copyfile(filename, outfile)

    def modify_velocities(self, system, vel_settings):
        # memoryless dynamics: nothing to draw; dump the frame as the engines do
        genvel = os.path.join(self.exe_dir, "genvel.lat")
        self.dump_config(system.config, deffnm="genvel")
        system.set_pos((genvel, 0))
        return 0.0, 0.0

    def _propagate_from(self, name, path, system, ens_set, msg_file, reverse=False):
        left, _, right = ens_set["interfaces"]
        draw_log = os.environ.get("INFV_DRAW_LOG")
        if draw_log:
            # which stream this engine instance is about to draw from (PCG64 increment = stream identity)
            try:
                inc = self.rgen.bit_generator.state["state"]["inc"]
            except Exception:  # noqa: BLE001
                inc = "none"
            with open(draw_log, "a") as lf:
                lf.write(f"{id(self)} {inc}\n")
        x = read_lat(system.config[0])[system.config[1] if system.config[1] is not None else 0]
        traj_file = os.path.join(self.exe_dir, f"{name}.{self.ext}")
        success, status = False, "?"
        with open(traj_file, "w") as out:
            k = 0
            while True:
                out.write(f"{x}\n")
                out.flush()
                snapshot = {"order": self.order_of(x), "config": (traj_file, k), "vel_rev": reverse,
                            "vpot": 0.0, "ekin": 0.0}
                phase_point = self.snapshot_to_system(system, snapshot)
                status, success, stop, _ = self.add_to_path(path, phase_point, left, right)
                if stop:
                    break
                x = self.step(x)
                k += 1
        return success, status


class ScriptedEngine(EngineBase):
    """Engine whose trajectories are prescribed.

    script: list of lists of order values; the n-th call of `propagate` continues the initial
    point with the n-th list.  kicks: list of (dek, new_order or None) consumed by
    modify_velocities/calculate_order.  Every frame produced gets a unique tag
    config=(<propagate ordinal>, k) and optional energies from `energies` (same shape as script)."""

    def __init__(self, script, kicks=None, energies=None, beta=1.0):
        super().__init__("scripted", 1.0, 1)
        self.ext = "scr"
        self.script = [list(s) for s in script]
        self.energies = energies
        self.kicks = list(kicks or [])
        self.ncalls = 0
        self.calls = []           # log: (reverse, initial order, consumed)
        self._beta = beta
        self._pending_order = None
        self.exe_dir = None

    def step(self):  # required by the plug-in loader only
        raise NotImplementedError

    def set_mdrun(self, md_items):
        self.exe_dir = md_items.get("exe_dir")

    def _extract_frame(self, traj_file, idx, out_file):
        pass

    def _copyfile(self, source, dest):  # noqa: D401
        pass

    def _read_configuration(self, filename):
        return np.zeros((1, 3)), np.zeros((1, 3)), None, ["X"]

    def _reverse_velocities(self, filename, outfile):
        pass

    def dump_config(self, config, deffnm="conf"):
        return f"dump:{deffnm}:{config[0]}:{config[1]}"

    def clean_up(self):
        pass

    def modify_velocities(self, system, vel_settings):
        dek, new_order = self.kicks.pop(0) if self.kicks else (0.0, None)
        self._pending_order = new_order
        system.set_pos((f"genvel:{system.config[0]}:{system.config[1]}", 0))
        return dek, 0.0

    def calculate_order(self, system, xyz=None, vel=None, box=None):
        if self._pending_order is not None:
            o = self._pending_order
            self._pending_order = None
            return [float(o)]
        return list(system.order)

    def propagate(self, path, ens_set, system, reverse=False):
        # same effect on `system` as EngineBase.propagate, without touching the disk
        n = self.ncalls
        self.ncalls += 1
        system.set_pos((f"init{n}", 0))
        system.vel_rev = reverse
        left, _, right = ens_set["interfaces"]
        stream = self.script[n] if n < len(self.script) else []
        ener = self.energies[n] if self.energies and n < len(self.energies) else None
        orders = [system.order[0]] + list(stream)
        success, status, k = False, "exhausted", 0
        for k, o in enumerate(orders):
            snapshot = {"order": [float(o)], "config": (f"traj{n}", k), "vel_rev": reverse}
            if ener is not None and k < len(ener):
                snapshot["vpot"] = ener[k]
                snapshot["ekin"] = 0.0
            elif k == 0:
                snapshot["vpot"] = system.vpot
                snapshot["ekin"] = system.ekin
            phase_point = self.snapshot_to_system(system, snapshot)
            status, success, stop, _ = self.add_to_path(path, phase_point, left, right)
            if stop:
                self.calls.append((reverse, orders[0], k + 1))
                return success, status
        self.calls.append((reverse, orders[0], len(orders)))
        raise RuntimeError("ScriptedEngine: script exhausted before the propagation stopped")
