"""Parameter extraction for C14 (stored paths): coq/gen/ParamsC14.v.

Reads, from the Python AST of /repo's sources (never by importing them):
  * formatter.py: OrderFormatter.ORDER_FMT, EnergyFormatter.ENERGY_FMT / ENERGY_TERMS,
    PathExtFormatter.FMT, the header dictionaries (labels / width / spacing) of the three path
    formatters, the literal pieces of the `# Cycle: ...` comment lines, how PathExtFormatter
    writes the index (None -> constant) and the velocity direction (two constants), the file
    names of PathStorage.formatters, the sub-directory and the status string of
    PathStorage.output;
  * path.py (load_path): the file names, the sub-directory, the column positions and the value
    that means "reversed"; update_energies' argument order in _load_energies_for_path;
  * repex.py (treat_output): the guard `pn_old > self.n - G`, the lag `len(self.pn_olds) >
    self.n - L`, the push condition `len(self.pn_olds) <= self.n - P` and the three text files
    removed by delete_old_all.
Anything whose shape is not recognised raises (fail closed): the generated file then lacks the
definitions, the model no longer compiles and the check reports a broken obligation.
"""
import ast
import re
import string

import params_extract as pe

FMT = "infretis/classes/formatter.py"
PATH = "infretis/classes/path.py"
REPEX = "infretis/classes/repex.py"


def _cls(tree, name):
    for node in tree.body:
        if isinstance(node, ast.ClassDef) and node.name == name:
            return node
    raise ValueError(f"class {name} not found")


def _cls_const(cls, name):
    for node in cls.body:
        tgt = None
        if isinstance(node, ast.Assign) and len(node.targets) == 1 and isinstance(node.targets[0], ast.Name):
            tgt, val = node.targets[0].id, node.value
        elif isinstance(node, ast.AnnAssign) and isinstance(node.target, ast.Name) and node.value is not None:
            tgt, val = node.target.id, node.value
        if tgt == name:
            return _ev(val)
    raise ValueError(f"{cls.name}.{name} not found")


def _ev(node):
    if isinstance(node, ast.Constant):
        return node.value
    if isinstance(node, (ast.List, ast.Tuple)):
        v = [_ev(e) for e in node.elts]
        return v if isinstance(node, ast.List) else tuple(v)
    if isinstance(node, ast.Dict):
        return {_ev(k): _ev(v) for k, v in zip(node.keys, node.values)}
    if isinstance(node, ast.BinOp) and isinstance(node.op, (ast.Add, ast.Mult)):
        a, b = _ev(node.left), _ev(node.right)
        return a + b if isinstance(node.op, ast.Add) else a * b
    if isinstance(node, ast.Call) and isinstance(node.func, ast.Name) and not node.args and not node.keywords:
        return ("call", node.func.id)
    raise ValueError(f"unsupported constant expression: {ast.dump(node)[:80]}")


def _spec(fmt):
    """'{:>10d}' -> ('d', 10) ; '{:>12.6f}' -> ('f', 12, 6) ; '{:>20s}' / '{:>10}' -> ('s', w)"""
    items = list(string.Formatter().parse(fmt))
    if len(items) != 1 or items[0][0] or items[0][1] != "" or items[0][3] is not None:
        raise ValueError(f"unexpected format {fmt!r}")
    spec = items[0][2]
    m = re.fullmatch(r">(\d+)d", spec)
    if m:
        return ("d", int(m.group(1)))
    m = re.fullmatch(r">(\d+)\.(\d+)f", spec)
    if m:
        return ("f", int(m.group(1)), int(m.group(2)))
    m = re.fullmatch(r">(\d+)s?", spec)
    if m:
        return ("s", int(m.group(1)))
    raise ValueError(f"unsupported format spec {spec!r}")


def zs(text):
    return "[" + "; ".join(str(ord(c)) for c in text) + "]"


def nats(vals):
    return "[" + "; ".join(f"{int(v)}%nat" for v in vals) + "]"


def _header_dict(func):
    """the `header = {...}` dict of an __init__"""
    for node in ast.walk(func):
        if (isinstance(node, ast.Assign) and isinstance(node.targets[0], ast.Name) and node.targets[0].id == "header"
                and isinstance(node.value, ast.Dict)):
            return _ev(node.value)
    raise ValueError(f"{func.name}: header dict not found")


def _joined(node):
    """f-string -> list of literal str / ('var', name)"""
    if not isinstance(node, ast.JoinedStr):
        raise ValueError("expected an f-string")
    out = []
    for v in node.values:
        if isinstance(v, ast.Constant):
            out.append(v.value)
        elif isinstance(v, ast.FormattedValue) and isinstance(v.value, ast.Name) and v.format_spec is None and v.conversion == -1:
            out.append(("var", v.value.id))
        else:
            raise ValueError("unexpected f-string part")
    return out


def _yields(func):
    return [n.value for n in ast.walk(func) if isinstance(n, ast.Yield) and n.value is not None]


def _cycle_pieces(func, nvars):
    for y in _yields(func):
        if isinstance(y, ast.JoinedStr):
            parts = _joined(y)
            lits = [p for p in parts if isinstance(p, str)]
            vars_ = [p[1] for p in parts if not isinstance(p, str)]
            want = ["step", "status", "move"][:nvars]
            if vars_ != want or len(lits) != nvars or not isinstance(parts[0], str) or any(
                    isinstance(parts[i], str) == isinstance(parts[i + 1], str) for i in range(len(parts) - 1)):
                raise ValueError(f"{func.name}: comment line is not literal/variable alternating over {want}")
            return lits
    raise ValueError(f"{func.name}: no comment line")


def _compare(node):
    """`X > self.n - K` -> (op name, K) with X returned as source text"""
    if not (isinstance(node, ast.Compare) and len(node.ops) == 1 and len(node.comparators) == 1):
        raise ValueError("not a simple comparison")
    rhs = node.comparators[0]
    if not (isinstance(rhs, ast.BinOp) and isinstance(rhs.op, ast.Sub) and isinstance(rhs.right, ast.Constant)
            and isinstance(rhs.right.value, int) and ast.unparse(rhs.left) == "self.n"):
        raise ValueError("right-hand side is not self.n - <int>")
    return ast.unparse(node.left), type(node.ops[0]).__name__, rhs.right.value


@pe.extractor("ParamsC14")
def params_c14():
    ftree = ast.parse(pe.src(FMT))
    L = ["(* GENERATED by py/params_c14.py from /repo sources -- do not edit. *)",
         "From Coq Require Import ZArith List.", "Import ListNotations.", "Open Scope Z_scope.", ""]

    # ---- order.txt
    ofmt = _cls_const(_cls(ftree, "OrderFormatter"), "ORDER_FMT")
    if len(ofmt) != 2:
        raise ValueError("ORDER_FMT: expected [int format, float format]")
    a, b = _spec(ofmt[0]), _spec(ofmt[1])
    if a[0] != "d" or b[0] != "f":
        raise ValueError("ORDER_FMT: expected a d and an f format")
    L += [f"Definition order_iw : nat := {a[1]}%nat.", f"Definition order_w : nat := {b[1]}%nat.",
          f"Definition order_d : nat := {b[2]}%nat."]
    fd = pe.find_func(ftree, "format_data", "OrderFormatter")
    src_fd = ast.unparse(fd)
    if '" ".join(towrite)' not in src_fd.replace("'", '"') or "self.ORDER_FMT[0].format(step)" not in src_fd \
            or "self.ORDER_FMT[1].format(orderp)" not in src_fd:
        raise ValueError("OrderFormatter.format_data: unexpected body")
    oh = _header_dict(pe.find_func(ftree, "__init__", "OrderFormatter"))
    # ---- energy.txt
    ecls = _cls(ftree, "EnergyFormatter")
    efmt = _cls_const(ecls, "ENERGY_FMT")
    eterms = list(_cls_const(ecls, "ENERGY_TERMS"))
    ea = _spec(efmt[0])
    ebs = {_spec(f) for f in efmt[1:]}
    if ea[0] != "d" or len(ebs) != 1 or next(iter(ebs))[0] != "f" or len(efmt) - 1 < len(eterms):
        raise ValueError("ENERGY_FMT: expected one d format and uniform f formats for every term")
    eb = next(iter(ebs))
    if "vpot" not in eterms or "ekin" not in eterms:
        raise ValueError("ENERGY_TERMS lacks vpot/ekin")
    L += [f"Definition energy_iw : nat := {ea[1]}%nat.", f"Definition energy_w : nat := {eb[1]}%nat.",
          f"Definition energy_d : nat := {eb[2]}%nat.", f"Definition energy_nterms : nat := {len(eterms)}%nat.",
          f"Definition energy_vpot_col : nat := {eterms.index('vpot')}%nat.",
          f"Definition energy_ekin_col : nat := {eterms.index('ekin')}%nat."]
    af = ast.unparse(pe.find_func(ftree, "apply_format", "EnergyFormatter")).replace("'", '"')
    for need in ('self.ENERGY_FMT[0].format(step)', 'enumerate(self.ENERGY_TERMS)', 'self.ENERGY_FMT[i + 1].format(float("nan"))',
                 'self.ENERGY_FMT[i + 1].format(float(value))', '" ".join(towrite)'):
        if need not in af:
            raise ValueError(f"EnergyFormatter.apply_format: expected {need}")
    eh = _cls_const(_cls(ftree, "EnergyPathFormatter"), "HEADER")
    # ---- traj.txt
    pcls = _cls(ftree, "PathExtFormatter")
    tfmt = _cls_const(pcls, "FMT")
    items = list(string.Formatter().parse(tfmt))
    if len(items) != 4 or any(it[1] != "" or it[3] is not None for it in items) or items[0][0] != "":
        raise ValueError("PathExtFormatter.FMT: expected four fields")
    seps = {it[0] for it in items[1:]}
    if len(seps) != 1 or set(next(iter(seps))) != {" "}:
        raise ValueError("PathExtFormatter.FMT: fields must be separated by blanks")
    tw = []
    for it in items:
        m = re.fullmatch(r">(\d+)s?", it[2])
        if not m:
            raise ValueError("PathExtFormatter.FMT: unexpected field spec")
        tw.append(int(m.group(1)))
    L += [f"Definition traj_w : list nat := {nats(tw)}.", f"Definition traj_sep : nat := {len(next(iter(seps)))}%nat."]
    tf = pe.find_func(ftree, "format", "PathExtFormatter")
    stf = ast.unparse(tf).replace("'", '"')
    for need in ("filename, idx = phasepoint.config", "filename_short = os.path.basename(filename)",
                 "self.FMT.format(i, filename_short, idx, vel)", "enumerate(path.phasepoints)"):
        if need not in stf:
            raise ValueError(f"PathExtFormatter.format: expected {need}")
    none_idx = rev_val = fwd_val = None
    for node in ast.walk(tf):
        if isinstance(node, ast.If) and ast.unparse(node.test) == "idx is None":
            st = node.body[0]
            if len(node.body) == 1 and isinstance(st, ast.Assign) and ast.unparse(st.targets[0]) == "idx" and isinstance(st.value, ast.Constant):
                none_idx = int(st.value.value)
        if isinstance(node, ast.Assign) and ast.unparse(node.targets[0]) == "vel" and isinstance(node.value, ast.IfExp):
            if ast.unparse(node.value.test) != "phasepoint.vel_rev":
                raise ValueError("PathExtFormatter.format: vel does not test phasepoint.vel_rev")
            rev_val, fwd_val = int(ast.literal_eval(node.value.body)), int(ast.literal_eval(node.value.orelse))
    if none_idx is None or rev_val is None:
        raise ValueError("PathExtFormatter.format: index/velocity conventions not found")
    L += [f"Definition traj_none_idx : Z := {none_idx}.", f"Definition traj_rev_val : Z := {rev_val}.",
          f"Definition traj_fwd_val : Z := {fwd_val}."]
    th = _header_dict(pe.find_func(ftree, "__init__", "PathExtFormatter"))
    for nm, h in (("order", oh), ("energy", eh), ("traj", th)):
        if "labels" not in h or "width" not in h:
            raise ValueError(f"{nm} header lacks labels/width")
        L += [f"Definition {nm}_hdr_labels : list (list Z) := [" + "; ".join(zs(x) for x in h["labels"]) + "].",
              f"Definition {nm}_hdr_width : list nat := {nats(h['width'])}.",
              f"Definition {nm}_hdr_spacing : nat := {int(h.get('spacing', 1))}%nat."]
    mh = ast.unparse(pe.find_func(ftree, "_make_header")).replace("'", '"')
    for need in ('fmt = f"# {{:>{wid - 2}s}}"', 'fmt = f"{{:>{wid}s}}"', "wid = width[-1]", 'str_white = " " * spacing', "str_white.join(heading)"):
        if need not in mh:
            raise ValueError(f"_make_header: expected {need}")
    # ---- comment lines
    lit3 = _cycle_pieces(pe.find_func(ftree, "format", "OrderPathFormatter"), 3)
    if lit3 != _cycle_pieces(pe.find_func(ftree, "format", "EnergyPathFormatter"), 3):
        raise ValueError("order and energy comment lines differ")
    lit2 = _cycle_pieces(tf, 2)
    if lit2 != lit3[:2]:
        raise ValueError("traj comment line differs from the order one")
    L += [f"Definition cyc_a : list Z := {zs(lit3[0])}.", f"Definition cyc_b : list Z := {zs(lit3[1])}.",
          f"Definition cyc_c : list Z := {zs(lit3[2])}."]
    # ---- PathStorage
    forms = _cls_const(_cls(ftree, "PathStorage"), "formatters")
    order_keys = list(forms.keys())
    want = {"order": "OrderPathFormatter", "energy": "EnergyPathFormatter", "traj": "PathExtFormatter"}
    if order_keys != ["order", "energy", "traj"] or any(forms[k]["fmt"] != ("call", want[k]) for k in order_keys):
        raise ValueError("PathStorage.formatters: unexpected entries/order")
    for k in order_keys:
        L.append(f"Definition {k}_txt : list Z := {zs(forms[k]['file'])}.")
    out = pe.find_func(ftree, "output", "PathStorage")
    so = ast.unparse(out).replace("'", '"')
    m = re.search(r'traj_dir = os\.path\.join\(archive_path, "(\w+)"\)', so)
    m2 = re.search(r'self\.output_path_files\(step, \[path, "(\w+)"\], archive_path\)', so)
    if not m or not m2 or 'os.path.join(home_dir, f"{path.path_number}")' not in so \
            or "self._move_path(path, traj_dir, self.keep_traj_fnames)" not in so:
        raise ValueError("PathStorage.output: unexpected body")
    if so.index("self.output_path_files") > so.index("self._move_path"):
        raise ValueError("PathStorage.output: text files are expected to be written before the move")
    L += [f"Definition acc_dir : list Z := {zs(m.group(1))}.", f"Definition store_status : list Z := {zs(m2.group(1))}."]
    # leftovers of an earlier attempt are removed from the target directory before the path is stored (fix 5456497);
    # variant flag: are the files the path itself refers to spared?  (proposed_fixes/C14_store_keeps_own_files.diff)
    loops = [n for n in ast.walk(out) if isinstance(n, ast.For) and ast.unparse(n.iter) == "os.listdir(traj_dir)"]
    if len(loops) != 1 or so.index("os.listdir(traj_dir)") > so.index("self.output_path_files") or so.index("make_dirs(traj_dir)") > so.index("os.listdir(traj_dir)"):
        raise ValueError("PathStorage.output: expected one clean-up loop over os.listdir(traj_dir) between make_dirs and the writes")
    body = loops[0].body
    if not (len(body) == 2 and ast.unparse(body[0]) == f"leftover_file = os.path.join(traj_dir, {loops[0].target.id})" and isinstance(body[1], ast.If)
            and not body[1].orelse and len(body[1].body) == 1 and ast.unparse(body[1].body[0]) == "os.remove(leftover_file)"):
        raise ValueError("PathStorage.output: unexpected clean-up loop")
    test = ast.unparse(body[1].test)
    if test == "os.path.isfile(leftover_file)":
        keeps_own = False
    elif test == "os.path.isfile(leftover_file) and os.path.abspath(leftover_file) not in own" \
            and "own = {os.path.abspath(pp.config[0]) for pp in path.phasepoints}" in so \
            and so.index("own = {") < so.index("os.listdir(traj_dir)"):
        keeps_own = True
    else:
        raise ValueError(f"PathStorage.output: unexpected clean-up condition {test}")
    L.append(f"Definition store_keeps_own : bool := {'true' if keeps_own else 'false'}.")
    # ---- load_path
    ptree = ast.parse(pe.src(PATH))
    lp = ast.unparse(pe.find_func(ptree, "load_path")).replace("'", '"')
    for need in (f'os.path.join(pdir, "{forms["traj"]["file"]}")', f'os.path.join(pdir, "{forms["order"]["file"]}")',
                 f'os.path.join(pdir, "{m.group(1)}", snapshot[1])', f"int(snapshot[3]) == {rev_val}", "idx = int(snapshot[2])",
                 '["data"][:, 1:]', "zip(traj[\"data\"], orderdata)", "_load_energies_for_path(path, pdir)"):
        if need not in lp:
            raise ValueError(f"load_path: expected {need}")
    le = ast.unparse(pe.find_func(ptree, "_load_energies_for_path")).replace("'", '"')
    for need in (f'os.path.join(dirname, "{forms["energy"]["file"]}")', 'path.update_energies(energy["data"]["ekin"], energy["data"]["vpot"])',
                 "except FileNotFoundError"):
        if need not in le:
            raise ValueError(f"_load_energies_for_path: expected {need}")
    # ---- deletion logic of treat_output
    rtree = ast.parse(pe.src(REPEX))
    to = pe.find_func(rtree, "treat_output", "REPEX_state")
    found = {}
    for node in ast.walk(to):
        if isinstance(node, ast.Compare):
            try:
                lhs, op, k = _compare(node)
            except ValueError:
                continue
            found.setdefault((lhs, op), []).append(k)
    try:
        guard, = found[("pn_old", "Gt")]
        lag, = found[("len(self.pn_olds)", "Gt")]
        push, = found[("len(self.pn_olds)", "LtE")]
    except (KeyError, ValueError):
        raise ValueError(f"treat_output: guard/lag/push comparisons not found as expected: {sorted(found)}")
    if len(found) != 3:
        raise ValueError(f"treat_output: unexpected additional comparisons with self.n: {sorted(found)}")
    sto = ast.unparse(to).replace("'", '"')
    for need in ("pn_old_del, del_dic = next(iter(self.pn_olds.items()))", 'for adress in del_dic["adress"]:\n', "os.remove(adress)",
                 'self.config["output"].get("delete_old", False) and pn_old > self.n', 'self.config["output"].get("delete_old_all", False)',
                 'os.rmdir(os.path.join(load_dir, pn_old_del, "%s"))' % m.group(1), "os.rmdir(os.path.join(load_dir, pn_old_del))",
                 "self.pn_olds.pop(pn_old_del)", 'self.pn_olds[str(pn_old)] = {"adress": self.traj_data[pn_old]["adress"]}',
                 "out_traj.path_number = traj_num", "traj_num += 1"):
        if need not in sto:
            raise ValueError(f"treat_output: expected {need}")
    mm = re.search(r"for txt in \(([^)]*)\):", sto)
    if not mm or sorted(ast.literal_eval("(" + mm.group(1) + ")")) != sorted(forms[k]["file"] for k in order_keys):
        raise ValueError("treat_output: delete_old_all does not remove exactly the three text files")
    L += [f"Definition guard_off : Z := {guard}.", f"Definition lag_off : Z := {lag}.", f"Definition push_off : Z := {push}."]
    return "\n".join(L) + "\n"
