"""Verify an independently seeded change and run the checks against it.

usage: seed_verify.py <property id> <n> [check ids ...]
Reads /tmp/seed_<id>/out/<n>/{patch.diff,demo.py,notes.md}; makes two scratch copies of /repo
(clean, patched); confirms: patch applies, the unedited test-suite gives the baseline result on
the patched copy, demo.py exits 1 on the patched copy and 0 on the clean one; runs the listed
checks (default: the property's own) with INFRETIS_REPO=<patched copy>; stores everything under
/verif/seeded/<id>-<n>/ (patch.diff, demo.py, notes.md, meta.json).  Scratch copies are removed.
"""
import json
import os
import re
import shutil
import subprocess
import sys
import time

VERIF = os.path.dirname(os.path.dirname(os.path.abspath(__file__)))


def sh(cmd, cwd=None, env=None, timeout=7200):
    p = subprocess.run(cmd, cwd=cwd, shell=True, capture_output=True, text=True, timeout=timeout, env=env)
    return p.returncode, (p.stdout + p.stderr)


def main():
    pid, n = sys.argv[1], sys.argv[2]
    checks = sys.argv[3:] or [pid]
    root = os.environ.get("SEED_ROOT", "/tmp/seed_")       # second round: SEED_ROOT=/tmp/seed2_ SEED_TAG=r2
    tag = os.environ.get("SEED_TAG", "")
    src = f"{root}{pid}/out/{n}"
    dest = os.path.join(VERIF, "seeded", f"{pid}-{tag + '-' if tag else ''}{n}")
    os.makedirs(dest, exist_ok=True)
    for f in ("patch.diff", "demo.py", "notes.md"):
        if os.path.exists(os.path.join(src, f)):
            shutil.copy(os.path.join(src, f), dest)
    clean, patched = f"/tmp/sv_{pid}{tag}_{n}_clean", f"/tmp/sv_{pid}{tag}_{n}_patched"
    meta = {"property": pid, "n": int(n), "source": "independent sub-agent given only the property text and a scratch worktree",
            "ran": [], "checks": {}}
    try:
        for d in (clean, patched):
            shutil.rmtree(d, ignore_errors=True)
            sh(f"rsync -a --exclude .git /repo/ {d}/")
            os.makedirs(os.path.join(d, "out", n), exist_ok=True)
            shutil.copy(os.path.join(src, "demo.py"), os.path.join(d, "out", n, "demo.py"))
            for extra in os.listdir(src):
                if extra not in ("patch.diff", "demo.py", "notes.md") and os.path.isfile(os.path.join(src, extra)):
                    shutil.copy(os.path.join(src, extra), os.path.join(d, "out", n, extra))
        rc, out = sh(f"patch -p1 < {src}/patch.diff", cwd=patched)
        meta["patch_applies"] = rc == 0
        meta["ran"].append("patch -p1 < patch.diff on a scratch copy of /repo")
        if rc != 0:
            meta["error"] = out[-500:]
            return meta, dest
        rc, out = sh("/venv/bin/python -m pytest -q -p no:cacheprovider --timeout=900 2>&1 | tail -n 3", cwd=patched,
                     env={**os.environ, "PYTHONPATH": patched})
        m = re.search(r"(\d+) failed, (\d+) passed", out)
        if not (m and m.group(1) == "1" and m.group(2) == "76"):
            # the suite has one unseeded statistical test that fails now and then: run it once more
            rc, out = sh("/venv/bin/python -m pytest -q -p no:cacheprovider --timeout=900 2>&1 | tail -n 3", cwd=patched,
                         env={**os.environ, "PYTHONPATH": patched})
            m = re.search(r"(\d+) failed, (\d+) passed", out)
        meta["testsuite_patched"] = out.strip().splitlines()[-1] if out.strip() else ""
        meta["testsuite_baseline_ok"] = bool(m and m.group(1) == "1" and m.group(2) == "76" and "test_restart_multiple_w" in out)
        meta["ran"].append("unedited test-suite on the patched copy (baseline: 76 passed, 1 failed = test_restart_multiple_w)")
        for name, d in (("clean", clean), ("patched", patched)):
            t0 = time.time()
            rc, out = sh(f"/venv/bin/python out/{n}/demo.py", cwd=d, env={**os.environ, "PYTHONPATH": d, "PYTHONHASHSEED": "0"}, timeout=1800)
            meta[f"demo_{name}_rc"] = rc
            meta[f"demo_{name}_tail"] = out.strip()[-400:]
            meta[f"demo_{name}_s"] = round(time.time() - t0, 1)
        meta["ran"].append("demo.py on the clean and on the patched copy")
        meta["confirmed"] = bool(meta["patch_applies"] and meta["testsuite_baseline_ok"] and meta["demo_clean_rc"] == 0 and meta["demo_patched_rc"] != 0)
        for c in checks:
            t0 = time.time()
            rc, out = sh(f"./vcheck {c} --tier quick", cwd=VERIF, env={**os.environ, "INFRETIS_REPO": patched}, timeout=5400)
            lines = [l for l in out.splitlines() if l.startswith(("VIOLATION", "OK ", "KNOWN-FINDING", "  #"))]
            meta["checks"][c] = {"rc": rc, "detected": rc != 0 and any(l.startswith("VIOLATION") for l in lines),
                                 "with_failing_input": any(l.startswith("VIOLATION") and "no-failing-input-found" not in l for l in lines),
                                 "lines": [l[:300] for l in lines[:6]], "wall_s": round(time.time() - t0, 1)}
            meta["ran"].append(f"INFRETIS_REPO=<patched copy> ./vcheck {c} --tier quick")
            # replays produced against a scratch copy are not kept
            shutil.rmtree(os.path.join(VERIF, "replays", c), ignore_errors=True)
        return meta, dest
    finally:
        shutil.rmtree(clean, ignore_errors=True)
        shutil.rmtree(patched, ignore_errors=True)


if __name__ == "__main__":
    meta, dest = main()
    old = {}
    mp = os.path.join(dest, "meta.json")
    if os.path.exists(mp):
        old = json.load(open(mp))
        old.get("checks", {}).update(meta.get("checks", {}))
        meta["checks"] = old["checks"]
    json.dump(meta, open(mp, "w"), indent=1)
    print(json.dumps({k: v for k, v in meta.items() if k not in ("ran",)}, indent=1)[:3000])
