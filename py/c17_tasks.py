"""Task function for the aiorunner trace tests of C17 (must be importable in worker processes)."""
import os
import time


def task(md):
    log = md["log"]
    with open(log, "a") as f:
        f.write(f"start {md['unit']} {time.monotonic():.6f} {os.getpid()}\n")
    time.sleep(md["dur"])
    with open(log, "a") as f:
        f.write(f"finish {md['unit']} {time.monotonic():.6f} {os.getpid()} {'E' if md.get('fail') else 'R'}\n")
    if md.get("fail"):
        raise ValueError(f"unit {md['unit']} failed")
    md["result"] = md["unit"] * 10 + 1
    return md
