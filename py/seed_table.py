"""Rebuild the seeded-changes table of DESIGN.md (section 7) from /verif/seeded/*/meta.json."""
import json
import os
import re

VERIF = os.path.dirname(os.path.dirname(os.path.abspath(__file__)))
BEGIN, END = "<!-- SEEDED_TABLE_BEGIN -->", "<!-- SEEDED_TABLE_END -->"


def first_site(patch):
    files = re.findall(r"^\+\+\+ b/(\S+)", patch, re.M)
    return ", ".join(sorted(set(os.path.basename(f) for f in files)))


def main():
    rows = []
    d = os.path.join(VERIF, "seeded")
    for name in sorted(os.listdir(d)):
        mp = os.path.join(d, name, "meta.json")
        if not os.path.exists(mp):
            continue
        m = json.load(open(mp))
        patch = open(os.path.join(d, name, "patch.diff")).read() if os.path.exists(os.path.join(d, name, "patch.diff")) else ""
        what = m.get("summary", "")
        det = []
        for c, v in sorted(m.get("checks", {}).items()):
            if v["detected"]:
                det.append(f"**{c}**" + (" (failing input)" if v["with_failing_input"] else " (obligation/correspondence only)"))
            else:
                det.append(f"{c}: missed")
        rows.append(f"| {name} | {first_site(patch)} | {what} | {'yes' if m.get('confirmed') else 'NO'} | {'; '.join(det)} |")
    table = "\n".join(["| id | site | change and what it needs to manifest | confirmed (suite green, demo fails/passes) | checks run against it (quick tier) |",
                       "|---|---|---|---|---|"] + rows)
    p = os.path.join(VERIF, "DESIGN.md")
    s = open(p).read()
    block = f"{BEGIN}\n{table}\n{END}"
    if BEGIN in s:
        s = s[:s.index(BEGIN)] + block + s[s.index(END) + len(END):]
    else:
        s = s.replace("SEEDED_TABLE_PLACEHOLDER", block)
    open(p, "w").write(s)
    print(f"{len(rows)} seeded changes in the table")


if __name__ == "__main__":
    main()
