"""vcheck — run one property check (see DESIGN.md 2.3).

  ./vcheck --setup                      build every .vo and every model runner
  ./vcheck Cxx [--tier quick|thorough]  run the check of one property
  ./vcheck Cxx --replay FILE            re-run the case stored in a replay file
  ./vcheck --manifest                   regenerate MANIFEST.json from the check modules
"""
import argparse
import importlib
import importlib.util  # noqa: F401  (infretis.classes.engines.factory relies on it being loaded)
import json
import os
import sys
import traceback

import common


def all_checks():
    d = os.path.join(common.VERIF, "py", "checks")
    return sorted(f[:-3].upper() for f in os.listdir(d) if f.startswith("c") and f.endswith(".py") and f[1:-3].isdigit())


def load(cid):
    return importlib.import_module(f"checks.{cid.lower()}")


def setup():
    with common.build_lock():
        # generated parameter files must exist before the Makefile is written
        import params_extract
        params_extract.regenerate_all()
        hits = common.audit_sources()
        if hits:
            print("audit hits:", hits)
            return 1
        # only the targets of the registered checks are built: work in progress of
        # unregistered properties must neither break nor delay the registered checks
        reg_path = os.path.join(common.VERIF, "registered.json")
        registered = json.load(open(reg_path)) if os.path.exists(reg_path) else []
        runners = set()
        for cid in registered:
            mod = load(cid)
            ex = getattr(mod, "EXTRACTS", [cid.lower()])
            try:
                common.coq_make([f"theorems/{cid}.vo"] + [f"extract/{e}.vo" for e in ex])
            except common.BuildError as e:
                print(e.what)
                print(e.log)
                return 1
            runners.update(ex)
        for name in sorted(runners):
            try:
                common.build_runner(name)
            except common.BuildError as e:
                print(e.what)
                print(e.log)
                return 1
    print("setup ok")
    return 0


def main():
    ap = argparse.ArgumentParser()
    ap.add_argument("cid", nargs="?")
    ap.add_argument("--setup", action="store_true")
    ap.add_argument("--manifest", action="store_true")
    ap.add_argument("--tier", default=os.environ.get("VERIF_TIER", "quick"))
    ap.add_argument("--replay")
    a = ap.parse_args()
    if a.setup:
        return setup()
    if a.manifest:
        import gen_manifest
        return gen_manifest.main()
    if not a.cid:
        ap.print_help()
        return 2
    cid = a.cid.upper()
    seed = int(os.environ.get("VERIF_SEED", "20260926") or 0)
    tier = a.tier if a.tier in ("quick", "thorough") else "quick"
    mod = load(cid)
    if a.replay:
        return mod.replay(json.load(open(a.replay)))
    ctx = common.Ctx(cid, tier, seed)
    ctx.level = getattr(mod, "LEVEL", "proof")
    try:
        import params_extract
        with common.build_lock():
            params_extract.regenerate_all()
        mod.run(ctx)
    except Exception as e:  # a crashing check must not look like a pass
        tb = traceback.format_exc()
        ctx.violation(f"check crashed: {e!r}", {"traceback": tb[-3000:]}, found_input=False)
    return ctx.finish()


if __name__ == "__main__":
    sys.exit(main())
