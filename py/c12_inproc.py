"""In-process engines of the C12 check: ASEEngine (harmonic / free-flight calculator plug-in),
TurtleMDEngine (Langevin double well, seeded) and the lattice plug-in engine loaded through
infretis' own class/module plug-in path.  `run_inproc(case)` runs the REAL engine class and,
independently, the same dynamics directly with ASE / TurtleMD / the walk rule (the *reference*
fine-grained trajectory: one state per MD step) from which the model's expectation is built.
"""
from __future__ import annotations

import importlib.util  # noqa: F401
import os
import sys

import numpy as np

HERE = os.path.dirname(os.path.abspath(__file__))
PLUG = os.path.join(HERE, "plugins")


def _flip(case):
    return bool(case.get("reverse", False)) != bool(case.get("vel_rev_in", False))


# --------------------------------------------------------------------------- ASE


def ase_atoms(case):
    import ase
    atoms = ase.Atoms(case.get("symbols", "H" * len(case["pos"])), positions=np.array(case["pos"], dtype=float),
                      cell=np.diag(case["cell"]), pbc=False)
    if not case.get("omit_vel"):
        # omit_vel: a configuration without momenta (Atoms.get_velocities() then gives zeros;
        # case["vel"] is all zeros in such a case)
        atoms.set_velocities(np.array(case["vel"], dtype=float))
    return atoms


def make_ase(case, wd):
    from infretis.classes.engines.factory import create_engine
    cfg = {"engine": {"class": "ase", "engine": "ase", "timestep": case["timestep"], "temperature": 300.0,
                      "subcycles": case["subcycles"], "input_path": wd, "integrator": "velocityverlet",
                      "exe_path": wd,
                      "calculator_settings": {"class": "HarmonicCalc", "module": os.path.join(PLUG, "c12_plugins.py"),
                                              "kspring": case.get("kspring", 0.0)}}}
    e = create_engine(cfg)
    conf = os.path.join(wd, "start.traj")
    # a two-frame file and index 1, so that _extract_frame is exercised
    from ase.io.trajectory import Trajectory
    decoy = ase_atoms(case)
    decoy.positions += 7.0
    with Trajectory(conf, "w") as t:
        t.write(decoy)
        t.write(ase_atoms(case))
    return e, conf, 1


def ase_reference(case, nsteps):
    """States after 0..nsteps velocity-Verlet steps, computed with ASE directly."""
    import ase.units
    from ase.md.verlet import VelocityVerlet
    if PLUG not in sys.path:
        sys.path.insert(0, PLUG)
    from c12_plugins import HarmonicCalc
    atoms = ase_atoms(case)
    if _flip(case):
        atoms.set_velocities(-atoms.get_velocities())
    atoms.calc = HarmonicCalc(case.get("kspring", 0.0))
    dyn = VelocityVerlet(atoms, timestep=case["timestep"] * ase.units.fs)
    out = []
    for _ in range(nsteps + 1):
        out.append((atoms.positions.copy().tolist(), atoms.get_velocities().tolist(),
                    [float(x) for x in atoms.cell.diagonal()]))
        dyn.step()
    return out


# --------------------------------------------------------------------------- TurtleMD


def tmd_settings(case):
    return {"class": "turtlemd", "engine": "turtlemd", "timestep": case["timestep"], "subcycles": case["subcycles"],
            "temperature": 1.0 / case["beta"], "boltzmann": 1.0,
            "integrator": {"class": "LangevinInertia", "settings": {"gamma": case["gamma"], "beta": case["beta"]}},
            "potential": {"class": "DoubleWell", "settings": {"a": case["a"], "b": case["b"], "c": case["c"]}},
            "particles": {"mass": [case.get("mass", 1.0)], "name": ["Z"], "pos": [[case["pos"][0][0]]]},
            "box": {"low": [-50.0], "high": [50.0], "periodic": [False]}}


def make_tmd(case, wd):
    import contextlib
    import io
    from infretis.classes.engines.engineparts import write_xyz_trajectory
    from infretis.classes.engines.factory import create_engine
    with contextlib.redirect_stdout(io.StringIO()):
        e = create_engine({"engine": tmd_settings(case)})
    conf = os.path.join(wd, "start.xyz")
    box = np.array([100.0, 1.0, 1.0])
    decoy = np.array(case["pos"], dtype=float) + 3.0
    if case.get("omit_box") or case.get("omit_vel"):
        # a phase point whose file lacks the optional entries of the xyz format: no "Box:" in
        # the comment line (TurtleMD takes its box from [engine.box]) and / or no velocity
        # columns (read as zeros; case["vel"] is all zeros then)
        import c12_harness as H
        fbox = None if case.get("omit_box") else box
        H.write_xyz_conf(conf, decoy.tolist(), case["vel"], fbox, names=["Z"], omit_vel=bool(case.get("omit_vel")))
        H.write_xyz_conf(conf, case["pos"], case["vel"], fbox, names=["Z"], omit_vel=bool(case.get("omit_vel")), append=True)
        return e, conf, 1
    write_xyz_trajectory(conf, decoy, np.array(case["vel"], dtype=float), ["Z"], box, append=False)
    write_xyz_trajectory(conf, np.array(case["pos"], dtype=float), np.array(case["vel"], dtype=float), ["Z"], box)
    return e, conf, 1


def tmd_reference(case, nsteps):
    from turtlemd.integrators import LangevinInertia
    from turtlemd.potentials.well import DoubleWell
    from turtlemd.simulation import MDSimulation
    from turtlemd.system.box import Box
    from turtlemd.system.particles import Particles
    from turtlemd.system.system import System as TSystem
    seed = np.random.default_rng(case["rseed"]).integers(0, 1e9)
    pos = np.array(case["pos"], dtype=float)
    vel = np.array(case["vel"], dtype=float)
    if _flip(case):
        vel = -1.0 * vel
    parts = Particles(dim=1)
    parts.add_particle(pos[0][:1], vel=vel[0][:1], mass=np.array([case.get("mass", 1.0)]), name="Z")
    box = Box(low=[-50.0], high=[50.0], periodic=[False])
    tsys = TSystem(box=box, particles=parts, potentials=[DoubleWell(a=case["a"], b=case["b"], c=case["c"])])
    sim = MDSimulation(system=tsys, integrator=LangevinInertia(timestep=case["timestep"], gamma=case["gamma"],
                                                               beta=case["beta"], seed=seed), steps=nsteps)
    out = []
    for _ in sim.run():
        p = [[float(tsys.particles.pos[0][0]), 0.0, 0.0]]
        v = [[float(tsys.particles.vel[0][0]), 0.0, 0.0]]
        out.append((p, v, [float(x) for x in tsys.box.length]))
    return out


# --------------------------------------------------------------------------- lattice plug-in


def make_plugin(case, wd):
    from infretis.classes.engines.factory import create_engine
    e = create_engine({"engine": {"class": "LatticeEngine", "module": os.path.join(PLUG, "engines.py"),
                                  "wall": case["wall"]}})
    conf = os.path.join(wd, "start.lat")
    with open(conf, "w") as f:
        f.write(f"{case['x0'] - 2}\n{case['x0']}\n{case['x0'] + 5}\n")
    return e, conf, 1


def plugin_reference(case, nsteps):
    rng = np.random.default_rng(case["rseed"])
    x, out = int(case["x0"]), []
    for _ in range(nsteps + 1):
        out.append(([[float(x), 0.0, 0.0]], [[0.0, 0.0, 0.0]], None))
        u = rng.random()
        nx = x + (1 if u < 0.5 else -1)
        if nx < case["wall"]:
            nx = case["wall"] + 1
        x = nx
    return out


# --------------------------------------------------------------------------- run


def _propagate(engine, case, conf, idx, vel_rev_in, reverse, tag, maxlen, interfaces):
    import c12_harness as H
    from infretis.classes.path import Path
    from infretis.classes.system import System
    system = System()
    system.config = (conf, idx)
    system.vel_rev = bool(vel_rev_in)
    path = Path(maxlen=maxlen)
    ens = {"ens_name": "001", "interfaces": [interfaces[0], None, interfaces[1]]}
    obs = {"raised": None, "success": None, "status": None, "hang": False, "sigterm": False,
           "children_alive": [k for k in H.children() if k[1] not in "ZX"]}
    try:
        ok, status = engine.propagate(path, ens, system, reverse=reverse)
        obs["success"], obs["status"] = bool(ok), str(status)
    except BaseException as e:  # noqa: BLE001
        obs["raised"] = f"{type(e).__name__}: {e}"[:300]
    obs["frames"] = H.describe_path(engine, path, tag)
    obs["trajfiles"] = sorted({f["file"] for f in obs["frames"]})
    return obs, path


def run_inproc(case):
    import c12_harness as H
    wd = case["wd"]
    exe = os.path.join(wd, "exe")
    os.makedirs(exe, exist_ok=True)
    eng = case["engine"]
    nsteps = case["subcycles"] * case["maxlen"]
    if eng == "ase":
        engine, conf, idx = make_ase(case, wd)
        ref = ase_reference(case, nsteps)
    elif eng == "turtlemd":
        engine, conf, idx = make_tmd(case, wd)
        ref = tmd_reference(case, nsteps)
    elif eng == "plugin":
        engine, conf, idx = make_plugin(case, wd)
        ref = plugin_reference(case, nsteps)
    else:
        raise ValueError(eng)
    engine.set_mdrun({"exe_dir": exe})
    engine.rgen = np.random.default_rng(case.get("rseed", 0))
    engine.order_function = H.make_order(case["order"])
    res = {"ref": ref}
    obs, path = _propagate(engine, case, conf, idx, case.get("vel_rev_in", False), case.get("reverse", False),
                           "a", case["maxlen"], case["interfaces"])
    res["main"] = obs
    j = case.get("back_from")
    if j is not None and obs["raised"] is None and j < len(path.phasepoints):
        pp = path.phasepoints[j]
        obs2, _ = _propagate(engine, case, pp.config[0], pp.config[1], pp.vel_rev, not pp.vel_rev, "b",
                             j + 1, [-1e9, 1e9])
        res["back"] = obs2
    return res


# --------------------------------------------------------------------------- calculate_order probe


CALC_PROBE = {"given": {"xyz": 1.5, "vel": 0.5, "box": 8.0}, "file": {"xyz": 2.25, "vel": -0.25, "box": 16.0},
              "sysbox": 32.0, "order": {"class": "LinOrder", "wx": 1.0, "wv": 2.0, "wb": 0.5}}


def calc_combos():
    """Every way of giving / not giving the three overrides x vel_rev x file with / without box entry."""
    out = []
    for rv in (False, True):
        for fbox in (True, False):
            for mask in range(8):
                out.append({"rv": rv, "file_box": fbox, "xyz": bool(mask & 1), "vel": bool(mask & 2), "box": bool(mask & 4)})
    return out


def run_calcorder(case):
    """The REAL EngineBase.calculate_order (through a TurtleMDEngine: xyz reader) called with every
    combination of given / missing overrides on a System that points to a configuration file."""
    import c12_harness as H
    from infretis.classes.system import System
    wd = case["wd"]
    os.makedirs(wd, exist_ok=True)
    probe = {"timestep": 0.025, "subcycles": 1, "beta": 4.0, "gamma": 0.3, "a": 1.0, "b": 2.0, "c": 0.0,
             "pos": [[0.0, 0.0, 0.0]], "vel": [[0.0, 0.0, 0.0]]}
    engine, _, _ = make_tmd(probe, wd)
    engine.order_function = H.make_order(CALC_PROBE["order"])
    g, f = CALC_PROBE["given"], CALC_PROBE["file"]
    vals = []
    for k, c in enumerate(case["combos"]):
        conf = os.path.join(wd, f"probe_{k}.xyz")
        H.write_xyz_conf(conf, [[f["xyz"], 0.0, 0.0]], [[f["vel"], 0.0, 0.0]], [f["box"], 1.0, 1.0] if c["file_box"] else None,
                         names=["Z"])
        s = System()
        s.config = (conf, 0)
        s.vel_rev = c["rv"]
        s.box = np.array([CALC_PROBE["sysbox"], 1.0, 1.0])
        try:
            val = engine.calculate_order(s, xyz=np.array([[g["xyz"], 0.0, 0.0]]) if c["xyz"] else None,
                                         vel=np.array([[g["vel"], 0.0, 0.0]]) if c["vel"] else None,
                                         box=np.array([g["box"], 1.0, 1.0]) if c["box"] else None)
            vals.append(float(val[0]))
        except Exception as e:  # noqa: BLE001
            vals.append(f"raised {type(e).__name__}: {e}"[:200])
    return {"values": vals}
