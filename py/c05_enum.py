"""C05 — exhaustive small-system exploration of the REAL REPEX_state (search stage + oracle family).

Two families, both driving the unmodified methods of infretis.classes.repex.REPEX_state on
light-weight stand-in paths (only the attributes REPEX_state looks at), with a SCRIPTED random
generator in place of `state.rgen` that enumerates every outcome of every random decision that
has non-zero probability (DFS by replay over the decisions):

 (1) start-up: `while state.initiate(): state.prep_md_items(...)` exactly like scheduler(), for
     every staircase weight pattern of the initial paths, every number of workers.  After every
     pick: held ensembles / paths disjoint and consistent with the locks, the REMAINING idle block
     admits a perfect matching (brute force on the W sub-matrix), `state.prob` evaluates, is finite
     and has unit row / column sums on the idle block.  An exception inside a pick is a stall.
 (2) one step: a start-up with one (two) worker(s) from every sorted valid state, then one job
     (then the other one) finishes through the real `loop()` / `treat_output()` with every outcome
     (rejected; accepted with every reach legal for the ensemble); checked afterwards: the
     re-sorting terminated, every idle live path has non-zero weight where it sits, live paths
     distinct, fresh path numbers, `prob` fine, idle block matchable, and the restart.toml written
     by that treat_output loads through REPEX_state + load_paths.  The state at entry of
     sort_trajstate and the result are returned for the lock-step with the extracted model.

The decision sequence (script) is the failing input.
"""
from __future__ import annotations

import copy
import importlib.util  # noqa: F401
import itertools
import os
import shutil
import signal
import tempfile

import numpy as np

KINDS = ("01", "dec", "top", "mix")


class ScriptError(Exception):
    """The scripted generator was used in a way the harness does not know (harness problem)."""


class Hang(BaseException):
    """Watchdog: the program does not terminate."""


def _alarm(signum, frame):
    raise Hang("the call does not return within the time limit (watchdog)")


class watch:
    """`with watch(20): real call` — Hang when the program does not come back."""

    def __init__(self, seconds=30):
        self.seconds = seconds

    def __enter__(self):
        signal.signal(signal.SIGALRM, _alarm)
        signal.setitimer(signal.ITIMER_REAL, self.seconds)

    def __exit__(self, *a):
        signal.setitimer(signal.ITIMER_REAL, 0)
        return False


# ------------------------------------------------------------------ scripted generator


class Scripted:
    """Stands in for numpy's Generator in REPEX_state.rgen.

    Implements exactly what pick / pick_traj_ens / spawn_rng / write_toml use:
    `choice(int, p=...)`, `random()`, `.bit_generator` (a real PCG64, only spawned / saved).
    Everything else fails loudly."""

    def __init__(self, bit_generator=None, script=None, zeroswap=0.5):
        d = self.__dict__
        d["bit_generator"] = bit_generator if bit_generator is not None else np.random.PCG64(np.random.SeedSequence(0))
        d["script"] = None if script is None else list(script)   # None: a spawned child, no decisions allowed
        d["trace"] = []          # (k, number of options)
        d["labels"] = []
        d["zeroswap"] = zeroswap
        d["state"] = None

    def __getattr__(self, name):
        if name.startswith("__") and name.endswith("__"):
            raise AttributeError(name)
        raise ScriptError(f"scripted generator: unknown attribute/call {name!r}")

    def __setattr__(self, name, value):
        raise ScriptError(f"scripted generator: attribute {name!r} assigned")

    def _next(self, nopt, what):
        if self.script is None:
            raise ScriptError(f"random decision ({what}) asked from a spawned child generator")
        idx = len(self.trace)
        if idx < len(self.script):
            k = self.script[idx]
            if k >= nopt:
                raise ScriptError(f"replay diverged: decision {idx} ({what}) has {nopt} options, script says {k}")
        else:
            k = 0
        self.trace.append((k, nopt))
        return k

    def choice(self, a, *args, p=None, **kw):
        if args or kw or p is None or not isinstance(a, (int, np.integer)):
            raise ScriptError(f"scripted generator: choice called with unknown arguments {a!r} {args} {kw}")
        p = np.asarray(p, dtype="float64")
        # what numpy's Generator.choice checks
        if p.shape != (a,):
            raise ValueError("a and p must have same size")
        if np.isnan(p).any() or (p < 0).any():
            raise ValueError("probabilities are not non-negative")
        if abs(p.sum() - 1.0) > 1e-8:
            raise ValueError("probabilities do not sum to 1")
        opts = np.flatnonzero(p > 0)
        k = self._next(len(opts), f"choice({a})")
        val = opts[k]
        st = self.state
        if st is not None:
            n = st.n
            nm = _names(n)
            if a == n * n:
                i, j = divmod(int(val), n)
                self.labels.append(f"pick: p{_pn(st, i)} (slot {nm[i]}) for {nm[j]}  [option {k} of {len(opts)}, p={p[val]:.4g}]")
            else:
                self.labels.append(f"zero-swap partner: p{_pn(st, int(val))} (slot {nm[int(val)]})  [option {k} of {len(opts)}, p={p[val]:.4g}]")
        return val

    def random(self, *args, **kw):
        if args or kw:
            raise ScriptError(f"scripted generator: random called with arguments {args} {kw}")
        zs = self.zeroswap
        if not 0 < zs < 1:
            raise ScriptError("zeroswap probability outside (0, 1)")
        k = self._next(2, "random()")
        self.labels.append("zero-swap coin: " + ("swap" if k == 0 else "no swap"))
        return zs / 2 if k == 0 else (1 + zs) / 2


def _names(n):
    return ["[0-]"] + [f"[{i}+]" for i in range(n - 2)] + ["ghost"]


def _pn(state, slot):
    t = state._trajs[slot]
    return getattr(t, "path_number", "?")


# ------------------------------------------------------------------ stand-in paths and state


class FakePath:
    """The attributes of infretis' Path that REPEX_state looks at."""

    def __init__(self, pmax, number=None, reach=None):
        self.ordermax = (pmax, 0)
        self.ordermin = (-1.0, 0)
        self.length = 10
        self.adress = set()
        self.path_number = number
        self.weights = None
        self.phasepoints = []
        self.reach = reach


class FakeStore:
    """Stands in for PathStorage: nothing is written to disk."""

    def output(self, cstep, data):
        return data["path"]


def interfaces(n_ens):
    return [round(0.1 * i, 10) for i in range(n_ens)]


def pmax_of(reach, n_ens):
    """order maximum of a path with non-zero 0/1 weight in exactly [0+] .. [(reach-1)+]."""
    if reach is None:
        return 0.01
    return interfaces(n_ens)[reach - 1] + 0.05


def weights_row(kind, h, m):
    """Weights of a path reaching h (1..m) plus-ensembles, over the m plus-ensembles (staircase).
    All values are powers of two, so every float operation of the permanent code is exact."""
    if kind == "01":
        return [1.0 if c < h else 0.0 for c in range(m)]
    if kind == "dec":
        return [float(2 ** (h - 1 - c)) if c < h else 0.0 for c in range(m)]
    if kind == "top":
        return [(2.0 if c < h - 1 else 1.0) if c < h else 0.0 for c in range(m)]
    if kind == "mix":
        v = 2.0 if h % 2 == 0 else 1.0
        return [v if c < h else 0.0 for c in range(m)]
    raise ValueError(kind)


def make_config(n_ens, workers, seed=0):
    return {
        "runner": {"workers": workers},
        "simulation": {
            "interfaces": interfaces(n_ens),
            "steps": 10**6,
            "seed": seed,
            "load_dir": "load",
            "shooting_moves": ["sh"] * n_ens,
            "tis_set": {"lambda_minus_one": False, "maxlength": 100},
            "ensemble_engines": [["engine"]] * n_ens,
        },
        "output": {"screen": 0, "data_dir": "./", "data_file": "./d.txt", "pattern": False},
        "current": {"traj_num": n_ens, "cstep": 0, "active": list(range(n_ens)), "locked": [],
                    "size": n_ens, "frac": {}},
    }


def new_path(case, reach, number):
    n_ens = case["n_ens"]
    m = n_ens - 1
    p = FakePath(pmax_of(reach, n_ens), number, reach)
    if reach is None:
        p.weights = (1.0,)
    else:
        p.weights = tuple(weights_row(case["kind"], reach, m)) + (0.0,)
    return p


def make_state(case, script):
    """The REPEX_state of a fresh run: [0-] p0 and [i+] p(i+1) with reach case['reach'][i]."""
    from infretis.classes.repex import REPEX_state
    n_ens, workers = case["n_ens"], case["workers"]
    config = make_config(n_ens, workers)
    state = REPEX_state(config, minus=True)
    state.pstore = FakeStore()
    state.traj_data = {}
    state.ensembles = {}
    state.engine_occ = {"engine": [-1] * workers}
    state.initiate_ensembles()
    paths = [new_path(case, None, 0)] + [new_path(case, h, i + 1) for i, h in enumerate(case["reach"])]
    if case["kind"] == "01":
        # the real loader (weights recomputed by calc_cv_vector from the order maximum)
        state.load_paths(paths)
        for p in paths[1:]:
            want = tuple(weights_row("01", p.reach, n_ens - 1)) + (0.0,)
            if tuple(float(x) for x in p.weights) != want:
                raise ScriptError(f"stand-in path does not get the prescribed weights: {p.weights} vs {want}")
    else:
        size = state.n - 1
        for i in range(size - 1):
            p = paths[i + 1]
            state.add_traj(ens=i, traj=p, valid=p.weights, count=False)
            state.traj_data[p.path_number] = {
                "ens_save_idx": i + 1, "max_op": p.ordermax, "min_op": p.ordermin, "length": p.length,
                "adress": p.adress, "weights": p.weights, "frac": np.zeros(size + 1, dtype="longdouble")}
        p = paths[0]
        state.add_traj(ens=-1, traj=p, valid=p.weights, count=False)
        state.traj_data[p.path_number] = {
            "ens_save_idx": 0, "max_op": p.ordermax, "min_op": p.ordermin, "length": p.length,
            "adress": p.adress, "weights": p.weights, "frac": np.zeros(size + 1, dtype="longdouble")}
    rg = Scripted(script=script, zeroswap=state.zeroswap)
    rg.__dict__["state"] = state
    state.rgen = rg
    return state


# ------------------------------------------------------------------ oracles


def has_matching(W, idle):
    """Brute force: is there a bijection rows -> columns within `idle` along non-zero entries?"""
    idle = list(idle)

    def go(k, used):
        if k == len(idle):
            return True
        r = idle[k]
        for c in idle:
            if c not in used and W[r][c] != 0:
                if go(k + 1, used | {c}):
                    return True
        return False

    return go(0, frozenset())


def block_text(state):
    n = state.n
    nm = _names(n)
    idle = [i for i in range(n - 1) if not state._locks[i]]
    rows = []
    for i in idle:
        rows.append(f"p{_pn(state, i)}:" + " ".join(f"{abs(state.state[i, j]):g}" for j in idle))
    return "idle ensembles " + " ".join(nm[i] for i in idle) + "; rows " + " | ".join(rows)


def check_block(state):
    """Idle block matchable, prob evaluates, finite, unit sums.  Returns list of problems."""
    n = state.n
    out = []
    W = np.abs(state.state)
    locks = state._locks
    if locks[n - 1] != 1:
        out.append("the ghost column is not marked busy")
    idle = [i for i in range(n - 1) if not locks[i]]
    if not idle:
        # every ensemble is held (workers = ensembles - 1 and one zero swap): nothing to draw, nobody draws
        return out
    if not has_matching(W, idle):
        out.append("the idle block of the weight matrix admits no perfect matching (" + block_text(state) + ")")
    try:
        with watch():
            P = np.array(state.prob, dtype="float64")
    except ScriptError:
        raise
    except Hang as e:
        out.append(f"state.prob hangs: {e}")
        return out
    except Exception as e:  # noqa: BLE001
        out.append(f"state.prob raises {type(e).__name__}: {str(e)[:80]} — an idle worker cannot be given a job (" + block_text(state) + ")")
        return out
    if P.shape != (n, n) or not np.all(np.isfinite(P)):
        out.append(f"P is not finite: {P.tolist()}")
        return out
    for i in range(n):
        if i in idle:
            if abs(P[i].sum() - 1) > 1e-8 or abs(P[:, i].sum() - 1) > 1e-8:
                out.append(f"P row/column {i} does not sum to one (row {P[i].sum():.6g}, column {P[:, i].sum():.6g})")
                break
            if (P[i] < 0).any():
                out.append(f"P row {i} has a negative entry")
                break
        elif np.any(P[i] != 0) or np.any(P[:, i] != 0):
            out.append(f"P gives a busy row/column {i} non-zero probability")
            break
    if not out:
        for i in idle:
            for j in idle:
                if P[i, j] > 0 and W[i, j] == 0:
                    out.append(f"P[{i}][{j}] > 0 where the weight is zero")
    return out


def check_jobs(state, jobs):
    """Held ensembles / paths pairwise disjoint, exactly they (and the ghost) busy, each job holds the
    path sitting in its ensemble with non-zero weight."""
    out = []
    n, off = state.n, state._offset
    nm = _names(n)
    held_e, held_p = [], []
    for md in jobs:
        for e, it in md["picked"].items():
            held_e.append(e + off)
            held_p.append(it["traj"].path_number)
            if state._trajs[e + off] is not it["traj"]:
                out.append(f"job holds p{it['traj'].path_number} for {nm[e + off]} but p{_pn(state, e + off)} sits there")
            elif state.state[e + off, e + off] == 0:
                out.append(f"job holds p{it['traj'].path_number} in {nm[e + off]} where its weight is zero")
    if len(set(held_e)) != len(held_e):
        out.append(f"an ensemble is held by two jobs: {[nm[e] for e in held_e]}")
    if len(set(held_p)) != len(held_p):
        out.append(f"a path is held by two jobs: {held_p}")
    busy = sorted(i for i in range(n - 1) if state._locks[i])
    if busy != sorted(set(held_e)):
        out.append(f"busy ensembles {[nm[i] for i in busy]} are not the held ones {[nm[e] for e in sorted(set(held_e))]}")
    live = state.live_paths()
    if len(set(live)) != len(live):
        out.append(f"live paths are not distinct: {live}")
    pins = [md["pin"] for md in jobs]
    if len(set(pins)) != len(pins):
        out.append(f"worker pins are not distinct: {pins}")
    return out


def state_key(state, jobs):
    return (tuple(state.live_paths()), tuple(sorted(tuple(sorted(md["picked"].keys())) for md in jobs)))


# ------------------------------------------------------------------ family 1: start-up


def run_startup(case, script, visited=None, check=True):
    """One start-up under the script.  Returns dict(state, jobs, trace, labels, problems, pruned)."""
    state = make_state(case, script)
    rg = state.rgen
    md0 = {"mc_moves": state.mc_moves, "interfaces": state.interfaces, "cap": state.cap}
    jobs = []
    res = {"state": state, "jobs": jobs, "problems": [], "pruned": False, "picks": 0, "zero_swaps": 0}
    if check:
        res["problems"] += check_block(state)
    while not res["problems"] and state.initiate():
        md = copy.deepcopy(md0)
        try:
            with watch():
                md = state.prep_md_items(md)
        except ScriptError:
            raise
        except Hang as e:
            res["problems"].append(f"worker {state.cworker} cannot be given a job: pick hangs: {e}")
            break
        except Exception as e:  # noqa: BLE001
            res["problems"].append(f"worker {state.cworker} cannot be given a job: pick raises {type(e).__name__}: {str(e)[:80]} (" + block_text(state) + ")")
            break
        jobs.append(md)
        res["picks"] += 1
        if len(md["picked"]) == 2:
            res["zero_swaps"] += 1
        if check:
            res["problems"] += check_jobs(state, jobs)
            res["problems"] += check_block(state)
        if visited is not None and not res["problems"]:
            key = state_key(state, jobs)
            me = tuple(k for k, _ in rg.trace)
            owner = visited.setdefault(key, me)
            if owner != me:
                res["pruned"] = True
                break
    res["trace"] = list(rg.trace)
    res["labels"] = list(rg.labels)
    res["complete"] = not res["problems"] and not res["pruned"] and state.toinitiate == -1
    return res


def next_script(trace):
    trace = list(trace)
    while trace and trace[-1][0] + 1 >= trace[-1][1]:
        trace.pop()
    if not trace:
        return None
    return [k for k, _ in trace[:-1]] + [trace[-1][0] + 1]


def describe(case):
    n_ens = case["n_ens"]
    m = n_ens - 1
    rows = "; ".join(f"[{i}+] p{i + 1} weights " + ",".join(f"{w:g}" for w in weights_row(case["kind"], h, m))
                     for i, h in enumerate(case["reach"]))
    return f"{n_ens} ensembles ([0-] p0; {rows}), {case['workers']} workers"


# ------------------------------------------------------------------ family 2: one step


def outcomes_of(md, m):
    """REJ plus ACC with every reach legal for each ensemble of the job."""
    ens = list(md["picked"].keys())
    opts = []
    for e in ens:
        opts.append([None] if e < 0 else list(range(e + 1, m + 1)))
    return [("REJ", None)] + [("ACC", list(c)) for c in itertools.product(*opts)]


class _SortTap:
    def __init__(self, state):
        self.state = state
        self.records = []
        self.in_sort = False
        self.count = 0
        o_sort, o_swap = state.sort_trajstate, state.swap
        n = state.n

        def swap(a, b):
            if self.in_sort:
                self.count += 1
                if self.count > 10 * n * n + 20:
                    raise Hang("sort_trajstate does not terminate (more than 10 n^2 swaps)")
            return o_swap(a, b)

        def sort_trajstate():
            pre = self.snap()
            self.in_sort, self.count = True, 0
            try:
                o_sort()
            finally:
                self.in_sort = False
            self.records.append((pre, self.snap(), self.count, state.toinitiate))

        state.swap, state.sort_trajstate = swap, sort_trajstate

    def snap(self):
        st = self.state
        W = ";".join(",".join(str(int(abs(x))) for x in row) for row in st.state)
        T = ",".join(str(t.path_number) for t in st._trajs[:-1]) + ",0"
        L = ",".join(str(int(x)) for x in st._locks)
        return W, T, L


_LOAD_CACHE = {}


def restart_loads(case, state, expect_live, expect_jobs):
    """The restart.toml just written: right content, and loads through REPEX_state + load_paths."""
    import tomli
    from infretis.classes.repex import REPEX_state
    out = []
    with open("restart.toml", "rb") as f:
        rconf = tomli.load(f)
    active = rconf["current"]["active"]
    if list(active) != list(expect_live):
        out.append(f"restart.toml 'active' {active} differs from the live paths {expect_live}")
        return out
    locked = sorted((tuple(a), tuple(int(x) for x in b)) for a, b in rconf["current"].get("locked", []))
    if locked != sorted(expect_jobs):
        out.append(f"restart.toml 'locked' {locked} differs from the jobs in flight {sorted(expect_jobs)}")
    reach = {t.path_number: t.reach for t in state._trajs[:-1]}
    key = (case["n_ens"], tuple(reach[p] for p in active))
    if key not in _LOAD_CACHE:
        rconf["current"]["restarted_from"] = rconf["current"]["cstep"]
        try:
            st2 = REPEX_state(rconf, minus=True)
            st2.traj_data = {}
            st2.ensembles = {}
            st2.initiate_ensembles()
            st2.load_paths([FakePath(pmax_of(reach[p], case["n_ens"]), p, reach[p]) for p in active])
            _LOAD_CACHE[key] = None if st2.live_paths() == list(active) else f"loaded live paths {st2.live_paths()} differ from 'active' {active}"
        except (ScriptError, Hang):
            raise
        except Exception as e:  # noqa: BLE001
            _LOAD_CACHE[key] = f"{type(e).__name__} in load_paths/add_traj (assert valid[ens] != 0)"
    if _LOAD_CACHE[key]:
        out.append(f"the restart.toml written after the step does not load: active = {active} -> {_LOAD_CACHE[key]}")
    return out


def complete(case, state, jobs, completion, judge=True, labels=None):
    """One job finishes through loop()/treat_output() like in scheduler().  `jobs`: list of md_items
    (None = already completed), modified in place.  Returns the problems of the state afterwards."""
    n, off = state.n, state._offset
    nm = _names(n)
    jidx, status, reaches = completion
    md = jobs[jidx]
    jobs[jidx] = None
    picked = md["picked"]
    md["status"] = status
    olds = [picked[e]["traj"].path_number for e in picked]
    if labels is not None:
        held = ", ".join(f"p{picked[e]['traj'].path_number} in {nm[e + off]}" for e in picked)
        txt = f"job of worker {md['pin']} ({held}) "
        if status == "ACC":
            txt += "accepted, new path(s) reach " + ",".join("[0-]" if h is None else f"[{h - 1}+]" for h in reaches)
        else:
            txt += "rejected"
        labels.append(txt)
    if status == "ACC":
        for e, h in zip(list(picked.keys()), reaches):
            picked[e]["traj"] = new_path(case, h, None)
    tn0 = state.config["current"]["traj_num"]
    live0 = set(state.live_paths())
    try:
        if not state.loop():
            raise ScriptError("state.loop() returned False")
        with watch():
            state.treat_output(md)
    except ScriptError:
        raise
    except Hang as e:
        return [f"treat_output: {e}"]
    except Exception as e:  # noqa: BLE001
        return [f"treat_output raises {type(e).__name__}: {str(e)[:80]}"]
    if not judge:
        return []
    problems = []
    rest = [j for j in jobs if j is not None]
    problems += check_jobs(state, rest)
    for i in range(n - 1):
        if not state._locks[i] and state.state[i, i] == 0:
            problems.append(f"after the completed step idle path p{_pn(state, i)} sits in {nm[i]} where its weight is zero "
                            f"(weights {' '.join(f'{abs(w):g}' for w in state.state[i, :-1])})")
    tn1 = state.config["current"]["traj_num"]
    nacc = len(picked) if status == "ACC" else 0
    if tn1 != tn0 + nacc:
        problems.append(f"next path number went from {tn0} to {tn1} with {nacc} new paths")
    for e in picked:
        pn = picked[e]["traj"].path_number
        if status == "ACC":
            if pn is None or pn < tn0 or pn in live0:
                problems.append(f"new path got number {pn}: not fresh (next number was {tn0}, live {sorted(live0)})")
        elif pn not in olds:
            problems.append(f"rejected move: path number changed to {pn}")
    if any(p is None or p >= tn1 for p in state.live_paths()):
        problems.append(f"live path numbers {state.live_paths()} not below the next number {tn1}")
    problems += check_block(state)
    if all("no perfect matching" not in p and "raises" not in p for p in problems):
        exp_jobs = [(tuple(e + off for e in j["picked"]), tuple(j["picked"][e]["pn_old"] for e in j["picked"])) for j in rest]
        problems += restart_loads(case, state, state.live_paths(), exp_jobs)
    return problems


def run_step(case, script, completions):
    """From scratch: start-up under the script (unchecked replay), then the completions
    [(job index, status, reaches)...]; the state after the LAST completion is judged."""
    res = run_startup(case, script, visited=None, check=False)
    if res["problems"] or res["state"].toinitiate != -1:
        raise ScriptError(f"replay of the start-up failed: {res['problems']}")
    state, jobs = res["state"], list(res["jobs"])
    tap = _SortTap(state)
    open("d.txt", "w").close()
    labels = list(res["labels"])
    problems = []
    for ci, comp in enumerate(completions):
        problems = complete(case, state, jobs, tuple(comp), judge=(ci == len(completions) - 1), labels=labels)
        if problems:
            break
    return {"problems": problems, "labels": labels, "sorts": tap.records, "state": state,
            "rest": [j for j in jobs if j is not None]}


# ------------------------------------------------------------------ exploration of one case
#
# The DFS does not rebuild the state for every alternative: the mutable fields of the REPEX_state object
# are saved before a pick / a completion and put back for the next alternative.  Every reported failure
# is re-run from scratch (run_startup / run_step with the full script) and only reported if it
# reproduces there; every SAMPLE-th leaf is re-run from scratch as well and must give the same state.


def _cp(v, depth=3):
    if isinstance(v, np.ndarray):
        return v.copy()
    if depth == 0:
        return v
    if isinstance(v, list):
        return [_cp(x, depth - 1) for x in v]
    if isinstance(v, dict):
        return {k: _cp(x, depth - 1) for k, x in v.items()}
    if isinstance(v, tuple):
        return tuple(_cp(x, depth - 1) for x in v)
    return v


def save(state):
    return _cp(dict(state.__dict__))


def restore(state, snap):
    d = _cp(snap)
    state.__dict__.clear()
    state.__dict__.update(d)


def _copy_job(md):
    md2 = dict(md)
    md2["picked"] = {e: dict(it) for e, it in md["picked"].items()}
    for k in ("moves", "trial_len", "trial_op", "generated", "pnum_old", "ens_nums"):
        if k in md2:
            md2[k] = list(md2[k])
    return md2


SAMPLE = 50


def _fingerprint(state, jobs):
    return (state_key(state, jobs), np.abs(state.state).tolist(), [int(x) for x in state._locks],
            [(list(a), list(b)) for a, b in state.locked], state.config["current"]["traj_num"], state.toinitiate)


class Explorer:
    def __init__(self, case):
        self.case = case
        self.m = case["n_ens"] - 1
        self.visited = set()
        self.out = {"runs": 0, "picks": 0, "zero_swaps": 0, "states": 0, "leaves": 0, "max_decisions": 0,
                    "steps": 0, "step_swaps": 0, "step_nontrivial": 0, "restart_loads": 0, "scratch_checks": 0,
                    "failures": [], "sorts": {}}
        self.state = make_state(case, [])
        self.rg = self.state.rgen
        self.md0 = {"mc_moves": self.state.mc_moves, "interfaces": self.state.interfaces, "cap": self.state.cap}
        self.tap = _SortTap(self.state) if case.get("steps", 0) else None
        if self.tap:
            open("d.txt", "w").close()

    def stop(self):
        return len(self.out["failures"]) >= 3

    def fail(self, family, script, completions):
        """Confirm from scratch, then record."""
        case = self.case
        if completions:
            r = run_step(case, script, completions)
        else:
            r = run_startup(case, script, None)
        if not r["problems"]:
            raise ScriptError(f"a failure seen in the exploration does not reproduce from scratch: {case} {script} {completions}")
        self.out["failures"].append({"family": family, "case": case, "script": list(script), "completions": [list(c) for c in completions],
                                     "decisions": r["labels"], "problems": r["problems"][:4]})

    def run(self):
        problems = check_block(self.state)
        if problems:
            self.fail("startup", [], [])
            return self.finish()
        self.rec([], [])
        return self.finish()

    def finish(self):
        self.out["states"] = len(self.visited)
        self.out["restart_loads"] = len(_LOAD_CACHE)
        return self.out

    def rec(self, jobs, decisions):
        state, rg, out = self.state, self.rg, self.out
        if self.stop():
            return
        if not state.initiate():
            if state.toinitiate != -1:
                raise ScriptError("initiate() returned False before all workers were started")
            out["leaves"] += 1
            out["max_decisions"] = max(out["max_decisions"], len(decisions))
            if out["leaves"] % SAMPLE == 1:
                r = run_startup(self.case, decisions, None)
                out["scratch_checks"] += 1
                if r["problems"] or _fingerprint(r["state"], r["jobs"]) != _fingerprint(state, jobs):
                    raise ScriptError(f"exploration by save/restore and the run from scratch differ: {self.case} {decisions}")
            if self.case.get("steps", 0) >= 1:
                self.steps(jobs, decisions)
            return
        snap = save(state)
        script = []
        while script is not None and not self.stop():
            restore(state, snap)
            rg.__dict__["script"] = list(script)
            rg.__dict__["trace"] = []
            rg.__dict__["labels"] = []
            out["runs"] += 1
            md = copy.deepcopy(self.md0)
            try:
                with watch():
                    md = state.prep_md_items(md)
                bad = False
            except ScriptError:
                raise
            except (Hang, Exception):  # noqa: BLE001
                bad = True
            trace = list(rg.trace)
            full = list(decisions) + [k for k, _ in trace]
            if not bad:
                out["picks"] += 1
                if len(md["picked"]) == 2:
                    out["zero_swaps"] += 1
                jobs2 = jobs + [md]
                bad = bool(check_jobs(state, jobs2) or check_block(state))
            if bad:
                self.fail("startup", full, [])
            else:
                key = state_key(state, jobs2)
                if key not in self.visited:
                    self.visited.add(key)
                    self.rec(jobs2, full)
            script = next_script(trace)

    # ---- family 2
    def steps(self, jobs, decisions):
        state = self.state
        leaf = save(state)
        outs = [outcomes_of(md, self.m) for md in jobs]
        two = self.case.get("steps", 0) >= 2 and len(jobs) == 2
        for j in range(len(jobs)):
            for (st, rc) in outs[j]:
                restore(state, leaf)
                comp1 = [(j, st, rc)]
                ok = self.one(jobs, decisions, comp1, [])
                if ok and two:
                    mid = save(state)
                    j2 = 1 - j
                    for (st2, rc2) in outs[j2]:
                        restore(state, mid)
                        self.one(jobs, decisions, comp1 + [(j2, st2, rc2)], comp1)
                if self.stop():
                    restore(state, leaf)
                    return
        restore(state, leaf)

    def one(self, jobs, decisions, completions, done):
        """The last completion of `completions` on the current state (the ones in `done` already happened)."""
        state, out = self.state, self.out
        out["steps"] += 1
        jl = [None if any(c[0] == i for c in done) else _copy_job(md) for i, md in enumerate(jobs)]
        self.tap.records = []
        problems = complete(self.case, state, jl, completions[-1], judge=True)
        for pre, post, cnt, toinit in self.tap.records[-1:]:
            out["step_swaps"] += cnt
            if cnt:
                out["step_nontrivial"] += 1
            if toinit == -1:
                req = f"sort {pre[0]} {pre[1]} {pre[2]}"
                out["sorts"].setdefault(req, f"OK {post[0]} {post[1]} {cnt}")
        if out["steps"] % (4 * SAMPLE) == 1 and not problems:
            r = run_step(self.case, decisions, completions)
            out["scratch_checks"] += 1
            rest = [x for x in jl if x is not None]
            if r["problems"] or _fingerprint(r["state"], r["rest"]) != _fingerprint(state, rest):
                raise ScriptError(f"step by save/restore and the run from scratch differ: {self.case} {decisions} {completions}")
        if problems:
            self.fail("step", decisions, completions)
            return False
        return True


def explore(case):
    """case: n_ens, workers, kind, reach, steps (0: picks only, 1: one completion, 2: both jobs drain).
    Returns a picklable summary."""
    import time
    t0 = time.time()
    out = Explorer(case).run()
    out["secs"] = round(time.time() - t0, 3)
    return out


# ------------------------------------------------------------------ case generation / fan-out


def patterns(m):
    """All reach vectors of a loadable initial set: the path of [i+] reaches at least [i+]."""
    return [list(r) for r in itertools.product(*[range(i + 1, m + 1) for i in range(m)])]


def gen_cases(tier, rng):
    """Quick: 3..5 ensembles complete (all loadable reach vectors; 0/1 weights and the integer-weight
    kinds, 5 ensembles without the kind "mix"; 4 workers on 5 ensembles and the two-worker steps on 5
    ensembles with 0/1 weights only), 6 ensembles with 0/1 weights (one-worker steps complete; start-up
    with 2..5 workers on a seeded sample of 60/6/3/1 of the 120 reach vectors).
    Thorough: 6 ensembles complete for 0/1 weights, more kinds, both jobs drain on 5 ensembles."""
    cases = []
    thorough = tier != "quick"

    def add(n_ens, workers, kind, reach, steps):
        cases.append({"n_ens": n_ens, "workers": workers, "kind": kind, "reach": list(reach), "steps": steps})

    for n_ens in (3, 4, 5):
        m = n_ens - 1
        for kind in KINDS:
            if n_ens == 5 and kind == "mix" and not thorough:
                continue
            for reach in patterns(m):
                for workers in range(2, n_ens):
                    if n_ens == 5 and workers == 4 and kind != "01" and not thorough:
                        continue
                    add(n_ens, workers, kind, reach, 0)
                add(n_ens, 1, kind, reach, 1)
                if n_ens <= 4:
                    if kind in ("01", "dec") or thorough:
                        add(n_ens, 2, kind, reach, 2)
                elif kind == "01" or (thorough and kind == "dec"):
                    add(n_ens, 2, kind, reach, 2 if (thorough and kind == "01") else 1)
    n_ens, m = 6, 5
    pats = patterns(m)
    for reach in pats:
        add(n_ens, 1, "01", reach, 1)
    for workers, k in ((2, 60), (3, 6), (4, 3), (5, 1)):
        sel = pats if thorough else rng.sample(pats, k)
        for reach in sel:
            add(n_ens, workers, "01", reach, 0)
    if thorough:
        for reach in pats:
            add(n_ens, 2, "dec", reach, 0)
            add(n_ens, 1, "dec", reach, 1)
    return cases


# measured seconds per case (loaded machine), by (ensembles, workers, steps); only used to balance the chunks
_COST = {(4, 2, 2): 3.2, (5, 1, 1): 0.5, (5, 2, 1): 3.2, (5, 2, 2): 15, (6, 1, 1): 0.9, (6, 2, 0): 1.15, (6, 3, 0): 11,
         (6, 4, 0): 18, (6, 5, 0): 16, (5, 3, 0): 1.4, (5, 4, 0): 1.8, (5, 2, 0): 0.5, (3, 2, 2): 0.6}


def cost(case):
    c = _COST.get((case["n_ens"], case["workers"], case["steps"]), 0.3)
    dens = sum(case["reach"]) / float((case["n_ens"] - 1) ** 2)
    return c * (0.3 + dens ** 2)


def run_chunk(arg):
    """Child: explore a list of cases inside a private scratch directory."""
    base, cases, limit = arg
    wd = tempfile.mkdtemp(prefix="c05e_", dir=base)
    cwd = os.getcwd()
    os.chdir(wd)
    outs = []
    try:
        import logging
        logging.getLogger("main").setLevel(logging.CRITICAL)
        for case in cases:
            outs.append(explore(case))
            for d in os.listdir("."):
                if d.startswith("worker"):
                    shutil.rmtree(d, ignore_errors=True)
    finally:
        os.chdir(cwd)
        shutil.rmtree(wd, ignore_errors=True)
    return outs


def scratch_base():
    base = os.environ.get("VERIF_SCRATCH")
    if not base:
        base = "/dev/shm" if os.path.isdir("/dev/shm") and os.access("/dev/shm", os.W_OK) else tempfile.gettempdir()
    return tempfile.mkdtemp(prefix="c05enum_", dir=base)


def run_all(tier, rng, jobs=12):
    """Returns (cases, results) with results[i] the summary of cases[i] (or ('err', text))."""
    import sysharness as H
    import infretis.classes.repex  # noqa: F401  (imported once, inherited by the forked children)
    import tomli  # noqa: F401
    cases = gen_cases(tier, rng)
    order = sorted(range(len(cases)), key=lambda i: -cost(cases[i]))
    nchunk = max(1, min(len(cases), jobs * 3))
    chunks = [[] for _ in range(nchunk)]
    for pos, i in enumerate(order):
        r, q = divmod(pos, nchunk)
        chunks[q if r % 2 == 0 else nchunk - 1 - q].append(i)
    base = scratch_base()
    try:
        res = H.run_many(run_chunk, [(base, [cases[i] for i in ch], 900) for ch in chunks], jobs=jobs, timeout=1800)
    finally:
        shutil.rmtree(base, ignore_errors=True)
    results = [None] * len(cases)
    for ch, (tag, r) in zip(chunks, res):
        for k, i in enumerate(ch):
            results[i] = r[k] if tag == "ok" else ("err", r)
    return cases, results


def replay_failure(f):
    """Re-run one reported failing input; prints the decisions and the problems; returns 1 if it still fails."""
    base = scratch_base()
    cwd = os.getcwd()
    os.chdir(base)
    try:
        case = f["case"]
        print(describe(case))
        comps = [tuple(c) for c in f.get("completions") or []]
        try:
            if comps:
                r = run_step(case, f["script"], comps)
            else:
                r = run_startup(case, f["script"], None)
        except Hang as e:
            print("HANG", e)
            return 1
        for line in r["labels"]:
            print("  decision:", line)
        for p in r["problems"]:
            print("  PROBLEM:", p)
        return 1 if r["problems"] else 0
    finally:
        os.chdir(cwd)
        shutil.rmtree(base, ignore_errors=True)
