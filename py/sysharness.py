"""System harness: run the REAL infretis program (setup_config -> setup_internal -> scheduler)
under a controlled, deterministic schedule (DESIGN.md section 3).

* `write_setup` builds a work directory (infretis.toml + initial paths stored with the real
  PathStorage) for the lattice plug-in engine.
* `run_sim` runs the real `scheduler()` with `infretis.scheduler.setup_runner` replaced by an
  in-process runner: the real `run_md` is executed eagerly on a pickled copy of `md_items`
  (the process boundary) and futures are *completed* in the order a schedule dictates, so every
  interleaving of job completions can be enumerated, stopped at any point and restarted.
* Observers record the observable REPEX state after every operation (trace validation).
* `run_many` fans cases out over forked children (one fresh fork per case, so class-level
  state of infretis never leaks between runs).
"""
from __future__ import annotations

import importlib.util  # noqa: F401
import io
import multiprocessing as mp
import os
import pickle
import shutil
import sys
import tempfile
import traceback

PLUGINS = os.path.join(os.path.dirname(os.path.abspath(__file__)), "plugins", "engines.py")


_RUN_NO = 0


class StopRun(Exception):
    """Raised by the schedule to stop the main process between two completions."""


# --------------------------------------------------------------------------- set-up


def lattice_interfaces(n):
    return [k + 0.5 for k in range(n)]


def initial_orders(i, top=None):
    """Initial path for ensemble index i (0 = [0-], i>=1 = [(i-1)+]); `top` >= i: how far it reaches
    (default i: just over its own interface, which makes the initial weight matrix triangular and
    the initial swap matrix the identity)."""
    if i == 0:
        return [1, 0, -1, 0, 1]
    top = max(i, top or i)
    return list(range(0, top + 1)) + list(range(top - 1, -1, -1))


def write_setup(wd, n_intf=3, moves=None, workers=1, steps=10, seed=0, cap=None, maxlength=400,
                allowmaxlength=False, n_jumps=2, delete_old=False, delete_old_all=False,
                lambda_minus_one=None, wall=-4, screen=0, quantis=False, extra_engine=None,
                ensemble_engines=None, keep_traj_fnames=None, zeroswap=None, init_reach=None, n_order=1):
    import tomli_w
    from infretis.classes.formatter import PathStorage
    from infretis.classes.path import Path
    from infretis.classes.system import System

    os.makedirs(wd, exist_ok=True)
    intf = lattice_interfaces(n_intf)
    moves = list(moves or ["sh"] * n_intf)
    tis_set = {"maxlength": maxlength, "allowmaxlength": allowmaxlength, "zero_momentum": False,
               "n_jumps": n_jumps}
    if cap is not None:
        tis_set["interface_cap"] = cap
    if lambda_minus_one is not None:
        tis_set["lambda_minus_one"] = lambda_minus_one
    if quantis:
        tis_set["quantis"] = True
    config = {
        "runner": {"workers": workers},
        "simulation": {"interfaces": intf, "steps": steps, "seed": seed, "load_dir": "load",
                       "shooting_moves": moves, "tis_set": tis_set},
        "engine": {"class": "LatticeEngine", "module": PLUGINS, "wall": wall, **({"n_order": n_order} if n_order != 1 else {})},
        "orderparameter": {"class": "IntOrder", "module": PLUGINS},
        "output": {"data_dir": "./", "screen": screen, "pattern": False, "delete_old": delete_old,
                   "delete_old_all": delete_old_all},
    }
    if keep_traj_fnames:
        config["output"]["keep_traj_fnames"] = keep_traj_fnames
    if extra_engine:
        config.update(extra_engine)
    if ensemble_engines:
        config["simulation"]["ensemble_engines"] = ensemble_engines
    with open(os.path.join(wd, "infretis.toml"), "wb") as f:
        tomli_w.dump(config, f)
    # initial paths, stored by the real PathStorage
    load = os.path.join(wd, "load")
    os.makedirs(load, exist_ok=True)
    src = os.path.join(wd, "_init_src")
    os.makedirs(src, exist_ok=True)
    store = PathStorage()
    for i in range(n_intf):
        orders = initial_orders(i, (init_reach or {}).get(i) if isinstance(init_reach, dict) else (init_reach[i] if init_reach else None))
        fn = os.path.join(src, f"init{i}.lat")
        with open(fn, "w") as f:
            for o in orders:
                f.write(f"{o}\n")
        p = Path(maxlen=maxlength)
        for k, o in enumerate(orders):
            s = System()
            s.order = [float(o)] + [float((o * (k + 2)) % 5) + 0.25 * k for k in range(n_order - 1)]
            s.config = (fn, k)
            s.vel_rev = False
            s.vpot = 0.0
            s.ekin = 0.0
            p.phasepoints.append(s)
        p.path_number = i
        p.status = "ACC"
        store.output(0, {"path": p, "dir": load})
    shutil.rmtree(src, ignore_errors=True)
    return config


# --------------------------------------------------------------------------- runner


class _Fut:
    def __init__(self, res, exc=None, ordinal=0):
        self._res, self._exc, self.ordinal = res, exc, ordinal

    def result(self):
        if self._exc is not None:
            raise self._exc
        return self._res

    # the rest of the concurrent.futures / asyncio Future interface a caller may legitimately use
    def exception(self):
        return self._exc

    def done(self):
        return True

    def cancelled(self):
        return False


class InjectedFailure(RuntimeError):
    """an exception raised inside an MD job on purpose (run_sim(fail_jobs=...))"""


class InProcRunner:
    """Stands for aiorunner: executes run_md eagerly on a pickled copy (process boundary)."""

    def __init__(self, recorder=None, fail_jobs=()):
        self.n = 0
        self.recorder = recorder
        self.fail_jobs = set(fail_jobs or ())     # ordinals (within this run) of jobs that raise instead of running
        self._handed = []          # every unit object handed in (kept alive: identities stay unique)
        self.aliased = []          # ordinals of units that were the same object as an earlier unit

    def submit_work(self, md_items):
        from infretis.core.tis import run_md
        # the real runner keeps a REFERENCE to the unit in its queue until a worker takes it: handing in the
        # same (later modified) object twice makes the queued units alias each other
        if any(md_items is x for x in self._handed):
            self.aliased.append(self.n)
        self._handed.append(md_items)
        blob = pickle.dumps(md_items)
        md = pickle.loads(blob)
        if self.recorder is not None:
            self.recorder.on_submit(self.n, md)
        try:
            if self.n in self.fail_jobs:
                raise InjectedFailure(f"injected failure inside MD job {self.n}")
            out = run_md(md)
            out = pickle.loads(pickle.dumps(out))
            fut = _Fut(out, None, self.n)
        except Exception as e:  # delivered at completion, as the real runner does
            fut = _Fut(None, e, self.n)
        self.n += 1
        return fut

    def stop(self):
        pass


class SchedFutures:
    """future_list replacement: completion order chosen by `schedule`.

    schedule: list of ints (index into the pending list, taken modulo its length; exhausted ->
    FIFO), or a callable(pending_ordinals, n_completed) -> index.  stop_after: raise StopRun when
    that many futures have been handed out."""

    def __init__(self, schedule=None, stop_after=None, recorder=None):
        self.pending = []
        self.schedule = schedule
        self.k = 0
        self.stop_after = stop_after
        self.recorder = recorder
        self.order = []

    def add(self, fut):
        self.pending.append(fut)

    def as_completed(self):
        if self.stop_after is not None and self.k >= self.stop_after:
            raise StopRun()
        if not self.pending:
            return None
        if callable(self.schedule):
            idx = self.schedule([f.ordinal for f in self.pending], self.k)
        elif self.schedule is not None and self.k < len(self.schedule):
            idx = self.schedule[self.k] % len(self.pending)
        else:
            idx = 0
        self.k += 1
        fut = self.pending.pop(idx)
        self.order.append(fut.ordinal)
        if self.recorder is not None:
            self.recorder.on_complete(fut.ordinal)
        return fut


def reset_class_state():
    """infretis keeps some state at class/module level; a fresh process has it empty."""
    from infretis.classes import repex
    from infretis.classes.engines import enginebase
    from infretis.core import tis
    repex.REPEX_state.traj_data = {}
    repex.REPEX_state.ensembles = {}
    repex.REPEX_state.engine_occ = {}
    repex.REPEX_state.config = {}
    tis.ENGINES = {}
    if hasattr(enginebase.counter, "count"):
        del enginebase.counter.count
    import logging
    lg = logging.getLogger("main")
    for h in list(lg.handlers):
        lg.removeHandler(h)
        try:
            h.close()
        except Exception:
            pass


def run_sim(wd, inp="infretis.toml", schedule=None, stop_after=None, recorder=None, steps=None,
            mutate_config=None, workers=None, fail_jobs=None):
    """Run the real program in `wd`.  Returns dict(status=..., completed=[ordinals], ...)."""
    import infretis.scheduler as sched
    from infretis.setup import setup_config

    old = os.getcwd()
    os.chdir(wd)
    # every run of the program is a new process: emulate a different pid per call (engine file
    # names contain os.getpid(), so a step redone after a restart writes files with new names)
    global _RUN_NO
    _RUN_NO += 1
    real_getpid = os.getpid
    base_pid = real_getpid()
    run_no = _RUN_NO
    os.getpid = lambda: base_pid + 100000 * run_no
    try:
        reset_class_state()
        if steps is not None or workers is not None:
            import tomli
            import tomli_w
            with open(inp, "rb") as f:
                c = tomli.load(f)
            if steps is not None:
                c["simulation"]["steps"] = steps
            if workers is not None:
                c["runner"]["workers"] = workers      # the user edits the file before continuing
            with open(inp, "wb") as f:
                tomli_w.dump(c, f)
        config = setup_config(inp)
        if config is None:
            return {"status": "none"}
        if mutate_config:
            mutate_config(config)
        futs = SchedFutures(schedule, stop_after, recorder)
        runner = InProcRunner(recorder, fail_jobs)
        holder = {}

        def fake_setup_runner(state):
            holder["state"] = state
            if recorder is not None:
                recorder.attach(state)
            return runner, futs

        orig = sched.setup_runner
        sched.setup_runner = fake_setup_runner
        try:
            try:
                sched.scheduler(config)
                status = "done"
            except StopRun:
                status = "stopped"
            except InjectedFailure:
                status = "failed"                     # the program died of the job's exception, as it should
        finally:
            sched.setup_runner = orig
        st = holder.get("state")
        return {"status": status, "completed": list(futs.order), "submitted": runner.n, "aliased_units": list(runner.aliased),
                "in_flight": [f.ordinal for f in futs.pending],
                "cstep": st.cstep if st is not None else None, "state": st}
    finally:
        os.getpid = real_getpid
        os.chdir(old)


# --------------------------------------------------------------------------- observers


class Recorder:
    """Records the observable REPEX state after every prep_md_items / treat_output."""

    def __init__(self, with_frac=True):
        self.events = []
        self.state = None
        self.with_frac = with_frac
        self.submits = {}

    def attach(self, state):
        self.state = state
        rec = self
        orig_prep = state.prep_md_items
        orig_treat = state.treat_output

        def prep(md_items):
            out = orig_prep(md_items)
            rec.events.append(("prep", rec.job_view(out), rec.snapshot()))
            return out

        def treat(md_items):
            view = rec.result_view(md_items)
            out = orig_treat(md_items)
            rec.events.append(("treat", view, rec.snapshot()))
            return out

        state.prep_md_items = prep
        state.treat_output = treat
        self.events.append(("init", None, self.snapshot()))

    def on_submit(self, ordinal, md):
        pass

    def on_complete(self, ordinal):
        pass

    @staticmethod
    def job_view(md):
        picked = md["picked"]
        return {
            "ens": list(picked.keys()),
            "paths": [picked[e]["traj"].path_number for e in picked],
            "pin": md.get("pin"),
            "w_folder": os.path.basename(md.get("w_folder", "")),
            "eng_idx": {str(e): dict(picked[e]["eng_idx"]) for e in picked},
        }

    @staticmethod
    def result_view(md):
        picked = md["picked"]
        return {
            "ens": list(picked.keys()),
            "status": md["status"],
            "pn_old": [picked[e]["pn_old"] for e in picked],
            "pin": md.get("pin"),
            "weights": [list(map(float, picked[e]["traj"].weights)) if picked[e]["traj"].weights is not None else None
                        for e in picked],
            "lens": [picked[e]["traj"].length for e in picked],
        }

    def snapshot(self):
        st = self.state
        snap = {
            "locks": [int(x) for x in st._locks],
            "locked": [(list(map(int, a)), list(map(str, b))) for a, b in st.locked],
            "live": [t.path_number if t != "" else None for t in st._trajs[:-1]],
            "W": [[float(x) for x in row] for row in st.state],
            "cstep": st.cstep,
            "traj_num": st.config["current"]["traj_num"],
            "toinitiate": st.toinitiate,
            "engine_occ": {k: list(v) for k, v in st.engine_occ.items()},
            "cworker": st.cworker,
        }
        if self.with_frac:
            snap["frac"] = {int(k): [str(x) for x in v["frac"]] for k, v in st.traj_data.items()}
            snap["P"] = None if st._last_prob is None else [[float(x) for x in row] for row in st._last_prob]
        return snap


# --------------------------------------------------------------------------- fan-out


def _child(fn, arg, conn):
    try:
        # own process group: whatever the case starts (pool workers, engine programs) can be removed with it
        try:
            os.setsid()
        except OSError:
            pass
        devnull = open(os.devnull, "w")
        sys.stdout = devnull
        res = fn(arg)
        conn.send(("ok", res))
    except BaseException as e:  # noqa: BLE001
        conn.send(("err", f"{e!r}\n{traceback.format_exc()[-3000:]}"))
    finally:
        conn.close()
        os._exit(0)


def run_many(fn, args, jobs=14, timeout=600):
    """Run fn(arg) for each arg, each in a fresh forked child; returns list of (tag, result)."""
    ctx = mp.get_context("fork")
    results = [None] * len(args)
    active = {}
    nxt = 0
    import time
    import signal

    def reap(p):
        """remove what the case left behind (the child is the leader of its own process group)"""
        try:
            os.killpg(p.pid, signal.SIGKILL)
        except (ProcessLookupError, PermissionError, OSError):
            pass

    while nxt < len(args) or active:
        while nxt < len(args) and len(active) < jobs:
            pc, cc = ctx.Pipe(duplex=False)
            p = ctx.Process(target=_child, args=(fn, args[nxt], cc))
            p.start()
            cc.close()
            active[nxt] = (p, pc, time.time())
            nxt += 1
        done = []
        for i, (p, pc, t0) in active.items():
            if pc.poll(0.002):
                try:
                    results[i] = pc.recv()
                except EOFError:
                    results[i] = ("err", "child died without result")
                p.join()
                reap(p)
                done.append(i)
            elif not p.is_alive():
                if pc.poll(0.05):
                    try:
                        results[i] = pc.recv()
                    except EOFError:
                        results[i] = ("err", "child died without result")
                else:
                    results[i] = ("err", f"child exited rc={p.exitcode} without result")
                p.join()
                reap(p)
                done.append(i)
            elif time.time() - t0 > timeout:
                reap(p)
                p.kill()
                p.join()
                results[i] = ("err", "timeout (possible hang)")
                done.append(i)
        for i in done:
            del active[i]
    return results


def scratch(prefix="infv_"):
    base = os.environ.get("VERIF_SCRATCH") or tempfile.gettempdir()
    return tempfile.mkdtemp(prefix=prefix, dir=base)
