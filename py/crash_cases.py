"""Crash experiments on the real program (used by checks C08 and C14)."""
from __future__ import annotations

import os
import shutil

import crash_harness as CH
import sysharness as H


HAIR_INIT_SHIFT = 1e-6      # smallest offset order.txt can hold


def hair_interfaces(n, eps=1.0):
    """interfaces of the 'orders a hair off an interface' family: the integers 1..n when the offset is
    positive (the initial path of [i+] peaks at position i + 1: a hair ABOVE its interface), 0..n-1 when it is
    negative (every position x is a hair BELOW the interface x)"""
    return [float(k + 1) if eps > 0 else float(k) for k in range(n)]


def write_setup(wd, setup):
    """H.write_setup, plus the family 'orders a hair off an interface' (key `hair` = offset eps, |eps| < 5e-7).

    The lattice plug-in then reports the progress coordinate x + eps for the integer position x and the
    interfaces are the INTEGERS 1..n (sysharness: k + 0.5), so every frame sits a hair off an interface in
    memory and EXACTLY on it in order.txt (six decimals).  The initial paths written by sysharness are kept
    (frames, traj.txt); their order.txt gets the offset +-1e-6 instead of eps (the smallest one the file can
    hold), so that they are valid paths of their ensembles under any reading of the comparisons: what is
    tested is what the program itself stores, not the hand-made initial files."""
    kw = dict(setup)
    eps = kw.pop("hair", None)
    intf_shift = kw.pop("hair_intf_shift", 0.0)     # interfaces with MORE than six decimals: integer + shift
    if eps is None:
        return H.write_setup(wd, **kw)
    import tomli
    import tomli_w
    if not 0 < abs(eps) < 5e-7:
        raise ValueError("hair: the offset must vanish at six decimals")
    H.write_setup(wd, **kw)
    n = kw.get("n_intf", 3)
    tp = os.path.join(wd, "infretis.toml")
    with open(tp, "rb") as f:
        config = tomli.load(f)
    if config["simulation"]["interfaces"] != H.lattice_interfaces(n):
        raise ValueError("hair: unexpected interfaces in the set-up written by sysharness")
    config["simulation"]["interfaces"] = [v + intf_shift for v in hair_interfaces(n, eps)]
    config["engine"]["order_eps"] = float(eps)
    config["orderparameter"]["order_eps"] = float(eps)
    with open(tp, "wb") as f:
        tomli_w.dump(config, f)
    shift = HAIR_INIT_SHIFT if eps > 0 else -HAIR_INIT_SHIFT
    for i in range(n):
        op = os.path.join(wd, "load", str(i), "order.txt")
        lines = []
        with open(op) as f:
            for line in f:
                tok = line.split()
                if line.startswith("#") or not tok:
                    lines.append(line)
                    continue
                vals = [float(tok[1]) + shift] + [float(t) for t in tok[2:]]
                lines.append(f"{int(tok[0]):>10d} " + " ".join(f"{v:>12.6f}" for v in vals) + "\n")
        with open(op, "w") as f:
            f.writelines(lines)
    return config


def on_interface(wd):
    """[(slot, path, move)]: live paths of restart.toml whose STORED maximum order equals the interface of their slot"""
    import tomli
    with open(os.path.join(wd, "restart.toml"), "rb") as f:
        cfg = tomli.load(f)
    intf, moves = cfg["simulation"]["interfaces"], cfg["simulation"]["shooting_moves"]
    out = []
    for slot, pn in enumerate(cfg["current"]["active"]):
        if slot == 0:
            continue
        vals = []
        with open(os.path.join(wd, cfg["simulation"]["load_dir"], str(pn), "order.txt")) as f:
            for line in f:
                if not line.startswith("#") and line.strip():
                    vals.append(float(line.split()[1]))
        if vals and max(vals) == intf[slot - 1]:
            out.append((slot, int(pn), moves[slot]))
    return out


def below_interface(wd):
    """[(slot, path, interface - stored maximum)]: live paths of restart.toml in plain-shooting slots whose STORED
    maximum order is below the interface of their slot (calc_cv_vector gives them weight 0 there)"""
    import tomli
    with open(os.path.join(wd, "restart.toml"), "rb") as f:
        cfg = tomli.load(f)
    intf, moves = cfg["simulation"]["interfaces"], cfg["simulation"]["shooting_moves"]
    out = []
    for slot, pn in enumerate(cfg["current"]["active"]):
        if slot == 0 or moves[slot] != "sh":
            continue
        vals = []
        with open(os.path.join(wd, cfg["simulation"]["load_dir"], str(pn), "order.txt")) as f:
            for line in f:
                if not line.startswith("#") and line.strip():
                    vals.append(float(line.split()[1]))
        if vals and max(vals) < intf[slot - 1]:
            out.append((slot, int(pn), intf[slot - 1] - max(vals)))
    return out


def err_site(e):
    """exception + the statement that raised it (an AssertionError has no text of its own)"""
    import traceback
    try:
        fr = traceback.extract_tb(e.__traceback__)[-1]
        return f"{e!r} at {os.path.basename(fr.filename)}:{fr.lineno} in {fr.name}: `{fr.line}`"
    except Exception:  # noqa: BLE001
        return repr(e)


def read_rows(wd, n):
    rows, bad = [], []
    import tomli
    with open(os.path.join(wd, "restart.toml"), "rb") as f:
        p = os.path.join(wd, tomli.load(f)["output"]["data_file"])
    if not os.path.exists(p):
        return rows, bad
    for line in open(p):
        if line.startswith("#") or not line.strip():
            continue
        tok = line.split()
        ok = line.endswith("\n") and len(tok) == 3 + 2 * (n - 1)
        try:
            pn = int(tok[0])
        except Exception:  # noqa: BLE001
            ok, pn = False, None
        (rows if ok else bad).append(pn if ok else line[:60])
    return rows, bad


def run_armed(wd, inj, which, inp, schedule=None, recorder_cls=None):
    class R(H.Recorder):
        def attach(self, state):
            super().attach(state)
            if inj is not None:
                CH.arm_on_treat(state, inj, which)
    if inj is not None:
        inj.install(wd)
    rec = R(with_frac=False)
    run_armed.last_recorder = rec
    try:
        try:
            res = H.run_sim(wd, inp=inp, recorder=rec, schedule=schedule)
            return "ok", res
        except CH.Crash as c:
            return "crash", str(c)
        except Exception as e:  # noqa: BLE001
            import traceback
            return "error", f"{e!r} :: {traceback.format_exc()[-700:]}"
    finally:
        if inj is not None:
            inj.uninstall()


def crash_case(case):
    """case: dict(setup=kwargs for write_setup, which, crash_at, torn, schedule, second=(which, crash_at, torn)|None)
    Returns dict(problems=[...], info=...)."""
    out = {"problems": [], "info": {}}
    wd = H.scratch("infv_crash_")
    try:
        kw = dict(case["setup"])
        write_setup(wd, kw)
        n = kw["n_intf"] + 1
        T = kw["steps"]
        sched = list(case.get("schedule") or [])
        inj = CH.Injector(crash_at=case["crash_at"], torn=case["torn"], buffered=case.get("buffered", False))
        tag, res = run_armed(wd, inj, case["which"], "infretis.toml", schedule=sched)
        first_events = list(getattr(run_armed.last_recorder, "events", [])) if tag == "crash" else None
        out["info"]["effects"] = len(inj.log)
        out["info"]["crashed_effect"] = inj.log[-1] if (tag == "crash" and inj.log) else None
        out["info"]["step"] = getattr(inj, "step_info", None)
        if tag == "error":
            out["problems"].append(("harness", f"run before the crash failed: {res}"))
            return out
        if tag == "ok":
            out["info"]["no_crash"] = True      # crash index beyond the effects of that step
            return out
        rounds = [case.get("second")] if case.get("second") else []
        rounds.append(None)
        for rnd in rounds:
            # ---- what is on disk right after the crash
            ok, active, missing = CH.referenced_files(wd)
            if ok is None:
                inp = "infretis.toml"      # nothing was persisted yet: a restart is a fresh start
            elif ok is False:
                out["problems"].append(("C08", f"restart.toml on disk is unreadable after a crash at {out['info']['crashed_effect']}: {missing}"))
                return out
            else:
                inp = "restart.toml"
                if missing:
                    out["problems"].append(("C14", f"after a crash at {out['info']['crashed_effect']} the live paths recorded in restart.toml "
                                                   f"miss files: {missing}"))
                    out["problems"].append(("C08", f"after a crash at {out['info']['crashed_effect']} a path the restart needs has lost files: {missing}"))
                    return out
            locked_rec = None
            if inp == "restart.toml":
                import tomli
                with open(os.path.join(wd, "restart.toml"), "rb") as f:
                    cur = tomli.load(f)["current"]
                out["info"].setdefault("cstep_after_crash", cur["cstep"])
                if "hair" in kw and "on_interface" not in out["info"]:
                    try:
                        out["info"]["on_interface"] = on_interface(wd)
                    except Exception as e:  # noqa: BLE001
                        out["info"]["on_interface"] = f"unreadable: {e!r}"
                if "hair_intf_shift" in kw and "below_interface" not in out["info"]:
                    try:
                        out["info"]["below_interface"] = below_interface(wd)
                    except Exception as e:  # noqa: BLE001
                        out["info"]["below_interface"] = f"unreadable: {e!r}"
                locked_rec = sorted(repr(([int(e) - 1 for e in a], [int(p) for p in b])) for a, b in cur["locked"])
                if rnd is rounds[0] and first_events is not None:
                    # what the record must list: the jobs that were in flight when it was written, i.e. right after
                    # the previous completed step (old record) or right after this one (new record)
                    flying, snaps = [], []
                    for kind, view, _ in first_events:
                        if kind == "prep":
                            flying.append(([int(e) for e in view["ens"]], [int(p) for p in view["paths"]]))
                        elif kind == "treat":
                            key = ([int(e) for e in view["ens"]], [int(p) for p in view["pn_old"]])
                            if key in flying:
                                flying.remove(key)
                            snaps.append(sorted(map(repr, flying)))
                    treated = [int(e) for e in (out["info"].get("step") or {}).get("ens", [])]
                    after_this = sorted(repr(j) for j in flying if j[0] != treated)
                    allowed = [after_this] + ([snaps[-1]] if snaps else [])
                    if locked_rec not in allowed:
                        out["problems"].append(("C08", f"after a crash at {out['info']['crashed_effect']} restart.toml records the in-flight jobs {locked_rec}, "
                                                       f"but the jobs in flight when it can have been written were {allowed}"))
            # ---- restart
            preps = []

            class PR(H.Recorder):
                def attach(self, state):
                    super().attach(state)
                    inner = state.prep_md_items

                    def prep(md):
                        o = inner(md)
                        preps.append(repr(([int(e) for e in o["picked"]], [int(o["picked"][e]["pn_old"]) for e in o["picked"]])))
                        return o
                    state.prep_md_items = prep
                    if os.path.exists(os.path.join(wd, "restart.toml")):
                        out["info"].setdefault("rows_after_trim", read_rows(wd, n))
                    if rnd is not None:
                        CH.arm_on_treat(state, inj2, rnd[0])
            inj2 = CH.Injector(crash_at=rnd[1], torn=rnd[2], buffered=case.get("buffered", False)) if rnd is not None else None
            if inj2 is not None:
                inj2.install(wd)
            try:
                try:
                    r2 = H.run_sim(wd, inp=inp, recorder=PR(with_frac=False), schedule=sched)
                    tag2 = "ok"
                except CH.Crash as c:
                    tag2, r2 = "crash", str(c)
                    out["info"]["second_crash"] = inj2.log[-1] if inj2.log else None
                except Exception as e:  # noqa: BLE001
                    import traceback
                    tag2, r2 = "error", f"{err_site(e)} :: {traceback.format_exc()[-600:]}"
            finally:
                if inj2 is not None:
                    inj2.uninstall()
            if tag2 == "error":
                out["problems"].append(("C08", f"restart after a crash at {out['info']['crashed_effect']} fails: {r2[:400]}"))
                return out
            if locked_rec is not None and sorted(preps[:len(locked_rec)]) != locked_rec:
                out["problems"].append(("C08", f"jobs re-issued after the crash {preps[:len(locked_rec)]} are not the recorded in-flight jobs {locked_rec}"))
            if tag2 == "crash":
                continue
            finished_early = rnd is not None        # the second crash point was never reached: the run simply finished
            if r2["status"] == "none":
                out["problems"].append(("C08", f"restart after a crash at {out['info']['crashed_effect']} does not start (setup_config returned None)"))
                return out
            if r2["cstep"] != T:
                out["problems"].append(("C08", f"continued run ended at step {r2['cstep']} instead of {T}"))
            rows, bad = read_rows(wd, n)
            if bad:
                out["problems"].append(("C08", f"data file holds a torn row after recovery: {bad[:2]}"))
            dup = sorted({p for p in rows if rows.count(p) > 1})
            if dup:
                out["problems"].append(("C08", f"replaced path(s) {dup} appear more than once in the data file after a crash at {out['info']['crashed_effect']}"))
            ok, active, missing = CH.referenced_files(wd)
            import tomli
            with open(os.path.join(wd, "restart.toml"), "rb") as f:
                cur = tomli.load(f)["current"]
            replaced = [p for p in range(cur["traj_num"]) if p not in cur["active"]]
            miss_rows = [p for p in replaced if p not in rows]
            if miss_rows:
                out["problems"].append(("C08", f"replaced path(s) {miss_rows} have no row in the data file after a crash at {out['info']['crashed_effect']}"))
            if missing:
                out["problems"].append(("C14", f"live paths miss files at the end: {missing}"))
            if finished_early:
                out["info"]["second_crash"] = "not reached"
                break
    except Exception as e:  # noqa: BLE001
        import traceback
        out["problems"].append(("harness", f"case crashed: {e!r} {traceback.format_exc()[-800:]}"))
    finally:
        shutil.rmtree(wd, ignore_errors=True)
    return out


def count_effects(setup, which, schedule=None):
    """Number of effects of the `which`-th treat_output and their kinds (dry run)."""
    wd = H.scratch("infv_crashdry_")
    try:
        write_setup(wd, setup)
        inj = CH.Injector()
        run_armed(wd, inj, which, "infretis.toml", schedule=schedule)
        return [(i, k) for i, k, _ in inj.log], getattr(inj, "step_info", None)
    finally:
        shutil.rmtree(wd, ignore_errors=True)
