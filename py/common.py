"""Shared plumbing for the infretis verification checks.

Everything here is deliberately small and explicit: building the Coq development
(full .vo build through coq_makefile, never -vos), auditing it (forbidden tokens,
Print Assumptions output against an allow-list), building and talking to the
extracted OCaml model runners, writing evidence, reporting violations according to
the protocol of DESIGN.md section 2.4.
"""
from __future__ import annotations

import fcntl
import hashlib
import json
import os
import random
import re
import shutil
import subprocess
import sys
import tempfile
import time
from fractions import Fraction

VERIF = os.path.dirname(os.path.dirname(os.path.abspath(__file__)))
COQ = os.path.join(VERIF, "coq")
OCAML = os.path.join(VERIF, "ocaml")
BIN = os.path.join(VERIF, "bin")
# evidence of runs against /repo itself; runs against a modified scratch copy (INFRETIS_REPO, used for
# seeded changes) write theirs elsewhere so that the committed evidence always describes /repo
EVID = os.path.join(VERIF, "evidence" if os.path.realpath(os.environ.get("INFRETIS_REPO", "/repo")) == "/repo" else "evidence_scratch")
REPLAYS = os.path.join(VERIF, "replays")
REPO = os.environ.get("INFRETIS_REPO", "/repo")
LOCK = os.path.join(VERIF, ".build.lock")

KERNEL_TB = [
    "Coq 8.16.1 kernel (coqc, full .vo build; vm_compute used, native_compute not used)",
    "no Axiom/Parameter/Admitted in the development (grep audit + Print Assumptions per theorem)",
]

# Standard-library axioms that may show up under Print Assumptions (named in DESIGN.md 2.6).
ALLOWED_AXIOMS = {
    "ClassicalDedekindReals.sig_forall_dec",
    "ClassicalDedekindReals.sig_not_dec",
    "FunctionalExtensionality.functional_extensionality_dep",
    "Classical_Prop.classic",
}
ALLOWED_AXIOM_PREFIXES = ("Uint63.", "PrimInt63.", "PrimFloat.", "Uint63Axioms.", "FloatAxioms.", "Sint63.")

FORBIDDEN = re.compile(
    r"\b(Admitted|admit|Axiom|Axioms|Parameter|Parameters|Conjecture|Hypothesis|Variable|Variables|Hypotheses)\b"
    r"|Unset\s+Guard|bypass_check|Admit\s+Obligations|-type-in-type|-impredicative-set|Unset\s+Universe\s+Checking|Unset\s+Positivity"
)


class BuildError(Exception):
    def __init__(self, what, log):
        super().__init__(what)
        self.what = what
        self.log = log


def sh(cmd, cwd=None, timeout=1800, env=None, inp=None):
    p = subprocess.run(
        cmd, cwd=cwd, shell=isinstance(cmd, str), capture_output=True, text=True,
        timeout=timeout, env=env, input=inp,
    )
    return p.returncode, p.stdout, p.stderr


class build_lock:
    def __enter__(self):
        self.f = open(LOCK, "w")
        fcntl.flock(self.f, fcntl.LOCK_EX)
        return self

    def __exit__(self, *a):
        fcntl.flock(self.f, fcntl.LOCK_UN)
        self.f.close()


# --------------------------------------------------------------------------- Coq build


def coq_sources():
    out = []
    for sub in ("base", "gen", "model", "spec", "proofs", "theorems", "extract"):
        d = os.path.join(COQ, sub)
        if not os.path.isdir(d):
            continue
        for f in sorted(os.listdir(d)):
            if f.endswith(".v"):
                out.append(f"{sub}/{f}")
    return out


def write_coqproject():
    lines = ["-Q . Inf", "-arg -w -arg -notation-overridden,-deprecated-hint-without-locality,-deprecated-instance-without-locality,-ambiguous-paths"]
    lines += coq_sources()
    txt = "\n".join(lines) + "\n"
    p = os.path.join(COQ, "_CoqProject")
    old = open(p).read() if os.path.exists(p) else None
    if old != txt:
        with open(p, "w") as f:
            f.write(txt)
        return True
    return False


def ensure_makefile():
    changed = write_coqproject()
    mk = os.path.join(COQ, "Makefile")
    if changed or not os.path.exists(mk):
        rc, out, err = sh(["coq_makefile", "-f", "_CoqProject", "-o", "Makefile"], cwd=COQ)
        if rc != 0:
            raise BuildError("coq_makefile failed", out + err)


def coq_make(targets=None, jobs=16, timeout=3000, keep_going=False):
    """Build .vo targets (relative to coq/). None = everything."""
    ensure_makefile()
    cmd = ["timeout", str(timeout), "make", f"-j{jobs}"] + (["-k"] if keep_going else [])
    if targets:
        cmd += targets
    rc, out, err = sh(cmd, cwd=COQ, timeout=timeout + 60)
    if rc != 0:
        raise BuildError("coq build failed: " + " ".join(targets or ["all"]), (out + "\n" + err)[-6000:])
    return out + err


def audit_sources():
    """Grep the whole development for forbidden constructs. Returns list of hits.

    `Variable`/`Hypothesis` are allowed only inside a Section: we check that every such
    line lies between `Section` and `End`."""
    hits = []
    for rel in coq_sources():
        depth = 0
        incomment = 0
        with open(os.path.join(COQ, rel)) as f:
            for ln, line in enumerate(f, 1):
                # strip comments (nesting aware, line granular approximation)
                s = ""
                i = 0
                while i < len(line):
                    if line.startswith("(*", i):
                        incomment += 1
                        i += 2
                    elif line.startswith("*)", i) and incomment:
                        incomment -= 1
                        i += 2
                    else:
                        if not incomment:
                            s += line[i]
                        i += 1
                if re.match(r"\s*(Section|Module)\s+\w+", s) and not re.match(r"\s*Module\s+\w+\s*:=", s):
                    if re.match(r"\s*Section\b", s):
                        depth += 1
                if re.match(r"\s*End\s+\w+", s) and depth > 0:
                    depth -= 1
                for m in FORBIDDEN.finditer(s):
                    tok = m.group(0)
                    if tok in ("Variable", "Variables", "Hypothesis", "Hypotheses") and depth > 0:
                        continue
                    hits.append(f"{rel}:{ln}: {tok}")
    return hits


def compile_theorems(cid):
    """(Re)compile theorems/<cid>.v, always, to capture Print Assumptions output.

    Returns (ok, theorems:list[(name, assumptions:list[str])], log)."""
    rel = f"theorems/{cid}.v"
    src = os.path.join(COQ, rel)
    names = re.findall(r"^\s*(?:Theorem|Lemma|Corollary)\s+(\w+)", open(src).read(), re.M)
    rc, out, err = sh(
        ["timeout", "900", "coqc", "-Q", ".", "Inf", "-w", "-notation-overridden,-deprecated-hint-without-locality,-ambiguous-paths", rel], cwd=COQ, timeout=1000
    )
    log = out + err
    if rc != 0:
        return False, [(n, ["<did not compile>"]) for n in names], log
    # Parse Print Assumptions blocks in order.
    blocks = []
    cur = None
    for line in out.splitlines():
        if line.startswith("Closed under the global context"):
            blocks.append([])
            cur = None
        elif line.startswith("Axioms:"):
            cur = []
            blocks.append(cur)
        elif cur is not None:
            m = re.match(r"^(\S+)\s*:", line)
            if m and not line.startswith(" "):
                cur.append(m.group(1))
    thms = []
    for i, n in enumerate(names):
        thms.append((n, blocks[i] if i < len(blocks) else ["<no Print Assumptions output>"]))
    return True, thms, log


def axioms_ok(axs):
    bad = []
    for a in axs:
        if a in ALLOWED_AXIOMS or a.startswith(ALLOWED_AXIOM_PREFIXES):
            continue
        bad.append(a)
    return bad


# --------------------------------------------------------------------------- OCaml runners


def build_runner(name):
    """Build bin/<name> from coq/extract/<name>_model.ml (+ ocaml/util.ml + ocaml/<name>_driver.ml)."""
    os.makedirs(BIN, exist_ok=True)
    model_ml = os.path.join(COQ, "extract", f"{name}_model.ml")
    if not os.path.exists(model_ml):
        raise BuildError(f"extraction output missing: {model_ml}", "")
    drv = os.path.join(OCAML, f"{name}_driver.ml")
    util = os.path.join(OCAML, "util.ml")
    exe = os.path.join(BIN, name)
    srcs = [model_ml, util, drv]
    if os.path.exists(exe) and all(os.path.getmtime(exe) >= os.path.getmtime(s) for s in srcs):
        return exe
    bdir = os.path.join(VERIF, "build", name)
    os.makedirs(bdir, exist_ok=True)
    allml = os.path.join(bdir, f"{name}_all.ml")
    with open(allml, "w") as f:
        f.write("module BigZ = Z\n")
        f.write(f"# 1 \"{model_ml}\"\n")
        f.write(open(model_ml).read())
        f.write(f"\n# 1 \"{util}\"\n")
        f.write(open(util).read())
        f.write(f"\n# 1 \"{drv}\"\n")
        f.write(open(drv).read())
    rc, out, err = sh(
        ["ocamlfind", "ocamlopt", "-w", "-a", "-O3" if False else "-inline", "100", "-package", "zarith", "-linkpkg", allml, "-o", exe],
        cwd=bdir, timeout=600,
    )
    if rc != 0:
        raise BuildError(f"ocaml build of {name} failed", (out + err)[-4000:])
    return exe


class Runner:
    """Line protocol: one request per line in, one answer per line out."""

    def __init__(self, name):
        self.exe = build_runner(name)

    def run(self, lines, timeout=3000):
        if not lines:
            return []
        inp = "\n".join(lines) + "\n"
        old = None
        p = subprocess.run(
            ["bash", "-c", f"ulimit -s unlimited 2>/dev/null; exec {self.exe}"],
            input=inp, capture_output=True, text=True, timeout=timeout,
        )
        if p.returncode != 0:
            raise BuildError(f"model runner {self.exe} failed rc={p.returncode}", p.stderr[-3000:])
        out = p.stdout.split("\n")
        if out and out[-1] == "":
            out.pop()
        if len(out) != len(lines):
            raise BuildError(f"model runner answered {len(out)} lines for {len(lines)} requests", p.stderr[-2000:])
        return out


# --------------------------------------------------------------------------- numbers


def frac_of_float(x):
    return Fraction(*float(x).as_integer_ratio())


def qstr(x):
    """Fraction/int/float -> 'num/den' for the runners."""
    if isinstance(x, float):
        x = frac_of_float(x)
    x = Fraction(x)
    return f"{x.numerator}/{x.denominator}"


def parse_q(s):
    if "/" in s:
        a, b = s.split("/")
        return Fraction(int(a), int(b))
    return Fraction(int(s))


# --------------------------------------------------------------------------- reporting


class Ctx:
    """Per-run context: tier, seed, evidence accumulation, violation protocol."""

    def __init__(self, cid, tier, seed):
        self.cid = cid
        self.tier = tier
        self.seed = seed
        self.rng = random.Random(seed * 1000003 + int(hashlib.sha1(cid.encode()).hexdigest()[:6], 16))
        self.t0 = time.time()
        self.cov = {
            "obligations": 0, "discharged": 0, "checker_cmd": "", "trusted_base": list(KERNEL_TB),
            "evaluations": 0, "distinct_nontrivial": 0, "rule": "", "samples": [],
            "theorems": [], "correspondence": {}, "input_distribution": {},
        }
        self.assumptions = []
        self.violations = []      # (what, replay_payload, found_input: bool)
        self.known_lines = []
        self.level = "proof"
        self._distinct = set()

    # ---- counting
    def count(self, key, nontrivial=True, n=1):
        self.cov["evaluations"] += n
        if nontrivial:
            h = hashlib.sha1(repr(key).encode()).digest()[:10]
            self._distinct.add(h)

    def dist(self, k, n=1):
        d = self.cov["input_distribution"]
        d[k] = d.get(k, 0) + n

    def sample(self, s, cap=6):
        if len(self.cov["samples"]) < cap:
            self.cov["samples"].append(s)

    # ---- violations
    def violation(self, what, payload, found_input=True):
        self.violations.append((what, payload, found_input))

    def known(self, line):
        if line not in self.known_lines:
            self.known_lines.append(line)

    def finish(self):
        self.cov["distinct_nontrivial"] = len(self._distinct)
        wall = time.time() - self.t0
        ev = {
            "property_id": self.cid, "tier": self.tier, "seed": self.seed, "level": self.level,
            "coverage": self.cov, "assumptions": self.assumptions, "wall_s": round(wall, 2),
            "violations": len(self.violations),
        }
        if self.known_lines:
            ev["coverage"]["known_findings_reported"] = self.known_lines
        os.makedirs(EVID, exist_ok=True)
        with open(os.path.join(EVID, f"{self.cid}.json"), "w") as f:
            json.dump(ev, f, indent=1, default=str)
        for line in self.known_lines:
            print(f"KNOWN-FINDING: property={self.cid} {line}")
        if not self.violations:
            print(f"OK property={self.cid} tier={self.tier} evaluations={self.cov['evaluations']} "
                  f"distinct={self.cov['distinct_nontrivial']} theorems={self.cov['discharged']}/{self.cov['obligations']} wall={wall:.1f}s")
            return 0
        d = os.path.join(REPLAYS, self.cid)
        os.makedirs(d, exist_ok=True)
        seen = set()
        for what, payload, found in self.violations[:20]:
            body = {"property": self.cid, "what": what, "replay": payload, "found_failing_input": found,
                    "replay_cmd": f"./vcheck {self.cid} --replay <this file>"}
            txt = json.dumps(body, indent=1, default=str)
            h = hashlib.sha1(txt.encode()).hexdigest()[:12]
            if h in seen:
                continue
            seen.add(h)
            p = os.path.join(d, f"{h}.json")
            with open(p, "w") as f:
                f.write(txt)
            tail = "" if found else " no-failing-input-found"
            print(f"VIOLATION property={self.cid} replay={p}{tail}")
            print(f"  # {what}"[:400])
        return 1


def load_findings():
    p = os.path.join(VERIF, "known_findings.json")
    if not os.path.exists(p):
        return {"known": [], "fixed": []}
    return json.load(open(p))


def proof_stage(ctx, cid, extra_targets=()):
    """Build the proofs for property cid, audit them, record obligations.

    On failure registers a violation (no-failing-input-found unless the caller later
    finds an input) and returns False."""
    tgt = [f"theorems/{cid}.vo"] + list(extra_targets)
    ctx.cov["checker_cmd"] = f"cd /verif/coq && make -j16 {' '.join(tgt)} && coqc -Q . Inf theorems/{cid}.v  (Print Assumptions audited)"
    ok = True
    with build_lock():
        hits = audit_sources()
        if hits:
            ctx.violation("forbidden construct in the Coq development: " + "; ".join(hits[:5]),
                          {"obligation": "source audit", "hits": hits}, found_input=False)
            ok = False
        try:
            coq_make(tgt)
        except BuildError as e:
            # find the failing theorem/file
            m = re.findall(r'File "\./([^"]+)", line (\d+)', e.log)
            ctx.cov["build_error"] = e.log[-1500:]
            ctx.violation(f"proof obligation no longer checks ({e.what}); first failing location: {m[:1]}",
                          {"obligation": f"make {' '.join(tgt)}", "location": m[:3], "log_tail": e.log[-1500:]}, found_input=False)
            src = os.path.join(COQ, "theorems", f"{cid}.v")
            names = re.findall(r"^\s*(?:Theorem|Lemma|Corollary)\s+(\w+)", open(src).read(), re.M)
            ctx.cov["obligations"] = len(names)
            ctx.cov["discharged"] = 0
            return False
        good, thms, log = compile_theorems(cid)
    ctx.cov["obligations"] = len(thms)
    disc = 0
    for n, axs in thms:
        bad = axioms_ok(axs)
        ctx.cov["theorems"].append({"name": n, "axioms": axs})
        if good and not bad:
            disc += 1
        else:
            ok = False
            ctx.violation(f"theorem {n} not accepted (axioms outside allow-list or did not compile): {bad}",
                          {"obligation": n, "axioms": axs, "log_tail": log[-1500:]}, found_input=False)
    ctx.cov["discharged"] = disc
    return ok


def runner_stage(ctx, name):
    """Build extraction + OCaml runner; returns Runner or None (violation recorded)."""
    try:
        with build_lock():
            coq_make([f"extract/{name}.vo"])
            return Runner(name)
    except BuildError as e:
        ctx.cov["build_error"] = e.log[-1500:]
        ctx.violation(f"model/extraction for {name} no longer builds: {e.what}",
                      {"obligation": f"extract/{name}.vo + runner", "log_tail": e.log[-1500:]}, found_input=False)
        # the search for a concrete failing input goes on with the last model that did build (if any):
        # violations found that way are judged on the implementation by the property's own oracle
        exe = os.path.join(BIN, name)
        if os.path.exists(exe):
            ctx.cov["stale_runner"] = f"bin/{name}: last successfully built model, used only to search for a failing input"
            r = Runner.__new__(Runner)
            r.exe = exe
            return r
        return None


def scratch_dir(prefix="infv_"):
    return tempfile.mkdtemp(prefix=prefix)


def rmtree(p):
    shutil.rmtree(p, ignore_errors=True)
