"""Statistical runs of the real program on the lattice plug-in (property C01)."""
from __future__ import annotations

import os
import shutil

import sysharness as H


def estimate(wd, n_intf):
    """Conditional crossing probabilities P(lambda_{k+1} | lambda_k), k = 0..n_intf-2, from the data file."""
    import tomli
    with open(os.path.join(wd, "restart.toml"), "rb") as f:
        cfg = tomli.load(f)
    n = n_intf + 1
    num = [0.0] * n_intf
    den = [0.0] * n_intf
    for line in open(os.path.join(wd, cfg["output"]["data_file"])):
        if line.startswith("#") or not line.strip():
            continue
        tok = line.split()
        maxop = float(tok[2])
        fr = tok[3:3 + n_intf]
        wt = tok[3 + n_intf:3 + 2 * n_intf]
        for col in range(1, n_intf):          # plus ensembles [(col-1)+], interface index col-1
            if fr[col] == "----":
                continue
            f, w = float(fr[col]), float(wt[col])
            if w == 0:
                continue
            k = col - 1
            den[k] += f / w
            if maxop >= (k + 1) + 0.5:         # reached lambda_{k+1} = k + 1.5
                num[k] += f / w
    return [num[k] / den[k] if den[k] > 0 else None for k in range(n_intf - 1)], den


def stat_case(case):
    """case: dict(n_intf, moves, cap, workers, steps, seed, stops) -> estimates"""
    wd = H.scratch("infv_c01_")
    try:
        H.write_setup(wd, n_intf=case["n_intf"], moves=case["moves"], workers=case["workers"], steps=case["steps"],
                      seed=case["seed"], cap=case.get("cap"), maxlength=case.get("maxlength", 400), n_jumps=case.get("n_jumps", 2))
        import random
        rng = random.Random(case["seed"] * 7919 + 13)
        W = case["workers"]

        def sched(pending, k):
            return rng.randrange(len(pending))
        stops = list(case.get("stops", []))
        first = True
        while True:
            st = stops.pop(0) if stops else None
            res = H.run_sim(wd, inp="infretis.toml" if first else "restart.toml", schedule=sched if W > 1 else None, stop_after=st)
            first = False
            if res["status"] in ("done", "none"):
                break
        est, den = estimate(wd, case["n_intf"])
        return {"est": est, "den": den, "cstep": res.get("cstep")}
    finally:
        shutil.rmtree(wd, ignore_errors=True)
