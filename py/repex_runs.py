"""Shared case generation / execution for the REPEX-state properties (C03, C04, C05).

A *case* is one run of the real program (lattice plug-in engine) under a prescribed
completion schedule, possibly split into segments by clean stops + restarts.  Every segment
is recorded by repex_trace.TraceRecorder and
  (a) validated against the extracted Coq model (bin/repex `trace`/`tracem`): the model must
      accept every recorded transition and reproduce every recorded state;
  (b) judged by the oracles below, which evaluate the statements of C03 / C04 / C05 directly
      on the recorded implementation states and on the files the program wrote.
Problems are returned per category so that each check reports only its own property.
"""
from __future__ import annotations

import itertools
import os
import shutil
from fractions import Fraction

import common
import repex_trace as T
import sysharness as H


# ------------------------------------------------------------------ cases


def all_schedules(workers, steps):
    """All completion orders: the k-th completion takes the idx-th pending future."""
    if workers == 1:
        return [[0] * steps]
    return [list(s) for s in itertools.product(range(workers), repeat=steps)]


def gen_cases(tier, rng):
    cases = []
    quick = tier == "quick"
    # exhaustive completion orders, small systems
    ex = [(3, 2, 6), (4, 2, 6), (4, 3, 5), (5, 3, 4)] if quick else [(3, 2, 7), (4, 2, 7), (4, 3, 6), (5, 3, 5)]
    for n_intf, w, steps in ex:
        scheds = all_schedules(w, steps)
        if quick and len(scheds) > 81:
            scheds = rng.sample(scheds, 81)
        elif len(scheds) > 400:
            scheds = rng.sample(scheds, 400)
        for i, s in enumerate(scheds):
            moves = ["sh"] * n_intf if i % 3 else ["sh", "sh"] + ["wf"] * (n_intf - 2)
            cases.append({"n_intf": n_intf, "workers": w, "steps": steps, "seed": i % 5, "schedule": s,
                          "moves": moves, "kind": "exhaustive"})
    # one worker, longer
    for seed in range(3 if quick else 10):
        for n_intf in (2, 3, 5):
            cases.append({"n_intf": n_intf, "workers": 1, "steps": 25 if quick else 80, "seed": seed, "schedule": None,
                          "moves": (["sh"] * n_intf) if seed % 2 else (["sh", "sh"] + ["wf"] * (n_intf - 2))[:n_intf],
                          "kind": "single"})
    # fewer steps (left) than workers: fresh short runs, and stops that leave fewer steps than workers
    # for the restarted segment (REPEX_state.initiate then starts fewer jobs than there are workers)
    for w in (2, 3, 4):
        for n_intf in range(w + 1, 7):
            for steps in range(1, w):
                for seed in range(5 if quick else 16):
                    cases.append({"n_intf": n_intf, "workers": w, "steps": steps, "seed": 1000 + seed, "moves": ["sh"] * n_intf,
                                  "schedule": [rng.randint(0, w - 1) for _ in range(steps)], "kind": "short",
                                  "init_reach": [0] + [rng.randint(i, n_intf) for i in range(1, n_intf)]})
            for d in range(1, w):
                for seed in range(2 if quick else 8):
                    steps = w + 5
                    cases.append({"n_intf": n_intf, "workers": w, "steps": steps, "seed": 2000 + seed, "moves": ["sh"] * n_intf,
                                  "schedule": [rng.randint(0, w - 1) for _ in range(steps)], "stops": [steps - d], "kind": "short-restart",
                                  "init_reach": [0] + [rng.randint(i, n_intf) for i in range(1, n_intf)]})
    # a stop with w jobs in flight, then the user continues with FEWER workers than interrupted jobs (the surplus
    # interrupted jobs are re-issued as workers become free); also with fewer steps left than interrupted jobs
    for w in (2, 3, 4):
        for w2 in range(1, w):
            for n_intf in range(w + 1, 7 if quick else 8):
                for seed in range(1 if quick else 5):
                    k = rng.randint(1, 6)
                    steps = k + w + rng.randint(2, 8)
                    moves = ["sh", "sh"] + [rng.choice(["sh", "wf"]) for _ in range(n_intf - 2)]
                    cases.append({"n_intf": n_intf, "workers": w, "steps": steps, "seed": 3000 + seed + 10 * w2, "moves": moves,
                                  "schedule": [rng.randint(0, w - 1) for _ in range(steps)], "stops": [k], "workers_after": [w2],
                                  "kind": "fewer-workers",
                                  "init_reach": [0] + [rng.randint(i, n_intf) for i in range(1, n_intf)]})
    # one MD job raises: the program must stop (the exception reaches the caller), and a restart continues; the
    # accounting over both segments is that of a stop at that point
    for w in (1, 2, 3):
        for n_intf in range(max(3, w + 1), 6 if quick else 8):
            for seed in range(2 if quick else 8):
                steps = w + rng.randint(6, 14)
                cases.append({"n_intf": n_intf, "workers": w, "steps": steps, "seed": 4000 + seed, "moves": ["sh"] * n_intf,
                              "schedule": [rng.randint(0, w - 1) for _ in range(steps)], "fail_at": rng.randint(0, steps - 3),
                              "kind": "failing-job",
                              "init_reach": [0] + [rng.randint(i, n_intf) for i in range(1, n_intf)]})
    # deep random runs, more ensembles/workers, caps, multi-engine, restarts
    nrand = 110 if quick else 1200
    for i in range(nrand):
        n_intf = rng.choice([3, 4, 5, 5, 6, 6, 7, 7] if quick else [3, 4, 5, 6, 7, 8])
        w = rng.randint(1, n_intf - 1) if i % 2 else rng.randint(2, min(3, n_intf - 1))
        steps = rng.randint(w + 8, 40 if (quick and i % 3) else 150)
        moves = ["sh", "sh"] + [rng.choice(["sh", "wf"]) for _ in range(n_intf - 2)]
        case = {"n_intf": n_intf, "workers": w, "steps": steps, "seed": rng.randint(0, 10**6),
                "schedule": [rng.randint(0, w - 1) for _ in range(steps)], "moves": moves, "kind": "random"}
        if "wf" in moves and rng.random() < 0.5:
            # orders are integers: a cap below n_intf - 1 is the only kind that changes anything
            case["cap"] = n_intf - rng.choice([1.25, 1.25, 0.75, 0.5])
            if case["cap"] < n_intf - 1:
                # ... and then the region [interface, cap) of the top ensemble holds no lattice point
                moves[-1] = "sh"
                if "wf" not in moves:
                    moves[1] = "wf"
        if rng.random() < 0.4:
            case["multi_engine"] = rng.choice([2, 3])
        if rng.random() < 0.5:
            k1 = rng.randint(1, steps - w - 1)
            case["stops"] = [k1]
            if rng.random() < 0.4 and steps - k1 - w > 2:
                case["stops"].append(rng.randint(1, steps - k1 - w - 1))
        if rng.random() < 0.3:
            case["delete_old"] = True
        if rng.random() < 0.5:
            # initial paths that reach further than their own interface: swaps from the first pick on
            case["init_reach"] = [0] + [rng.randint(i, n_intf) for i in range(1, n_intf)]
        cases.append(case)
    return cases


# ------------------------------------------------------------------ large non-uniform blocks (Monte-Carlo P)


def big_state(m, seed):
    """A real REPEX_state (built by its constructor) with [0-] and m plus ensembles whose paths carry UNEQUAL
    wire-fencing-like weights on staircase supports forming one block of m > 12 paths: `prob` then goes through
    REPEX_state.random_prob.  Paths are stand-ins with a path_number; returns (state, W) with W[path][column]."""
    import random as _random
    from types import SimpleNamespace

    import numpy as np
    from infretis.classes.repex import REPEX_state
    rng = _random.Random(seed)
    rs = REPEX_state({"current": {"size": m + 1}, "runner": {"workers": 2}, "simulation": {"seed": seed, "zeroswap": 0.5},
                      "output": {"screen": 0}}, minus=True)
    n = m + 2
    rs.rgen = np.random.default_rng(seed)
    rs.ensembles = {i: {"name": i} for i in range(n)}
    W = [[0] * n for _ in range(n)]
    rs.add_traj(-1, SimpleNamespace(path_number=0), (1.0,))
    W[0][0] = 1
    ks = sorted(min(m, r + 2 + rng.randint(0, 3)) for r in range(m))
    ks[-1] = ks[-2] = m
    for e in range(m):
        k = max(ks[e], e + 1)
        v = [rng.randint(1, 8) for _ in range(k)] + [0] * (m - k) + [0]
        rs.add_traj(e, SimpleNamespace(path_number=e + 1), tuple(float(x) for x in v))
        W[e + 1] = [0] + v
    return rs, W


def big_pick_case(case):
    """(m, seed, picks): draw jobs from a large non-uniform state with the real pick(); C03 on every pick, and
    the stream identities of every job (C07).  Executed in a forked child."""
    import io
    import contextlib
    m, seed, picks = case
    out = {"C03": [], "C07": [], "picks": 0, "random_prob_calls": 0}
    with contextlib.redirect_stdout(io.StringIO()):
        rs, W = big_state(m, seed)
        held_e, held_p = set(), set()
        for j in range(picks):
            try:
                picked = rs.pick()
            except Exception as e:  # noqa: BLE001
                out["C03"].append(f"pick {j}: the program raised {e!r} when asked for a job")
                break
            out["picks"] += 1
            for k, (ens, d) in enumerate(picked.items()):
                pn, col = d["pn_old"], ens + 1
                if W[pn][col] == 0:
                    out["C03"].append(f"pick {j}: path {pn} was handed out for ensemble column {col} where its weight is zero "
                                      f"(its weights: {W[pn]})")
                if col in held_e or pn in held_p:
                    out["C03"].append(f"pick {j}: ensemble column {col} / path {pn} is already held by an in-flight job")
                held_e.add(col)
                held_p.add(pn)
                g = d["ens"].get("rgen")
                if g is None:
                    out["C07"].append(f"pick {j}: no move stream")
                    continue
                ss = g.bit_generator._seed_seq
                sid = (int(ss.entropy), tuple(int(x) for x in ss.spawn_key))
                if sid != (seed, (j, k)):
                    out["C07"].append(f"job {j} (ensemble {ens}) received move stream {sid}; a function of (seed, ordinal) gives {(seed, (j, k))}")
            busy = {i for i, x in enumerate(rs._locks) if x}
            if busy != held_e | {m + 1}:
                out["C03"].append(f"pick {j}: busy flags {sorted(busy)} differ from the held ensembles {sorted(held_e)} + ghost")
        out["random_prob_calls"] = int(rs._random_count)
        ss = rs.rgen.bit_generator._seed_seq
        if int(ss.n_children_spawned) != out["picks"]:
            out["C07"].append(f"after {out['picks']} jobs the scheduler's stream has spawned {int(ss.n_children_spawned)} children: "
                              "job ordinals and spawn indices no longer coincide")
    out["W"] = W
    return out


# ------------------------------------------------------------------ oracles


def held_jobs_after(ops_upto):
    """in-flight jobs (dicts from job_view) after a prefix of recorded ops."""
    jobs = []
    for op in ops_upto:
        if op["kind"] == "prep":
            jobs.append(op["job"])
        else:
            res = op["res"]
            for k, jb in enumerate(jobs):
                if jb["pin"] == res["pin"] and [e for e in jb["ens"]] == [e - op["off"] for e in res["ens"]]:
                    jobs.pop(k)
                    break
            else:
                return None
    return jobs


def oracle_c03(rec, problems):
    """Exclusivity, evaluated on the implementation's own states."""
    jobs = []
    off = rec.off
    n = rec.n
    for idx, op in enumerate(rec.ops):
        after = op["after"]
        if op["kind"] == "prep":
            jb = dict(op["job"])
            before = op["before"]
            cols = [e + off for e in jb["ens"]]
            # the job's ensembles and paths were idle before
            for c in cols:
                if before["locks"][c]:
                    problems.append(f"op {idx}: job {jb['ens']} issued on ensemble column {c} that was already busy")
            busy_paths = {p for j in jobs for p in j["paths"]}
            for p in jb["paths"]:
                if p in busy_paths:
                    problems.append(f"op {idx}: path {p} handed to a second job while still held")
            if len(cols) == 2 and (before["locks"][0] or before["locks"][1]):
                problems.append(f"op {idx}: zero swap started while [0-]/[0+] busy: locks {before['locks']}")
            # non-zero weight of each path in its ensemble, and it sits there
            for c, p in zip(cols, jb["paths"]):
                if after["live"][c] != p:
                    problems.append(f"op {idx}: job path {p} does not sit in its ensemble slot {c}: {after['live']}")
                if after["W"][c][c] == 0:
                    problems.append(f"op {idx}: job on ensemble {c} got path {p} with zero weight there")
            jobs.append(jb)
        else:
            res = op["res"]
            # re-sorting must leave busy slots alone (their paths are being worked on)
            low = op.get("low", [])
            if ("sort_begins",) in low and op["pre_sort"] is not None:
                busy = op["pre_sort"]["locks"]
                for x in low[low.index(("sort_begins",)) + 1:]:
                    if x[0] == "swap" and (busy[x[1]] or busy[x[2]]):
                        problems.append(f"op {idx}: re-sorting swapped slot {x[1]} with slot {x[2]} although one of them is busy (busy flags {busy})")
            hit = [k for k, j in enumerate(jobs) if j["pin"] == res["pin"]]
            if len(hit) != 1:
                problems.append(f"op {idx}: completed job with pin {res['pin']} matches {len(hit)} in-flight jobs")
            else:
                jobs.pop(hit[0])
        # pairwise disjointness of everything held
        held_cols = [e + off for j in jobs for e in j["ens"]]
        held_paths = [p for j in jobs for p in j["paths"]]
        if len(set(held_cols)) != len(held_cols):
            problems.append(f"op {idx}: an ensemble is held by two in-flight jobs: {[j['ens'] for j in jobs]}")
        if len(set(held_paths)) != len(held_paths):
            problems.append(f"op {idx}: a path is held by two in-flight jobs: {[j['paths'] for j in jobs]}")
        want = [1 if (c in held_cols or c == n - 1) else 0 for c in range(n)]
        if after["locks"] != want:
            problems.append(f"op {idx}: busy flags {after['locks']} differ from the ensembles held by in-flight jobs {want}")
        pins = [j["pin"] for j in jobs]
        if len(set(pins)) != len(pins):
            problems.append(f"op {idx}: two in-flight jobs share worker pin: {pins}")
        folders = [j["w_folder"] for j in jobs]
        if len(set(folders)) != len(folders):
            problems.append(f"op {idx}: two in-flight jobs share a work directory: {folders}")
        inst = []
        for j in jobs:
            mine = set()
            for e, d in j["eng_idx"].items():
                for name, i in d.items():
                    mine.add((name, i))
            inst += list(mine)
        if len(set(inst)) != len(inst):
            problems.append(f"op {idx}: an engine instance is used by two in-flight jobs: {[j['eng_idx'] for j in jobs]}")
        lockedl = [(tuple(c), tuple(p)) for c, p in after["locked"]]
        wantl = [(tuple(e + off for e in j["ens"]), tuple(j["paths"])) for j in jobs]
        if sorted(lockedl) != sorted(wantl):
            problems.append(f"op {idx}: lock list {lockedl} differs from the in-flight jobs {wantl}")
    return jobs


def oracle_c02(rec, problems, tol=Fraction(1, 10**10)):
    """The probability matrix every pick uses equals the exact permanent ratios of the current state."""
    for idx, op in enumerate(rec.ops):
        if op["kind"] != "prep" or not any(x[0] == "pick" for x in op["low"]):
            continue
        P = op.get("P_used")
        if isinstance(P, str):
            problems.append(f"op {idx}: computing the probability matrix failed: {P}")
            continue
        b = op["before"]
        Pex = T.exact_P(b["W"], b["locks"])
        if Pex is None:
            problems.append(f"op {idx}: the idle block has zero permanent when a job is drawn")
            continue
        for r, (re, ri) in enumerate(zip(Pex, P)):
            for c, (a, x) in enumerate(zip(re, ri)):
                if abs(a - x) > tol:
                    problems.append(f"op {idx}: pick uses P[{r}][{c}] = {float(x)} but the permanent ratio of the current state is {float(a)} "
                                    f"(W={b['W']}, busy={b['locks']})")
                    return


def fsum(rows, n):
    tot = [Fraction(0)] * n
    for r in rows:
        for k, x in enumerate(r):
            tot[k] += x
    return tot


def oracle_c04(rec, problems, tol=Fraction(1, 10**9)):
    """Per step: one unit per idle column, none for busy ones, only where weight is non-zero."""
    n = rec.n
    idle_count = [0] * n
    inflight = []         # jobs issued in this process and not yet completed: THEY define which columns are busy
    for idx, op in enumerate(rec.ops):
        if op["kind"] != "treat":
            inflight.append(op["job"])
            continue
        res0 = op["res"]
        for k, jb in enumerate(inflight):
            if jb["pin"] == res0["pin"] and list(jb["ens"]) == [e - rec.off for e in res0["ens"]]:
                inflight.pop(k)
                break
        held = {e + rec.off for jb in inflight for e in jb["ens"]}
        before, after, ps = op["before"], op["after"], op["pre_sort"]
        if ps is None:
            problems.append(f"op {idx}: treat_output did not reach sort_trajstate")
            continue
        res = op["res"]
        archived = res["pn_old"] if res["status"] == "ACC" else []
        for pn in archived:
            if pn in after["frac"]:
                problems.append(f"op {idx}: replaced path {pn} still has a live weight record after being archived")
            if pn not in before["frac"]:
                problems.append(f"op {idx}: replaced path {pn} had no weight record")
        tot_b = fsum(before["frac"].values(), n)
        tot_a = fsum(after["frac"].values(), n)
        arch = fsum([before["frac"][pn] for pn in archived if pn in before["frac"]], n)
        for c in range(n):
            # busy = held by an in-flight job (the last column is the ghost); the program's own busy flags must say the same
            busy = c in held or c == n - 1
            want = 0 if busy else 1
            idle_count[c] += want
            got = tot_a[c] + arch[c] - tot_b[c]
            if abs(got - want) > tol:
                why = "" if bool(ps["locks"][c]) == busy else f" (the program has it marked {'busy' if ps['locks'][c] else 'idle'}; in-flight jobs hold columns {sorted(held)})"
                problems.append(f"op {idx}: column {c} ({'busy' if busy else 'idle'}) received {float(got)} weight in this step, expected {want}{why}")
        # distributed over idle live paths only where the weight is non-zero
        for slot, pn in enumerate(ps["live"][:-1]):
            if pn is None:
                continue
            b = before["frac"].get(pn, [Fraction(0)] * n)
            a = after["frac"].get(pn)
            if a is None:
                continue
            for c in range(n):
                d = a[c] - b[c]
                if d != 0 and (ps["locks"][slot] or ps["locks"][c]):
                    problems.append(f"op {idx}: busy path/ensemble credited: path {pn} slot {slot} column {c} += {float(d)}")
                if d != 0 and ps["W"][slot][c] == 0:
                    problems.append(f"op {idx}: path {pn} credited {float(d)} in column {c} where its weight is zero")
                if d < -tol:
                    problems.append(f"op {idx}: accumulated weight decreased for path {pn} column {c}")
        # a live path is never archived while live
        for pn in archived:
            if pn in [p for p in after["live"][:-1]]:
                problems.append(f"op {idx}: path {pn} written to the data file while still live")
    return idle_count


def read_data_file(path, n):
    """rows of infretis_data.txt -> list of (pn, frac list of n-1 Fractions ('----' = 0))."""
    rows = []
    if not os.path.exists(path):
        return rows
    for line in open(path):
        if line.startswith("#") or not line.strip():
            continue
        tok = line.split()
        pn = int(tok[0])
        fr = tok[3:3 + (n - 1)]
        rows.append((pn, [Fraction(0) if x == "----" else Fraction(x) for x in fr], tok))
    return rows


def oracle_files_c04(wd, n, idle_total, live, problems, tol=Fraction(1, 10**7), completed=None, finished=False):
    """Data-file rows + live weights in restart.toml sum to the idle counts; rows unique; the step counter in the
    restart file is the number of completed (treated) steps — the number the column sums are measured against."""
    import tomli
    with open(os.path.join(wd, "restart.toml"), "rb") as f:
        cfg = tomli.load(f)
    # the data file of THIS run (a fresh start in a used folder opens infretis_data_<i>.txt)
    rows = read_data_file(os.path.join(wd, cfg["output"].get("data_file", "infretis_data.txt")), n)
    pns = [r[0] for r in rows]
    if len(set(pns)) != len(pns):
        dup = sorted({p for p in pns if pns.count(p) > 1})
        problems.append(f"data file holds more than one row for path(s) {dup}")
    fr = cfg["current"]["frac"]
    act = cfg["current"]["active"]
    if completed is not None and cfg["current"].get("cstep") != completed:
        problems.append(f"the restart file's step counter is {cfg['current'].get('cstep')} but {completed} steps were completed and credited")
    if finished and cfg["current"].get("locked"):
        problems.append(f"a finished run's restart file still lists jobs in flight: {cfg['current'].get('locked')}")
    for pn in pns:
        if pn in act:
            problems.append(f"live path {pn} has a row in the data file")
    tot = [Fraction(0)] * (n - 1)
    for _, r, _ in rows:
        for k, x in enumerate(r):
            tot[k] += x
    for pn, v in fr.items():
        for k, x in enumerate(v[:n - 1]):
            tot[k] += Fraction(x)
    for c in range(n - 1):
        if abs(tot[c] - idle_total[c]) > tol * max(1, idle_total[c]):
            problems.append(f"files: column {c} holds total weight {float(tot[c])} but the ensemble was idle at {idle_total[c]} completed steps")
    return len(rows)


def is_staircase(W):
    """hypothesis of C05_sort_terminates: slot 0 holds a [0-] row, plus rows are non-zero on a prefix of the plus columns"""
    n = len(W)
    if W[0][0] == 0 or any(W[0][c] != 0 for c in range(1, n)):
        return False
    for r in range(1, n - 1):
        if W[r][0] != 0:
            return False
        seen_zero = False
        for c in range(1, n - 1):
            if W[r][c] == 0:
                seen_zero = True
            elif seen_zero:
                return False
    return True


def oracle_c05(rec, problems):
    n = rec.n
    rec.stair_ok = getattr(rec, "stair_ok", 0)
    rec.stair_not = getattr(rec, "stair_not", 0)
    for op in rec.ops:
        if op["kind"] == "treat" and op.get("pre_sort"):
            if is_staircase(op["pre_sort"]["W"]):
                rec.stair_ok += 1
            else:
                rec.stair_not += 1
    if rec.hang:
        problems.append("sort_trajstate did not terminate (watchdog)")
    last_tn = rec.init["traj_num"]
    seen = set(p for p in rec.init["live"][:-1] if p is not None)
    for idx, op in enumerate(rec.ops):
        after = op["after"]
        live = after["live"][:-1]
        if len(set(live)) != len(live):
            problems.append(f"op {idx}: live paths are not distinct: {live}")
        if any(p >= after["traj_num"] for p in live):
            problems.append(f"op {idx}: a live path number is not below the next path number {after['traj_num']}: {live}")
        if after["traj_num"] < last_tn:
            problems.append(f"op {idx}: next path number decreased {last_tn} -> {after['traj_num']}")
        if op["kind"] == "treat":
            new = [p for p in live if p not in seen]
            for p in new:
                if p < last_tn:
                    problems.append(f"op {idx}: path number {p} re-used (next number was already {last_tn})")
            seen.update(new)
            for c in range(n - 1):
                if after["W"][c][c] == 0:
                    problems.append(f"op {idx}: after the step the path in slot {c} has zero weight in its ensemble")
            ps = op["pre_sort"]
            if ps is not None and ps["P"] is not None:
                P = ps["P"]
                idle = [c for c in range(n) if not ps["locks"][c]]
                for r in idle:
                    s = sum(P[r][c] for c in idle)
                    if abs(s - 1) > Fraction(1, 10**9):
                        problems.append(f"op {idx}: probability row {r} sums to {float(s)}")
                for c in idle:
                    s = sum(P[r][c] for r in idle)
                    if abs(s - 1) > Fraction(1, 10**9):
                        problems.append(f"op {idx}: probability column {c} sums to {float(s)}")
            if op["sort_swaps"] > n * n:
                problems.append(f"op {idx}: re-sorting needed {op['sort_swaps']} swaps (> n^2)")
        last_tn = after["traj_num"]


# ------------------------------------------------------------------ running one case


class Rec(T.TraceRecorder):
    def attach(self, state):
        super().attach(state)
        self.off = state._offset
        self.n = state.n
        # remember the offset in every treat op (for job matching)
        for op in self.ops:
            op["off"] = self.off


def run_case(case):
    """Executed in a forked child.  Returns a picklable summary."""
    runner = common.Runner("repex")
    try:
        T.PERM_RUNNER = common.Runner("c02")
    except Exception:  # noqa: BLE001  (C02's model not built: fall back to the Python exact permanents)
        T.PERM_RUNNER = None
    wd = H.scratch("infv_rx_")
    out = {"model": [], "C02": [], "C03": [], "C04": [], "C05": [], "stats": {"ops": 0, "treats": 0, "zero_swaps": 0, "segments": 0,
                                                                     "acc": 0, "rej": 0, "max_inflight": 0, "sort_swaps": 0,
                                                                     "relocks": 0, "data_rows": 0, "P_from_coq_model": 0, "staircase_states": 0, "non_staircase_states": 0}}
    try:
        kw = {}
        if case.get("multi_engine"):
            k = case["multi_engine"]
            names = [f"eng{i}" for i in range(k)]
            extra = {nm: {"class": "LatticeEngine", "module": H.PLUGINS, "wall": -4} for nm in names}
            kw["extra_engine"] = extra
            kw["ensemble_engines"] = [[names[i % k]] for i in range(case["n_intf"])]
        H.write_setup(wd, n_intf=case["n_intf"], moves=case["moves"], workers=case["workers"], steps=case["steps"],
                      seed=case["seed"], cap=case.get("cap"), delete_old=case.get("delete_old", False), init_reach=case.get("init_reach"), **kw)
        stops = list(case.get("stops", []))
        workers_after = list(case.get("workers_after", []))
        total_treats = 0
        sched = list(case["schedule"] or [])
        n = case["n_intf"] + 1
        idle_total = [0] * n
        seg = 0
        first = True
        while True:
            rec = Rec()
            stop_after = stops.pop(0) if stops else None
            extra = {}
            if not first and workers_after:
                extra["workers"] = workers_after.pop(0)
            if seg == 0 and case.get("fail_at") is not None:
                extra["fail_jobs"] = [case["fail_at"]]
            res = H.run_sim(wd, inp="infretis.toml" if first else "restart.toml", schedule=sched, stop_after=stop_after, recorder=rec, **extra)
            if res["status"] == "none":
                if first:
                    out["model"].append("setup_config returned None on a fresh set-up")
                break
            # (a job that failed before any step was completed leaves no restart file: start over from the input)
            first = not os.path.exists(os.path.join(wd, "restart.toml"))
            seg += 1
            out["stats"]["segments"] = seg
            sched = sched[len(res["completed"]):]
            probs, stats = T.validate(runner, rec)
            out["model"] += [f"segment {seg}: {p}" for p in probs]
            out["stats"]["ops"] += len(rec.ops)
            p2, p3, p4, p5 = [], [], [], []
            oracle_c02(rec, p2)
            out["C02"] += [f"segment {seg}: {p}" for p in p2]
            oracle_c03(rec, p3)
            ic = oracle_c04(rec, p4)
            oracle_c05(rec, p5)
            out["stats"]["staircase_states"] += rec.stair_ok
            out["stats"]["non_staircase_states"] += rec.stair_not
            for c in range(n):
                idle_total[c] += ic[c]
            out["C03"] += [f"segment {seg}: {p}" for p in p3 + rec.zs_busy]
            rec.zs_busy = []
            out["C04"] += [f"segment {seg}: {p}" for p in p4]
            out["C05"] += [f"segment {seg}: {p}" for p in p5]
            infl = 0
            for op in rec.ops:
                if op["kind"] == "prep":
                    infl += 1
                    out["stats"]["max_inflight"] = max(out["stats"]["max_inflight"], infl)
                    if len(op["job"]["ens"]) == 2:
                        out["stats"]["zero_swaps"] += 1
                    if any(x[0] == "pick_lock" and x[1] is not None for x in op["low"]):
                        out["stats"]["relocks"] += 1
                else:
                    infl -= 1
                    out["stats"]["treats"] += 1
                    out["stats"]["P_from_coq_model"] += 1 if op.get("P_from_coq_model") else 0
                    out["stats"]["sort_swaps"] += op["sort_swaps"]
                    out["stats"]["acc" if op["res"]["status"] == "ACC" else "rej"] += 1
            # files after this segment
            p4f = []
            live = rec.ops[-1]["after"]["live"] if rec.ops else rec.init["live"]
            total_treats += sum(1 for op in rec.ops if op["kind"] == "treat")
            if rec.ops and total_treats:
                out["stats"]["data_rows"] = oracle_files_c04(wd, n, idle_total, live, p4f, completed=total_treats,
                                                             finished=res["status"] == "done")
            out["C04"] += [f"segment {seg} files: {p}" for p in p4f]
            if res["status"] == "done":
                if res["in_flight"]:
                    out["C05"].append(f"finished run left jobs in flight: {res['in_flight']}")
                if case.get("fail_at") is not None and seg == 1:
                    out["C04"].append(f"MD job {case['fail_at']} raised an exception but the run went on to 'finish': the step of the failed job "
                                      "was counted without its result being treated")
                break
            if seg > 6:
                break
    except Exception as e:  # noqa: BLE001
        import traceback
        tb = traceback.format_exc()
        out["model"].append(f"case crashed: {e!r} :: {tb[-1500:]}")
        try:
            out["C03"] += [f"segment {seg + 1}: {p}" for p in rec.zs_busy]     # the program died in the operation that did it
        except NameError:
            pass
        # the innermost frame that belongs to the program or to the harness (frames of libraries the
        # program called, e.g. numpy's Generator.choice, do not count)
        frames = [ln for ln in tb.splitlines() if ln.strip().startswith("File ") and ("/infretis/" in ln or "/verif/py" in ln)]
        if frames and "/infretis/" in frames[-1] and "StopRun" not in repr(e):
            # the program itself died in the middle of a run: the sampler stalled
            out["C05"].append(f"the run died inside the program with {e!r} ({frames[-1].strip()[:160]})")
    finally:
        shutil.rmtree(wd, ignore_errors=True)
    return out
