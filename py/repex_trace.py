"""Trace validation of the real REPEX_state against the extracted model (coq/model/RepexM.v).

A TraceRecorder wraps the methods of the live REPEX_state object of a real run (driven by
py/sysharness.py) and logs, per scheduler operation, what the implementation did (which row
was swapped where, what was locked, which job completed with which weight rows) together with
the observable state afterwards.  `validate` turns such a log into one request for the
extracted acceptor (`bin/repex`), which must (a) accept every recorded transition and
(b) reproduce every recorded state; in addition the statements of C03/C04/C05 are evaluated
directly on the recorded implementation states (the oracles).
"""
from __future__ import annotations

import itertools
import os
from fractions import Fraction

import numpy as np

import sysharness as H


def ld_frac(x):
    """numpy longdouble / float -> exact Fraction."""
    try:
        a, b = np.longdouble(x).as_integer_ratio()
        return Fraction(int(a), int(b))
    except Exception:
        return Fraction(float(x))


# set by the checks to a common.Runner("c02"): the Coq model of inf_retis then supplies the P of every step
PERM_RUNNER = None
_PERM_CACHE = {}

# ------------------------------------------------------------------ exact P (permanent ratios)


def perm(M):
    n = len(M)
    if n == 0:
        return Fraction(1)
    if n == 1:
        return M[0][0]
    tot = Fraction(0)
    for j, x in enumerate(M[0]):
        if x != 0:
            tot += x * perm([r[:j] + r[j + 1:] for r in M[1:]])
    return tot


def exact_P(W, locks):
    """P_ij = W_ij perm(minor_ij)/perm(W) on the idle block, 0 elsewhere (Fractions)."""
    n = len(W)
    idle = [i for i in range(n) if not locks[i]]
    sub = [[Fraction(W[i][j]) for j in idle] for i in idle]
    P = [[Fraction(0)] * n for _ in range(n)]
    if not idle:
        return P
    tot = perm(sub)
    if tot == 0:
        return None
    for a, i in enumerate(idle):
        for b, j in enumerate(idle):
            if sub[a][b] != 0:
                minor = [r[:b] + r[b + 1:] for k, r in enumerate(sub) if k != a]
                P[i][j] = sub[a][b] * perm(minor) / tot
    return P


# ------------------------------------------------------------------ matching certificates


def find_matching(W, locks, force=None):
    """A perfect matching of the idle block as a list m (m[r] = column of row r; busy rows
    get 0) that contains the pair `force` = (row, col); None when there is none."""
    n = len(W)
    idle = [i for i in range(n) if not locks[i]]
    m = {}
    used = set()
    if force is not None:
        i, j = force
        if locks[i] or locks[j] or W[i][j] == 0:
            return None
        m[i] = j
        used.add(j)
    rows = [r for r in idle if r not in m]

    def go(k):
        if k == len(rows):
            return True
        r = rows[k]
        for c in idle:
            if c not in used and W[r][c] != 0:
                used.add(c)
                m[r] = c
                if go(k + 1):
                    return True
                used.discard(c)
                del m[r]
        return False

    # most constrained rows first
    rows.sort(key=lambda r: sum(1 for c in idle if W[r][c] != 0))
    if not go(0):
        return None
    return [m.get(r, 0) for r in range(n)]


def _swap_rows(W, live, i, j):
    W = [list(r) for r in W]
    live = list(live)
    W[i], W[j] = W[j], W[i]
    live[i], live[j] = live[j], live[i]
    return W, live


def certificates(op, problems):
    """Certificates for a recorded prep operation (see coq/model/MatchM.v)."""
    before = op["before"]
    W = [list(r) for r in before["W"]]
    locks = list(before["locks"])
    live = [p if p is not None else 0 for p in before["live"]]
    low = op["low"]
    takes = [(x[1], x[2]) for x in low if x[0] == "swap"]
    certs = []
    for (i, j) in takes:
        m = find_matching(W, locks, (i, j))
        if m is None:
            problems.append(f"picked pair (row {i}, ensemble column {j}) lies on no perfect matching of the idle block: "
                            f"its probability under the exact permanent ratios is zero (W={W}, locks={locks})")
            return None
        certs.append(",".join(map(str, m)))
        W, live = _swap_rows(W, live, i, j)
        locks[j] = 1
    return "/".join(certs) if certs else "-"


# ------------------------------------------------------------------ recorder


class TraceRecorder(H.Recorder):
    def __init__(self):
        super().__init__(with_frac=True)
        self.low = []          # low-level log of the current operation
        self.zs_busy = []      # zero swaps started on a busy partner (C03), also when the program then dies
        self.ops = []          # list of dict(kind=..., ..., after=snapshot)
        self.init = None
        self.sort_iters = []
        self._in_sort = False
        self.pre_sort = None
        self.hang = False

    def snapshot(self):
        st = self.state
        snap = {
            "W": [[int(x) if float(x).is_integer() else float(x) for x in row] for row in np.abs(st.state)],
            "live": [t.path_number if t != "" else None for t in st._trajs],
            "locks": [int(x) for x in st._locks],
            "locked": [([int(e) + st._offset for e in a], [int(p) for p in b]) for a, b in st.locked],
            "traj_num": st.config["current"]["traj_num"],
            "cstep": st.cstep,
            "frac": {int(k): [ld_frac(x) for x in v["frac"]] for k, v in st.traj_data.items()},
            "engine_occ": {k: list(v) for k, v in st.engine_occ.items()},
            "toinitiate": st.toinitiate,
        }
        return snap

    def attach(self, state):
        self.state = state
        rec = self
        o_swap, o_lock = state.swap, state.lock
        o_pick, o_pick_lock = state.pick, state.pick_lock
        o_prep, o_treat, o_sort = state.prep_md_items, state.treat_output, state.sort_trajstate

        def swap(traj, ens):
            rec.low.append(("swap", int(traj), int(ens)))
            if rec._in_sort:
                rec._sort_count += 1
                if rec._sort_count > 10 * state.n ** 3 + 50:
                    rec.hang = True
                    raise RuntimeError("sort_trajstate does not terminate (watchdog)")
            return o_swap(traj, ens)

        def lock(ens):
            rec.low.append(("lock", int(ens)))
            return o_lock(ens)

        def pick():
            rec.low.append(("pick",))
            return o_pick()

        o_pte = state.pick_traj_ens

        def pick_traj_ens(ens):
            # the partner of a zero swap is being drawn: it must be idle at this moment (C03)
            if state._locks[int(ens)]:
                held = [i for i, x in enumerate(state._locks[:-1]) if x]
                rec.zs_busy.append(f"a zero swap was started for partner ensemble column {int(ens)} while that ensemble is held by an "
                                   f"in-flight job (busy columns at that moment: {held})")
            return o_pte(ens)

        def pick_lock():
            entry = None
            if state.locked0:
                e = state.locked0[0]
                entry = ([int(x) for x in e[0]], [int(x) for x in e[1]])
            rec.low.append(("pick_lock", entry))
            return o_pick_lock()

        def sort_trajstate():
            rec.pre_sort = {"W": [[float(x) for x in row] for row in np.abs(state.state)],
                            "locks": [int(x) for x in state._locks],
                            "P": None if state._last_prob is None else [[ld_frac(x) for x in row] for row in state._last_prob],
                            "live": [t.path_number if t != "" else None for t in state._trajs]}
            rec._in_sort, rec._sort_count = True, 0
            rec.low.append(("sort_begins",))
            try:
                return o_sort()
            finally:
                rec._in_sort = False
                rec.sort_iters.append(rec._sort_count)

        def prep(md_items):
            rec.low = []
            before = rec.snapshot()
            # the probability matrix the pick is about to use (the cached one, or computed now)
            try:
                p_used = [[ld_frac(x) for x in row] for row in state.prob]
            except Exception as e:  # noqa: BLE001
                p_used = f"error: {e!r}"
            out = o_prep(md_items)
            low = list(rec.low)
            view = rec.job_view(out)
            op = {"kind": "prep", "low": low, "job": view, "before": before, "after": rec.snapshot(), "P_used": p_used}
            rec.ops.append(op)
            return out

        def treat(md_items):
            rec.low = []
            before = rec.snapshot()
            picked = md_items["picked"]
            n, off = state.n, state._offset
            rows = []
            for e in picked:
                w = picked[e]["traj"].weights
                w = [float(x) for x in w]
                if e >= 0:
                    w = [0.0] * off + w
                else:
                    w = w + [0.0] * (n - off)
                rows.append(w)
            view = {"ens": [int(e) + off for e in picked], "pn_old": [int(picked[e]["pn_old"]) for e in picked],
                    "status": md_items["status"], "rows": rows, "pin": md_items.get("pin")}
            rec.pre_sort = None
            out = o_treat(md_items)
            op = {"kind": "treat", "res": view, "before": before, "pre_sort": rec.pre_sort, "low": list(rec.low),
                  "sort_swaps": rec.sort_iters[-1] if rec.sort_iters else 0, "after": rec.snapshot()}
            rec.ops.append(op)
            return out

        state.swap, state.lock = swap, lock
        state.pick, state.pick_lock = pick, pick_lock
        state.pick_traj_ens = pick_traj_ens
        state.prep_md_items, state.treat_output, state.sort_trajstate = prep, treat, sort_trajstate
        self.init = self.snapshot()


# ------------------------------------------------------------------ encoding for the acceptor


def _ints(row):
    out = []
    for x in row:
        if not float(x).is_integer():
            raise ValueError("non-integer weight")
        out.append(str(int(x)))
    return ",".join(out)


def enc_state_request(snap):
    W = ";".join(_ints(r) for r in snap["W"])
    T = ",".join(str(p if p is not None else 0) for p in snap["live"])
    L = ",".join(str(x) for x in snap["locks"])
    fr = ";".join(f"{pn}:{','.join(f'{q.numerator}/{q.denominator}' for q in v)}" for pn, v in sorted(snap["frac"].items())) or "-"
    return f"{W} {T} {L} {snap['traj_num']} {fr}"


def derive_op(op, problems):
    """Recorded operation -> acceptor op string (or None when it cannot be expressed)."""
    if op["kind"] == "prep":
        low = op["low"]
        pin = op["job"]["pin"]
        kinds = [x[0] for x in low]
        if "pick" in kinds:
            sw = [x for x in low if x[0] == "swap"]
            if len(sw) == 1:
                return f"P:{sw[0][1]}:{sw[0][2]}:N:{pin}"
            if len(sw) == 2:
                return f"P:{sw[0][1]}:{sw[0][2]}:{sw[1][1]}:{pin}"
            problems.append(f"pick() performed {len(sw)} swaps")
            return None
        pl = [x for x in low if x[0] == "pick_lock"]
        if pl and pl[0][1] is not None:
            cols, paths = pl[0][1]
            return f"L:{','.join(map(str, cols))}:{','.join(map(str, paths))}:{pin}"
        problems.append("prep_md_items called neither pick nor pick_lock with an entry")
        return None
    res = op["res"]
    before = op["before"]
    k = None
    for idx, (cols, paths) in enumerate(before["locked"]):
        if res["pn_old"][0] in paths:
            k = idx
            break
    if k is None:
        problems.append(f"completed job {res} is not in the lock list {before['locked']}")
        return None
    acc = 1 if res["status"] == "ACC" else 0
    rows = "+".join(_ints(r) for r in res["rows"])
    ps = op["pre_sort"]
    Pex = exact_P(ps["W"], ps["locks"]) if ps else None
    if Pex is None:
        problems.append("idle block has no perfect matching at credit time (permanent is zero)")
        return None
    if PERM_RUNNER is not None and len(ps["W"]) <= 10:
        # the P handed to the acceptor is the one the Coq model of inf_retis (model/PermM.v) computes;
        # the exact permanent ratios computed here in Python must agree with it
        Wm = ";".join(",".join(str(int(x)) for x in r) for r in ps["W"])
        req = f"inf 1 {Wm} {''.join(str(int(x)) for x in ps['locks'])}"
        if req not in _PERM_CACHE:
            _PERM_CACHE[req] = PERM_RUNNER.run([req])[0]
        ans = _PERM_CACHE[req]
        if ans == "N":
            problems.append("the Coq model of inf_retis trips its own assertion (row/column sums) on the recorded weight matrix")
            return None
        Pm = [[Fraction(x) for x in r.split(",")] for r in ans.split(";")]
        if Pm != Pex:
            problems.append(f"Coq model of inf_retis differs from the exact permanent ratios on W={ps['W']} locks={ps['locks']}")
            return None
        op["P_from_coq_model"] = True
    Pstr = "+".join(",".join(f"{q.numerator}/{q.denominator}" for q in r) for r in Pex)
    op["P_exact"] = Pex
    return f"T:{k}:{acc}:{rows}:{Pstr}"


def parse_state(s):
    W, T, L, locked, tn, fr, data, steps = s.split("|")
    def assoc(x):
        out = {}
        if x != "-":
            for e in x.split(";"):
                pn, v = e.split(":")
                out[int(pn)] = [Fraction(q) for q in v.split(",")]
        return out
    jobs = []
    if locked != "-":
        for j in locked.split(";"):
            c, p, pin = j.split(">")
            jobs.append(([int(x) for x in c.split(",")], [int(x) for x in p.split(",")], int(pin)))
    dat = []
    if data != "-":
        for e in data.split(";"):
            pn, v = e.split(":")
            dat.append((int(pn), [Fraction(q) for q in v.split(",")]))
    return {"W": [[int(x) for x in r.split(",")] for r in W.split(";")],
            "live": [int(x) for x in T.split(",")], "locks": [int(x) for x in L.split(",")],
            "locked": jobs, "traj_num": int(tn), "frac": assoc(fr), "data": dat, "steps": int(steps)}


def compare_state(model, snap, tol=Fraction(1, 10**9)):
    """Returns a description of the first difference or None."""
    if model["W"] != [[int(x) for x in r] for r in snap["W"]]:
        return f"weight matrix differs: model {model['W']} impl {snap['W']}"
    live = [p if p is not None else 0 for p in snap["live"]]
    if model["live"][:-1] != live[:-1]:
        return f"live paths differ: model {model['live']} impl {live}"
    if model["locks"] != snap["locks"]:
        return f"locks differ: model {model['locks']} impl {snap['locks']}"
    ml = [(c, p) for c, p, _ in model["locked"]]
    il = [(list(c), list(p)) for c, p in snap["locked"]]
    if ml != il:
        return f"lock list differs: model {ml} impl {il}"
    if model["traj_num"] != snap["traj_num"]:
        return f"traj_num differs: model {model['traj_num']} impl {snap['traj_num']}"
    if set(model["frac"]) != set(snap["frac"]):
        return f"traj_data keys differ: model {sorted(model['frac'])} impl {sorted(snap['frac'])}"
    for pn, v in model["frac"].items():
        for a, b in zip(v, snap["frac"][pn]):
            if abs(a - b) > tol:
                return f"frac of path {pn} differs: model {[float(x) for x in v]} impl {[float(x) for x in snap['frac'][pn]]}"
    return None


def validate(runner, rec, label="", certs=True):
    """Run the acceptor on a recorded trace.  Returns (problems:list[str], stats:dict)."""
    problems = []
    if rec.init is None:
        return ["no trace recorded"], {}
    ops = []
    for op in rec.ops:
        try:
            s = derive_op(op, problems)
        except ValueError as e:
            problems.append(f"cannot encode operation: {e}")
            s = None
        if s is None:
            break
        if certs:
            c = certificates(op, problems) if op["kind"] == "prep" else "-"
            if c is None:
                break
            s = s + "@" + c
        ops.append(s)
    try:
        req = ("tracem " if certs else "trace ") + enc_state_request(rec.init) + " " + " ".join(ops)
    except ValueError as e:
        return [f"cannot encode initial state: {e}"], {}
    out = runner.run([req])[0]
    parts = out.split(" # ")
    stats = {"ops": len(ops), "accepted": 0}
    for idx, part in enumerate(parts[1:]):
        if part.startswith("REJECT"):
            problems.append(f"model rejects operation {idx} ({ops[idx][:60]}): a guard of the model (idle row/column, non-zero weight, "
                            f"valid[ens] != 0, job in lock list, sort terminates) does not hold on the implementation's transition")
            break
        stats["accepted"] += 1
        m = parse_state(part)
        d = compare_state(m, rec.ops[idx]["after"])
        if d:
            problems.append(f"after operation {idx} ({ops[idx][:60]}): {d}")
            break
        # P of the implementation against the exact permanent ratios, at credit time
        op = rec.ops[idx]
        if op["kind"] == "treat" and op.get("P_exact") and op["pre_sort"]["P"] is not None:
            for ri, (re, rimpl) in enumerate(zip(op["P_exact"], op["pre_sort"]["P"])):
                for ci, (a, b) in enumerate(zip(re, rimpl)):
                    if abs(a - b) > Fraction(1, 10**10):
                        problems.append(f"operation {idx}: implementation P[{ri}][{ci}]={float(b)} differs from permanent ratio {float(a)}")
                        break
    stats["final_model"] = parse_state(parts[-1]) if parts and not parts[-1].startswith("REJECT") else None
    return problems, stats
