"""C09 — accepted paths belong to their ensemble; rejections change nothing.

Theorems: coq/theorems/C09.v (model coq/model/MovesM.v on top of PathM / EngineM / WeightM).
Tie: scripted-oracle lock-step.  The REAL infretis.core.tis.shoot / wire_fencing /
select_shoot / run_md are driven by a scripted engine (py/plugins/engines.ScriptedEngine, which
feeds prescribed order streams through the REAL EngineBase.add_to_path) and a scripted random
generator; the extracted Coq model is given the same draws and streams; the canonicalised
results are compared.  Independently of the model the property's own statement (ensemble
membership (i)-(vii), the acceptance threshold r <= n_old/n_new, index never an end point,
old path untouched) is evaluated on the implementation's outputs.  Family perm_*: the real
run_md -> select_shoot -> shoot chain for [0-] moves in permeability set-ups (lambda_minus_one = 0.0,
negative, positive, absent), oracle: status ACC => non-zero weight in the own ensemble.
"""
import importlib.util  # noqa: F401
import itertools
import json
import os
from fractions import Fraction as Fr

import common

META = {
    "id": "C09",
    "level": "proof",
    "technique": "Coq theorems (unbounded: all old paths, interfaces, limits, draws and engine streams; induction over engine streams and the jump loop) about an executable model of shoot / wire_fencing / extender / subt_acceptance / select_shoot / run_md glue, with the repaired add_to_path stop rule /repo has now; scripted-engine + scripted-generator lock-step of the extracted model against the REAL moves; the property's own statement evaluated on the implementation's outputs (also for retis_swap_zero)",
    "text": "For every old path, interface triple, cap, length limits, n_jumps, random draws and engine streams: shoot / wire_fencing / select_shoot report acceptance iff the status is ACC and run_md installs the new path iff accepted, otherwise returns the old path unchanged (C09_accept_iff_ACC_*, C09_run_md_replaces_iff_accepted, C09_reject_untouched). An accepted shooting path is xb, reversed backward interior, shooting point, forward interior, xf with (i) xb, xf outside [i0,i2] (stop-rule operators), start on an allowed side, no end on the left without 'L'; (ii) all other frames inside; (iii) the ensemble interface crossed; (iv) 3 <= length <= maxlength and length-2 <= (L_old-2)/r; (v) the shooting point is an interior frame of the old path and sits at index len(back)-1; (vi) position p holds the frame the engine produced |p-jb| steps from the shooting point, backward frames (velocities reversed) before it, forward frames after it, time origin shifted accordingly; (vii) own-ensemble entry of calc_cv_vector = 1 (C09_acc_valid_shoot, C09_acc_shoot_time_ordered, C09_acc_own_weight_shoot_plus/minus); for [0-] this holds with lambda_minus_one absent or ANY number l <= the ensemble's left interface, 0 included (lambda_minus_one is an option in the model, never a truth value; C09_example_minus_lambda_minus_one_zero is an accepted L->L move with lambda_minus_one = 0 that never reaches lambda_0 and carries (1,)). C09_shooting_index_interior: index in [1, L-2] for every u in [0,1). C09_accept_rule: a trial whose trajectories reach the interfaces, fits maxlength and would be valid is accepted iff r <= n_old/n_new; for the rule before the repair the guarded form r <= n_old/(n_new+1) and the refutation witness (L_old 7, r 1/2, L_new 12) are proved. An accepted wire-fencing path is shorter than maxlength, starts on the ensemble's side, has ends that cannot be extended and an inside interior, crosses lambda_i, and has positive wire-fencing weight provided no frame lies exactly on the cap (C09_acc_valid_wire_fencing, C09_acc_own_weight_wire_fencing); without that guard the weight can be 0 (C09_wire_fencing_weight_on_cap_refuted, recorded finding).",
    "note": "Permeability family (perm_*): the real run_md -> select_shoot -> shoot chain for [0-] moves with (lambda_-1, lambda_0) in (0,2), (0,4), (-2,2), (-4,-2), (1,3), (2,6) (ensemble (lambda_-1, mid, lambda_0), start_cond L/R, tis_set.lambda_minus_one a float, 0.0 included) and without lambda_minus_one (lambda_0 = 3, 0, -2): every valid old path of length 3..5 x every shooting index x backward/forward trajectories leaving on either side, so that accepted L->L, L->R, R->L and R->R paths occur with and without reaching lambda_0 and with frames on the interfaces; oracle: status ACC => the installed path carries calc_cv_vector's weights and its own-ensemble weight is non-zero (counts per type in the evidence under runmd_minus_ACC:*). Zero swaps: the Coq model of retis_swap_zero / quantis_swap_zero is C11's (model/SwapM.v, another builder); C09 has no theorem about them and only evaluates the statement (accept iff ACC, accepted paths valid in [0-]/[0+], crossing frames exchanged, old paths untouched, non-zero own weights) on the real retis_swap_zero with shooting moves and the one global maxlength of the real program. Known finding (not repaired, no small safe patch: the boundary conventions '> cap' of add_to_path and '>= cap' of wirefence_weight_and_pick differ): an accepted wire-fencing path with a frame exactly on the cap, reached by a jump over [lambda_i, cap), has weight 0 — reported as KNOWN-FINDING only for accepted paths that contain a frame equal to the cap. Observations outside the statement are listed in the evidence (path.weight attribute 0.0 after Path.reverse; status/generated of the old path object rewritten by wire_fencing on NSG). Trusted: Coq kernel; extraction (ExtrOcamlBasic) + ocaml/util.ml + ocaml/c09_driver.ml; this harness (scripted engine/generator, encoders, generators, oracle). numpy's Generator.integers is modelled by its contract (a value in [low, high)) and sampled on the real generator through Path.get_shooting_point. int((L-2)/r) is modelled as the floor of the exact rational; draws whose float quotient is not exact are skipped and counted. The engine is assumed to honour the propagate contract (C12). Orders are integer valued so every comparison is exact; 'outside' follows the code's own operators (stop rule < / >, classification <= / >=). All theorems are closed under the global context (no axioms).",
    "design_ref": "4/C09, lead L11",
}
LEVEL = "proof"

LOW = -1000          # stands for -inf on the model side (below every order value used)
OUTER = 50           # |order| bound of generated values


# =========================================================================== scripted world


class SRng:
    """Scripted generator: pops prescribed uniforms u in [0,1).  integers(a,b) = a+floor(u(b-a))."""

    def __init__(self, draws):
        self.d = [Fr(x) for x in draws]

    def integers(self, a, b):
        if not a < b:
            raise ValueError("low >= high")
        u = self.d.pop(0)
        return int(a + (u * (b - a)).__floor__())

    def random(self):
        return float(self.d.pop(0))


_SE = None


def engine(script, kicks):
    global _SE
    if _SE is None:
        from plugins.engines import ScriptedEngine

        class SE(ScriptedEngine):
            def _propagate_from(self, *a, **k):  # abstract in EngineBase; never reached
                raise NotImplementedError

        _SE = SE
    return _SE([list(s) for s in script], kicks=[(0.0, k) for k in kicks])


def mk_old(old, fname="old"):
    from infretis.classes.path import Path
    from infretis.classes.system import System
    p = Path(maxlen=old["maxlen"], time_origin=old["t0"])
    for i, o in enumerate(old["orders"]):
        s = System()
        s.order = [float(o)]
        s.config = (fname, i)
        s.vel_rev = bool(old["revs"][i])
        s.vpot = 0.25 * i
        s.ekin = 1.0 + i
        p.phasepoints.append(s)
    # 're' = a path reloaded after a restart: it must be treated like any other path, only 'ld' lifts the length bound
    p.generated = ("ld" if old.get("ld") else ("re" if old.get("re") else "xx"), 0.0, 0, 0)
    p.status = "ACC"
    p.path_number = 7
    return p


def tag_of(config):
    name, k = config
    base = os.path.basename(str(name))
    if base.startswith("old"):
        return int(k)
    if base.startswith("traj"):
        return 1000 * (int(base[4:]) + 1) + int(k)
    if base.startswith("genvel"):
        return -1
    return -999


def enc_path(p):
    fr = []
    for s in p.phasepoints:
        o = s.order[0]
        assert float(o).is_integer()
        fr.append(f"{int(o)}:{tag_of(s.config)}:{int(bool(s.vel_rev))}")
    return f"{','.join(fr) if fr else '-'}|{p.maxlen}|{p.time_origin}"


def enc_gen(g):
    if isinstance(g, tuple) and g and g[0] in ("sh", "wf"):
        return f"{int(g[1])}:{int(g[2])}:{int(g[3])}"
    return "0:0:0"


def snap_frames(p):
    out = []
    for s in p.phasepoints:
        d = {}
        for k, v in vars(s).items():
            if isinstance(v, list):
                d[k] = ("list", id(v), tuple(v))
            elif isinstance(v, (int, float, str, bool, tuple, type(None))):
                d[k] = v
            else:
                d[k] = ("obj", id(v))
        out.append((id(s), tuple(sorted(d.items(), key=lambda kv: kv[0]))))
    return (id(p.phasepoints), tuple(out), p.maxlen, p.time_origin, p.path_number, p.weights, p.weight)


def snap_meta(p):
    return (p.status, p.generated)


def sc_py(sc):
    return {"L": "L", "R": "R", "LR": ["L", "R"]}[sc]


def num(x):
    return float("-inf") if x == "-inf" else x


def mnum(x):
    return LOW if x == "-inf" else x


# =========================================================================== running a case


def ens_of(case, rng):
    tis = {"maxlength": case["maxlength"]}
    if case.get("allowmax"):
        tis["allowmaxlength"] = True
    if case.get("cap") is not None:
        tis["interface_cap"] = case["cap"]
    if case.get("njumps") is not None:
        tis["n_jumps"] = case["njumps"]
    # as read from the toml file: False when not in use, else a float (0.0 is a legal value)
    tis["lambda_minus_one"] = float(case["lm1"]) if case.get("lm1") is not None else False
    return {
        "interfaces": tuple(num(x) for x in case["intf"]), "tis_set": tis, "mc_move": case.get("move", "sh"),
        "ens_name": "001", "start_cond": sc_py(case["sc"]), "rgen": rng,
    }


def run_impl(case, scratch=None):
    """Run the real move.  Returns dict(answer=<canonical line>, ...objects for the oracle)."""
    import infretis.core.tis as tis
    old_fname = "old"
    if scratch and case["kind"] == "runmd":
        old_fname = os.path.join(scratch, "load", "old.lat")
    old = mk_old(case["old"], old_fname)
    rng = SRng(case["draws"])
    eng = engine(case["streams"], case["kicks"])
    ens = ens_of(case, rng)
    before, meta_before = snap_frames(old), snap_meta(old)
    res = {"old": old, "eng": eng, "rng": rng, "ens": ens}
    kind = case["kind"]
    try:
        if kind == "shoot":
            acc, trial, status = tis.shoot(ens, old, eng, start_cond=sc_py(case.get("param_sc", case["sc"])))
        elif kind == "wf":
            acc, trial, status = tis.wire_fencing(ens, old, eng, start_cond=sc_py(case.get("param_sc", case["sc"])))
        else:
            saved = tis.ENGINES
            tis.ENGINES = {"scripted": [eng]}
            try:
                picked = {case["ens_num"]: {"ens": ens, "traj": old, "pn_old": 7, "eng_idx": {"scripted": 0},
                                            "exe_dir": os.path.join(scratch, "exe") if scratch else None}}
                if kind == "sel":
                    acc, trials, status = tis.select_shoot(picked)
                    trial = trials[0]
                else:
                    md = {"picked": picked, "moves": [], "mc_moves": list(case["mvs"]), "trial_len": [], "trial_op": [],
                          "generated": [], "interfaces": list(case["intfs"]), "cap": case.get("capg")}
                    out = tis.run_md(md)
                    status = out["status"]
                    acc = status == "ACC"
                    kept = picked[case["ens_num"]]["traj"]
                    res["kept"] = kept
                    res["md"] = out
                    # the trial path is not returned by run_md: it is `kept` on ACC; otherwise
                    # only its length / generated are recorded
                    trial = kept if acc else None
            finally:
                tis.ENGINES = saved
    except AssertionError as e:
        res["exc"] = repr(e)
        res["answer"] = "0 AST" if "implausible" in str(e) else "0 ERR"
        res["acc"], res["status"], res["trial"] = False, "AST" if "implausible" in str(e) else "ERR", None
        res["old_same"] = snap_frames(old) == before
        res["meta_same"] = snap_meta(old) == meta_before
        return res
    except (IndexError, ZeroDivisionError, ValueError, RuntimeError, KeyError) as e:
        res["exc"] = repr(e)
        res["answer"] = "0 ERR"
        res["acc"], res["status"], res["trial"] = False, "ERR", None
        res["old_same"] = snap_frames(old) == before
        res["meta_same"] = snap_meta(old) == meta_before
        return res
    res["acc"], res["status"], res["trial"] = bool(acc), status, trial
    res["old_same"] = snap_frames(old) == before
    res["meta_same"] = snap_meta(old) == meta_before
    srcs = f"{len(rng.d)}:{len(eng.kicks)}:{max(0, len(eng.script) - eng.ncalls)}:{eng.ncalls}"
    if kind == "runmd":
        md = res["md"]
        w = kept.weights if acc else None
        wtxt = "N" if w is None else (",".join(str(int(x)) for x in w) if len(w) else "-")
        if acc:
            head = f"1 ACC {enc_path(kept)} {enc_gen(kept.generated)} {int(kept.weight)} {srcs}"
        else:
            head = f"0 {status} len={md['trial_len'][0]} {enc_gen(md['generated'][0])} {srcs}"
        res["answer"] = f"{head} | {enc_path(kept)} {wtxt}"
    else:
        res["answer"] = f"{int(bool(acc))} {status} {enc_path(trial)} {enc_gen(trial.generated)} {int(trial.weight)} {srcs}"
    return res


def enc_old(old):
    fr = [f"{o}:{i}:{int(bool(r))}" for i, (o, r) in enumerate(zip(old["orders"], old["revs"]))]
    return f"{','.join(fr) if fr else '-'}|{old['maxlen']}|{old['t0']}"


def enc_src(case):
    d = ",".join(common.qstr(Fr(x)) for x in case["draws"]) or "-"
    k = ",".join("N" if x is None else str(x) for x in case["kicks"]) or "-"
    st = ";".join((",".join(str(v) for v in s) or "-") for s in case["streams"]) or "_"
    return f"{d} {k} {st}"


def scbits(sc):
    return ("1" if "L" in sc else "0", "1" if "R" in sc else "0")


def enc_ens(case):
    i0, i1, i2 = (mnum(x) for x in case["intf"])
    l, r = scbits(case["sc"])
    cap = "N" if case.get("cap") is None else str(case["cap"])
    nj = 2 if case.get("njumps") is None else case["njumps"]
    return f"{i0},{i1},{i2},{l},{r},{case.get('move', 'sh')},{case['maxlength']},{int(bool(case.get('allowmax')))},{cap},{nj}"


def model_req(case, fx):
    kind = case["kind"]
    fxs = "1" if fx else "0"
    ld = int(bool(case["old"].get("ld")))
    if kind == "shoot":
        i0, i1, i2 = (mnum(x) for x in case["intf"])
        el, er = scbits(case["sc"])
        pl, pr = scbits(case.get("param_sc", case["sc"]))
        return (f"shoot {fxs} {i0} {i1} {i2} {el} {er} {case['maxlength']} {int(bool(case.get('allowmax')))} "
                f"{pl} {pr} {enc_old(case['old'])} {ld} {enc_src(case)}")
    if kind == "wf":
        pl, pr = scbits(case.get("param_sc", case["sc"]))
        return f"wf {fxs} {enc_ens(case)} {pl} {pr} {enc_old(case['old'])} {enc_src(case)}"
    if kind == "sel":
        return f"sel {fxs} {enc_ens(case)} {enc_old(case['old'])} {ld} {enc_src(case)}"
    intfs = ",".join(str(x) for x in case["intfs"]) or "-"
    mvs = ",".join(case["mvs"]) or "-"
    lm1 = "N" if case.get("lm1") is None else str(case["lm1"])
    capg = "N" if case.get("capg") is None else str(case["capg"])
    return (f"runmd {fxs} {enc_ens(case)} {enc_old(case['old'])} {ld} {enc_src(case)} {intfs} {mvs} {lm1} {capg} "
            f"{int(bool(case['minus']))}")


def canon_model(case, line):
    """Bring the model's runmd answer to the shape the implementation can expose."""
    if case["kind"] != "runmd" or " | " not in line:
        return line
    head, tail = line.split(" | ")
    t = head.split(" ")
    if t[0] == "1" or len(t) < 6:
        return line
    # rejected: run_md only records the trial's length and generated tuple
    nfr = 0 if t[2].split("|")[0] == "-" else len(t[2].split("|")[0].split(","))
    return f"0 {t[1]} len={nfr} {t[3]} {t[5]} | {tail}"


# =========================================================================== oracle


def first_exit(seq, left, right):
    for k, x in enumerate(seq):
        if x < left or x > right:
            return k
    return None


def letter(x, left, right):
    return "L" if x <= left else ("R" if x >= right else "?")


def own_weight(case, trial):
    """Own-ensemble entry of the REAL calc_cv_vector for a world consistent with the ensemble."""
    from infretis.core.tis import calc_cv_vector
    i0, i1, i2 = (num(x) for x in case["intf"])
    move = case.get("move", "sh")
    if "R" in case["sc"]:      # a [0-] type ensemble
        lm1 = i0 if (case["sc"] == "LR" and i0 != float("-inf")) else False
        return calc_cv_vector(trial, [i2, i2 + 10], ["sh", "sh"], lambda_minus_one=lm1, minus=True)[0]
    intfs = sorted({i0, i1, i2})
    if len(intfs) < 2:
        intfs = [i0, i0 + 10]
    own = intfs.index(i1) if i1 != intfs[-1] else None
    if own is None:
        return None
    moves = ["sh"] * (len(intfs) + 1)
    moves[own + 1] = move
    return calc_cv_vector(trial, intfs, moves, cap=case.get("cap"))[own]


def oracle_shoot(case, res):
    """The statement of C09 for one shooting move, evaluated on the implementation's output.
    Returns (error or None, info)."""
    old = case["old"]
    L = len(old["orders"])
    left, i1, right = (num(x) for x in case["intf"])
    S = set(case["sc"])
    P = set(case.get("param_sc", case["sc"]))
    acc, status, trial = res["acc"], res["status"], res["trial"]
    if status == "ERR":
        return None, "err"
    if acc != (status == "ACC"):
        return f"accept flag {acc} but status {status}", "flag"
    g = trial.generated
    if not (isinstance(g, tuple) and len(g) == 4 and g[0] == "sh"):
        return f"the trial path does not record a shooting move: generated = {g}", "idx"
    idx = int(g[2])
    if not 1 <= idx <= L - 2:
        return f"the shooting point (index {idx}) is an end point of the old path of length {L}", "idx"
    kick = case["kicks"][0] if case["kicks"] else None
    osp = kick if kick is not None else old["orders"][idx]
    kicked_out = not (left <= osp < right)
    unlimited = old.get("ld") or case.get("allowmax")
    r = None
    if not unlimited and not kicked_out:
        r = Fr(case["draws"][1])
    o = [int(s.order[0]) for s in trial.phasepoints]
    if acc:
        n = g[3]
        if kicked_out:
            return "accepted although the kick left the interfaces", "kob"
        if not ((o[0] < left or o[0] > right) and (o[-1] < left or o[-1] > right)):
            return f"(i) end points {o[0]}, {o[-1]} not outside [{left},{right}]", "i"
        if letter(o[0], left, right) not in P:
            return f"(i) start side {letter(o[0], left, right)} not in start_cond {sorted(P)}", "i"
        if "L" not in P and "L" in (letter(o[0], left, right), letter(o[-1], left, right)):
            return "(i) an end point is left although L is not allowed", "i"
        if any(not (left <= x <= right) for x in o[1:-1]):
            return f"(ii) an interior frame is outside: {o}", "ii"
        if S != {"L", "R"} and not (min(o) < i1 <= max(o)):
            return f"(iii) accepted path does not cross {i1}: {o}", "iii"
        if len(o) > case["maxlength"]:
            return f"(iv) length {len(o)} > maxlength {case['maxlength']}", "iv"
        if r is not None and len(o) > (Fr(L - 2) / r).__floor__() + 2:
            return f"(iv) length {len(o)} exceeds the drawn limit", "iv"
        if not (0 <= n < len(o)) or o[n] != osp or not trial.phasepoints[n].vel_rev:
            return f"(v) shooting point (order {osp}) not at index {n} of {o}", "v"
        b = [osp] + list(case["streams"][0])
        f = [osp] + list(case["streams"][1])
        nb, nf = n + 1, len(o) - n
        exp = list(reversed(b[:nb])) + f[1:nf]
        tags = [tag_of(s.config) for s in trial.phasepoints]
        exptags = [1000 + k for k in reversed(range(nb))] + [2000 + k for k in range(1, nf)]
        revs = [bool(s.vel_rev) for s in trial.phasepoints]
        if o != exp or tags != exptags or revs != [True] * nb + [False] * (nf - 1):
            return f"(vi) frames are not rev(backward) ++ tail(forward): {o} {tags}", "vi"
        w = own_weight(case, trial)
        if w is not None and not w > 0:
            return f"(vii) own-ensemble weight {w} is zero: {o}", "vii"
        if trial.weight != 1.0:
            return f"(vii) path weight attribute {trial.weight} != 1", "vii"
    # acceptance threshold, from the scripted trajectories alone
    info = "nothreshold"
    if r is not None and len(case["streams"]) >= 2:
        b = [osp] + list(case["streams"][0])
        f = [osp] + list(case["streams"][1])
        kb, kf = first_exit(b, left, right), first_exit(f, left, right)
        if kb is not None and kf is not None:
            lnew = kb + kf + 1
            full = list(reversed(b[:kb + 1])) + f[1:kf + 1]
            valid = letter(b[kb], left, right) in P
            if "L" not in P and "L" in (letter(full[0], left, right), letter(full[-1], left, right)):
                valid = False
            if S != {"L", "R"} and not (min(full) < i1 <= max(full)):
                valid = False
            if valid and lnew <= case["maxlength"]:
                exp_acc = r * (lnew - 2) <= (L - 2)
                info = "threshold_acc" if exp_acc else "threshold_rej"
                if r * (lnew - 2) == (L - 2):
                    info = "threshold_equal"
                if acc != exp_acc:
                    return (f"acceptance rule: L_old={L}, r={r}, L_new={lnew} (n_old/n_new={Fr(L - 2, lnew - 2)}): "
                            f"expected {'accept' if exp_acc else 'reject'}, move returned {status}"), "rule"
            elif acc:
                return f"accepted ({status}) although the unlimited trial is invalid or longer than maxlength", "rule"
    return None, info


def oracle_wf(case, res):
    left, i1, right = (num(x) for x in case["intf"])
    cap = case["cap"] if case.get("cap") is not None else right
    P = set(case.get("param_sc", case["sc"]))
    acc, status, trial = res["acc"], res["status"], res["trial"]
    if status == "ERR":
        return None, "err"
    if status == "AST":
        return "the final assertion of wire_fencing failed (implausible start)", "ast"
    if acc != (status == "ACC"):
        return f"accept flag {acc} but status {status}", "flag"
    if not acc:
        return None, "rej"
    o = [int(s.order[0]) for s in trial.phasepoints]
    if not len(o) < case["maxlength"]:
        return f"(iv) wf length {len(o)} >= maxlength {case['maxlength']}", "iv"
    if len(P) != 1 or letter(o[0], left, right) not in P:
        return f"(i) wf start side {letter(o[0], left, right)} vs start_cond {sorted(P)}", "i"
    if (left <= o[0] < right) or (left <= o[-1] < right):
        return f"(i) wf end points {o[0]}, {o[-1]} could still be extended", "i"
    if left <= i1 and cap <= right:
        if any(not (left <= x <= right) for x in o[1:-1]):
            return f"(ii) wf interior frame outside: {o}", "ii"
    if not (min(o) < i1 <= max(o)):
        return f"(iii) wf path does not cross {i1}: {o}", "iii"
    from infretis.core.tis import compute_weight
    w = compute_weight(trial, [left, i1, cap], "wf")
    if not w > 0:
        if cap in o:
            return None, "known_zero_weight_on_cap"
        return f"(vii) accepted wf path has weight {w}: {o}", "vii"
    return None, "acc"


# =========================================================================== generators

R_GRID_Q = [Fr(1, 2), Fr(1, 1), Fr(1, 3), Fr(2, 3), Fr(1, 4), Fr(3, 4), Fr(2, 5), Fr(99, 100)]


def float_exact(L, r):
    return int((L - 2) / float(r)) == (Fr(L - 2) / r).__floor__()


def u_for_idx(idx, L):
    """A uniform that makes integers(1, L-1) return idx."""
    return Fr(2 * (idx - 1) + 1, 2 * (L - 2))


SHOOT_CFG = [
    # intf, sc, inside alphabet, exit-left value, exit-right value
    {"intf": [1, 2, 3], "sc": "L", "inside": [1, 2, 3], "xl": 0, "xr": 4},
    {"intf": [1, 1, 3], "sc": "L", "inside": [1, 2, 3], "xl": 0, "xr": 4},
    {"intf": ["-inf", 3, 3], "sc": "R", "inside": [0, 1, 2, 3], "xl": None, "xr": 4},
    {"intf": [1, 2, 3], "sc": "LR", "inside": [1, 2, 3], "xl": 0, "xr": 4},
    {"intf": [1, 3, 3], "sc": "R", "inside": [1, 2, 3], "xl": 0, "xr": 4},
]


def valid_olds(cfg, L):
    """All old paths of length L over the alphabet that are valid for the ensemble."""
    left, i1, right = (num(x) for x in cfg["intf"])
    starts = [cfg["xl"]] if cfg["sc"] == "L" else ([cfg["xr"]] if cfg["sc"] == "R" else [cfg["xl"], cfg["xr"]])
    ends = [x for x in (cfg["xl"], cfg["xr"]) if x is not None]
    if cfg["sc"] == "R":
        ends = [cfg["xr"]]
    for s in starts:
        for mid in itertools.product(cfg["inside"], repeat=L - 2):
            for e in ends:
                o = (s,) + mid + (e,)
                if cfg["sc"] != "LR" and not (min(o) < i1 <= max(o)):
                    continue
                yield o


def stream_pattern(rng, cfg, length, side, cross_hi=True):
    """length-1 frames after the initial point: (length-2) inside values then the exit value;
    length None = never leaves (long inside run).  The trajectory then has `length` frames."""
    ins = cfg["inside"]
    if length is None:
        return [rng.choice(ins) for _ in range(80)]
    body = [rng.choice(ins) for _ in range(length - 2)]
    ex = cfg["xl"] if side == "L" else cfg["xr"]
    if ex is None:
        ex = cfg["xr"]
    return body + [ex]


def gen_shoot_grid(ctx, budget):
    """Exhaustive pattern grid on representative old paths: config x length x shooting order x
    flags x r x maxlength class x backward (length class, side) x forward (length class, side)."""
    rng = ctx.rng
    cases = []
    rgrid = R_GRID_Q[:5] if ctx.tier == "quick" else R_GRID_Q
    for ci, cfg in enumerate(SHOOT_CFG):
        for L in range(3, 8):
            olds = list(valid_olds(cfg, L))
            for osp in cfg["inside"]:
                cand = [(o, i) for o in olds for i in range(1, L - 1) if o[i] == osp]
                if not cand:
                    continue
                for flags in ("", "ld", "allow", "re"):
                    for r in (rgrid if flags in ("", "re") else [Fr(1, 2)]):
                        if not float_exact(L, r):
                            ctx.dist("float_boundary_skipped")
                            continue
                        drawn = (Fr(L - 2) / r).__floor__() + 2
                        for mlc in ("small", "exact", "large"):
                            for bl, bs, fl_, fs in itertools.product(("2", "3", "lim-1", "lim", "over"), "LR",
                                                                     ("2", "3", "lim-1", "lim", "over"), "LR"):
                                cases.append((ci, L, osp, flags, r, drawn, mlc, bl, bs, fl_, fs))
    if len(cases) > budget:
        # keep every boundary combination, subsample the rest
        bnd = [c for c in cases if c[7] in ("lim-1", "lim") or c[9] in ("lim-1", "lim")]
        rest = [c for c in cases if not (c[7] in ("lim-1", "lim") or c[9] in ("lim-1", "lim"))]
        if len(bnd) > budget * 3 // 4:
            bnd = rng.sample(bnd, budget * 3 // 4)
        rest = rng.sample(rest, max(0, min(len(rest), budget - len(bnd))))
        ctx.cov["shoot_grid_total"] = len(cases)
        cases = bnd + rest
    out = []
    for ci, L, osp, flags, r, drawn, mlc, bl, bs, fl_, fs in cases:
        cfg = SHOOT_CFG[ci]
        olds = [(o, i) for o in valid_olds(cfg, L) for i in range(1, L - 1) if o[i] == osp]
        o, idx = olds[rng.randrange(len(olds))]
        unlimited = flags in ("ld", "allow")
        # planned backward / forward lengths relative to the limits
        small = 5
        large = 60
        base = large if unlimited else min(drawn, large)

        def plan(ml):
            blim = ml - 1
            nb = {"2": 2, "3": 3, "lim-1": blim - 1, "lim": blim, "over": None}[bl]
            if nb is not None and nb < 2:
                nb = 2
            nbl = nb if nb is not None else blim
            flim = ml - nbl + 1
            nf = {"2": 2, "3": 3, "lim-1": flim - 1, "lim": flim, "over": None}[fl_]
            if nf is not None and nf < 2:
                nf = 2
            return nb, nf
        if mlc == "small":
            maxlength = small
        elif mlc == "large":
            maxlength = large
        else:
            nb, nf = plan(base)
            maxlength = (nb or base) + (nf or 3) - 1   # the planned trial hits maxlength exactly
            maxlength = max(2, min(maxlength, large))
        ml = maxlength if unlimited else min(drawn, maxlength)
        nb, nf = plan(ml)
        sb = stream_pattern(rng, cfg, nb, bs)
        sf = stream_pattern(rng, cfg, nf, fs)
        case = {"kind": "shoot", "intf": cfg["intf"], "sc": cfg["sc"], "maxlength": maxlength,
                "allowmax": flags == "allow",
                "old": {"orders": list(o), "revs": [rng.random() < 0.5 for _ in o], "maxlen": maxlength + 3,
                        "t0": rng.randrange(-3, 9), "ld": flags == "ld", "re": flags == "re"},
                "draws": [str(u_for_idx(idx, L))] + ([] if unlimited else [str(r)]),
                "kicks": [], "streams": [sb, sf], "class": "grid"}
        out.append(case)
    return out


def gen_shoot_allolds(ctx, per):
    """Every valid old path of length 3..7 of every configuration x every shooting index, each
    with `per` random trajectory patterns."""
    rng = ctx.rng
    out = []
    for cfg in SHOOT_CFG:
        for L in range(3, 8):
            for o in valid_olds(cfg, L):
                for idx in range(1, L - 1):
                    for _ in range(per):
                        r = rng.choice(R_GRID_Q)
                        if not float_exact(L, r):
                            ctx.dist("float_boundary_skipped")
                            continue
                        drawn = (Fr(L - 2) / r).__floor__() + 2
                        maxlength = rng.choice([4, 5, 6, drawn, drawn + 1, 40])
                        ml = min(drawn, maxlength)
                        nb = rng.choice([2, 3, max(2, ml - 2), max(2, ml - 1), None])
                        flim = ml - (nb or ml - 1) + 1
                        nf = rng.choice([2, 3, max(2, flim - 1), max(2, flim), None])
                        kicks = []
                        if rng.random() < 0.08:
                            kicks = [rng.choice([0, 1, 2, 3, 4])]
                        out.append({"kind": "shoot", "intf": cfg["intf"], "sc": cfg["sc"], "maxlength": maxlength,
                                    "allowmax": False,
                                    "old": {"orders": list(o), "revs": [rng.random() < 0.5 for _ in o],
                                            "maxlen": 50, "t0": rng.randrange(-3, 9), "ld": rng.random() < 0.1},
                                    "draws": [str(u_for_idx(idx, L)), str(r)], "kicks": kicks,
                                    "streams": [stream_pattern(rng, cfg, nb, rng.choice("LR")),
                                                stream_pattern(rng, cfg, nf, rng.choice("LR"))],
                                    "class": "allolds"})
    return out


def gen_shoot_misc(ctx):
    """Degenerate and hostile inputs: tiny limits, r = 0, missing draws/streams, short old paths,
    mismatching start_cond parameter, inverted interfaces."""
    rng = ctx.rng
    out = []
    cfg = SHOOT_CFG[0]
    for maxlength in (0, 1, 2, 3, 4):
        for o in ([0, 2, 0], [0, 2, 2, 4], [0, 1, 3, 2, 0]):
            for sb, sf in (([0], [4]), ([2, 0], [2, 4]), ([2, 2, 2, 2, 2, 2], [0]), ([0], [2, 2, 2, 2, 2, 2])):
                out.append({"kind": "shoot", "intf": cfg["intf"], "sc": "L", "maxlength": maxlength, "allowmax": False,
                            "old": {"orders": o, "revs": [False] * len(o), "maxlen": 10, "t0": 0, "ld": False},
                            "draws": ["0", "1/2"], "kicks": [], "streams": [sb, sf], "class": "misc"})
    base = {"kind": "shoot", "intf": [1, 2, 3], "sc": "L", "maxlength": 10, "allowmax": False,
            "old": {"orders": [0, 2, 2, 0], "revs": [False] * 4, "maxlen": 10, "t0": 0, "ld": False},
            "draws": ["1/2", "1/2"], "kicks": [], "streams": [[0], [2, 4]], "class": "misc"}
    for mod in ({"draws": ["1/2", "0"]}, {"draws": ["1/2"]}, {"draws": []}, {"streams": [[0]]}, {"streams": []},
                {"streams": [[2], [4]]}, {"intf": [3, 2, 1]}, {"param_sc": "R"}, {"param_sc": "LR"}, {"sc": "LR", "param_sc": "L"},
                {"kicks": [0]}, {"kicks": [3]}, {"kicks": [1]}, {"kicks": [None]}):
        c = json.loads(json.dumps(base))
        c.update(mod)
        out.append(c)
    for o in ([0], [0, 0], []):
        c = json.loads(json.dumps(base))
        c["old"] = {"orders": o, "revs": [False] * len(o), "maxlen": 10, "t0": 0, "ld": False}
        out.append(c)
    return out


def gen_shoot_random(ctx, n):
    rng = ctx.rng
    out = []
    while len(out) < n:
        left = rng.randrange(-10, 5)
        right = left + rng.randrange(1, 12)
        i1 = rng.randrange(left, right + 1)
        sc = rng.choice(["L", "L", "L", "R", "LR"])
        L = rng.randrange(3, 30)
        o = [rng.randrange(left, right + 1) for _ in range(L)]
        o[0] = left - rng.randrange(1, 3) if sc != "R" else right + 1
        o[-1] = rng.choice([left - 1, right + 2])
        q = rng.randrange(1, 12)
        r = Fr(rng.randrange(1, q + 1), q)
        if not float_exact(L, r):
            ctx.dist("float_boundary_skipped")
            continue
        drawn = (Fr(L - 2) / r).__floor__() + 2
        maxlength = rng.choice([drawn - 1, drawn, drawn + 1, rng.randrange(2, 60), 200])
        maxlength = max(2, maxlength)

        def walk():
            k = rng.choice([rng.randrange(0, 6), rng.randrange(0, 2 * drawn + 2), drawn, drawn - 1, drawn - 2, drawn // 2])
            k = max(0, k)
            return [rng.randrange(left, right + 1) for _ in range(k)] + [rng.choice([left - 1, right + 1, left - 7, right + 3])]
        out.append({"kind": "shoot", "intf": [left, i1, right], "sc": sc, "maxlength": maxlength,
                    "allowmax": rng.random() < 0.1,
                    "old": {"orders": o, "revs": [rng.random() < 0.5 for _ in o], "maxlen": L + 5,
                            "t0": rng.randrange(-100, 100), "ld": rng.random() < 0.1},
                    "draws": [str(Fr(rng.randrange(0, 64), 64)), str(r)],
                    "kicks": [rng.choice([None, None, None, rng.randrange(left - 2, right + 3)])],
                    "streams": [walk(), walk()], "class": "random"})
    return out


WF_CFG = [
    {"intf": [1, 1, 3], "cap": None, "alpha": [0, 1, 2, 3, 4], "maxL": 7},
    {"intf": [1, 2, 4], "cap": 3, "alpha": [0, 1, 2, 3, 4, 5], "maxL": 6},
    {"intf": [1, 2, 5], "cap": 4, "alpha": [0, 1, 2, 3, 4, 5, 6], "maxL": 5},
]


def wf_olds(cfg, L):
    left, i1, right = cfg["intf"]
    for mid in itertools.product([a for a in cfg["alpha"] if left <= a <= right], repeat=L - 2):
        for e in (left - 1, right + 1):
            o = (left - 1,) + mid + (e,)
            if min(o) < i1 <= max(o):
                yield o


def wf_stream(rng, cfg, maxlength):
    """A random walk over the alphabet; it ends with a value outside every interface or is
    longer than any limit, so the script is never exhausted."""
    left, i1, right = cfg["intf"]
    style = rng.random()
    if style < 0.45:
        k = rng.randrange(0, 3)
    elif style < 0.8:
        k = rng.randrange(0, maxlength + 2)
    else:
        k = maxlength + 3
    inside = [a for a in cfg["alpha"] if left <= a <= right]
    cap = cfg["cap"] if cfg["cap"] is not None else right
    seg_inside = [a for a in inside if i1 <= a <= cap]
    pool = inside if rng.random() < 0.5 else seg_inside
    body = [rng.choice(pool if rng.random() < 0.85 else cfg["alpha"]) for _ in range(k)]
    tail = [rng.choice([left - 1, right + 1, cap + 1 if cap + 1 <= right + 1 else right + 1, i1 - 1])]
    return body + tail + [rng.choice([left - 1, right + 1])]


def gen_wf(ctx, per, cfgs=WF_CFG):
    rng = ctx.rng
    out = []
    ugrid = [Fr(0), Fr(1, 4), Fr(1, 3), Fr(1, 2), Fr(2, 3), Fr(3, 4), Fr(99, 100), Fr(1)]
    for cfg in cfgs:
        for L in range(3, cfg["maxL"] + 1):
            for o in wf_olds(cfg, L):
                for _ in range(per):
                    nj = rng.choice([1, 2, 3])
                    maxlength = rng.choice([3, 4, 5, 6, 7, 8, 9, 10, 12, 30])
                    draws = [str(rng.choice(ugrid))] + [str(Fr(rng.randrange(0, 12), 12)) for _ in range(nj)]
                    kicks = []
                    if rng.random() < 0.1:
                        kicks = [rng.choice([None] + cfg["alpha"]) for _ in range(nj)]
                    sc = "L" if rng.random() < 0.9 else rng.choice(["R", "LR"])
                    out.append({"kind": "wf", "intf": cfg["intf"], "sc": sc, "move": "wf", "cap": cfg["cap"],
                                "njumps": nj if rng.random() < 0.9 or nj != 2 else None, "maxlength": maxlength,
                                "old": {"orders": list(o), "revs": [rng.random() < 0.5 for _ in o], "maxlen": L + rng.randrange(0, 3),
                                        "t0": rng.randrange(-3, 9), "ld": False},
                                "draws": draws, "kicks": kicks,
                                "streams": [wf_stream(rng, cfg, maxlength) for _ in range(2 * nj + 2)], "class": "wf_small"})
    return out


def gen_wf_random(ctx, n):
    rng = ctx.rng
    out = []
    for _ in range(n):
        left = rng.randrange(-6, 3)
        i1 = left + rng.randrange(0, 4)
        cap = i1 + rng.randrange(1, 5)
        right = cap + rng.randrange(0, 3)
        capv = None if (cap == right and rng.random() < 0.7) else cap
        alpha = list(range(left - 1, right + 2))
        cfg = {"intf": [left, i1, right], "cap": capv, "alpha": alpha}
        L = rng.randrange(3, 25)
        o = [left - 1] + [rng.randrange(left, right + 1) for _ in range(L - 2)] + [rng.choice([left - 1, right + 1])]
        nj = rng.choice([1, 2, 3, 4])
        maxlength = rng.choice([rng.randrange(3, 15), 40, 100])
        out.append({"kind": "wf", "intf": cfg["intf"], "sc": "L" if rng.random() < 0.9 else "R", "move": "wf", "cap": capv,
                    "njumps": nj, "maxlength": maxlength,
                    "old": {"orders": o, "revs": [rng.random() < 0.5 for _ in o], "maxlen": L + 2, "t0": rng.randrange(-50, 50), "ld": False},
                    "draws": [str(Fr(rng.randrange(0, 17), 16))] + [str(Fr(rng.randrange(0, 32), 32)) for _ in range(nj)],
                    "kicks": [rng.choice([None, None, None, rng.randrange(left - 1, right + 2)]) for _ in range(nj)],
                    "streams": [wf_stream(rng, cfg, maxlength) for _ in range(2 * nj + 2)], "class": "wf_random"})
    return out


# [0-] ensembles of permeability set-ups, as REPEX_state.initiate_ensembles builds them:
# interfaces (lambda_-1, (lambda_-1 + lambda_0)/2, lambda_0), start_cond ['L', 'R'].  lambda_-1 = 0.0 is a legal
# value (check_config only asks lambda_-1 < lambda_0).  lm1 None: lambda_minus_one not in use,
# interfaces (-inf, lambda_0, lambda_0), start_cond 'R'.
PERM_SETUPS = [(0, 2), (0, 4), (-2, 2), (-4, -2), (1, 3), (2, 6), (None, 3), (None, 0), (None, -2)]


def perm_cfg(lm1, lam0):
    if lm1 is None:
        return {"intf": ["-inf", lam0, lam0], "sc": "R", "inside": [lam0 - 2, lam0 - 1, lam0], "xl": None, "xr": lam0 + 1}
    # the stop rule is strict (< lambda_-1, > lambda_0): frames ON either interface are inside
    return {"intf": [lm1, (lm1 + lam0) // 2, lam0], "sc": "LR", "inside": list(range(lm1, lam0 + 1)), "xl": lm1 - 1, "xr": lam0 + 1}


def gen_perm(ctx, per_long):
    """The real run_md -> select_shoot -> shoot chain for [0-] moves: every set-up of PERM_SETUPS x every valid
    old path of length 3..5 x every shooting index x backward / forward trajectories of 2 or 3 frames leaving
    on either side (so that L->L, L->R, R->L and R->R trial paths all occur, with and without reaching
    lambda_0, with frames on the interfaces).  All 16 patterns for short old paths, `per_long` random ones
    for the others."""
    rng = ctx.rng
    out = []
    pats = list(itertools.product((2, 3), "LR", (2, 3), "LR"))
    for lm1, lam0 in PERM_SETUPS:
        cfg = perm_cfg(lm1, lam0)
        wide = len(cfg["inside"]) > 3
        for L in range(3, 6):
            for o in valid_olds(cfg, L):
                for idx in range(1, L - 1):
                    full = L == 3 or (L == 4 and not wide)
                    for nb, bs, nf, fs in (pats if full else rng.sample(pats, per_long)):
                        r = Fr(1, 2) if full else rng.choice([Fr(1, 2), Fr(1, 1), Fr(1, 4)])
                        c = {"kind": "shoot", "intf": cfg["intf"], "sc": cfg["sc"], "maxlength": rng.choice([6, 7, 40]),
                             "allowmax": False,
                             "old": {"orders": list(o), "revs": [rng.random() < 0.5 for _ in o], "maxlen": 50,
                                     "t0": rng.randrange(-3, 9), "ld": False},
                             "draws": [str(u_for_idx(idx, L)), str(r)], "kicks": [],
                             "streams": [stream_pattern(rng, cfg, nb, bs), stream_pattern(rng, cfg, nf, fs)],
                             "class": "perm_lm1_" + ("absent" if lm1 is None else "zero" if lm1 == 0 else "negative" if lm1 < 0 else "positive")}
                        out.append(to_runmd(ctx, c, "runmd" if rng.random() < 0.85 else "sel"))
    return out


def to_runmd(ctx, case, kind):
    """Wrap a shoot / wf case into a select_shoot or run_md case with a consistent world."""
    rng = ctx.rng
    c = json.loads(json.dumps(case))
    c["kind"] = kind
    c.pop("param_sc", None)
    i0, i1, i2 = c["intf"]
    c["move"] = c.get("move", "sh")
    if "R" in c["sc"]:
        c["ens_num"] = -1
        c["minus"] = True
        c["intfs"] = [i2, i2 + 5]
        c["mvs"] = ["sh", "sh", "sh"]
        c["lm1"] = i0 if (c["sc"] == "LR" and i0 != "-inf") else None
        c["capg"] = None
    else:
        intfs = sorted({i0, i1, i2})
        if len(intfs) < 2:
            intfs = [i0, i0 + 5]
        own = intfs.index(i1)
        if own == len(intfs) - 1:
            # the real program has no [i+] ensemble for the last interface (its weight entry is the
            # constant 0.0): give the world one more interface so that the ensemble exists
            intfs.append(intfs[-1] + 5)
        c["ens_num"] = own
        c["minus"] = False
        c["intfs"] = intfs
        c["mvs"] = ["sh"] + [rng.choice(["sh", "wf"]) for _ in intfs]
        if own + 1 < len(c["mvs"]):
            c["mvs"][own + 1] = c["move"]
        c["lm1"] = None
        c["capg"] = c.get("cap")
    return c


# =========================================================================== run


WITNESS = {"kind": "shoot", "intf": [1, 3, 4], "sc": "L", "maxlength": 100, "allowmax": False,
           "old": {"orders": [0, 2, 2, 2, 2, 2, 0], "revs": [False] * 7, "maxlen": 100, "t0": 0, "ld": False},
           "draws": ["0", "1/2"], "kicks": [], "streams": [[0], [2] * 9 + [5]], "class": "L11_witness"}


# the Coq witness of C09_wire_fencing_weight_on_cap_refuted, replayed on the implementation in every run
ZW_WITNESS = {"kind": "wf", "intf": [1, 2, 5], "sc": "L", "move": "wf", "cap": 3, "njumps": 1, "maxlength": 20,
              "old": {"orders": [0, 2, 0], "revs": [False] * 3, "maxlen": 20, "t0": 0, "ld": False},
              "draws": ["0", "0"], "kicks": [], "streams": [[3, 1], [4], [0], [6]], "class": "zero_weight_witness"}

KNOWN_ZERO_WEIGHT = ("accepted wire-fencing path with wire-fencing weight 0: it contains a frame exactly on interface_cap, reached by a "
                     "jump from below lambda_i (add_to_path treats o == cap as inside, wirefence_weight_and_pick as outside); "
                     "witness interfaces (1,2,5), cap 3, accepted path 0 1 3 2 4 6 (theorem C09_wire_fencing_weight_on_cap_refuted)")


def detect_variant():
    """Which add_to_path does the tree exhibit?  True = repaired rule."""
    res = run_impl(WITNESS)
    return res["status"] == "ACC", res


def oracle_runmd(case, res, scratch, dist=None):
    """The statement of C09 for one run_md call (the real run_md -> select_shoot -> move chain): the path is
    replaced iff the status is ACC, the installed path carries calc_cv_vector's weights and has NON-ZERO
    weight in its own ensemble, the old path's file is untouched.  Returns (error or None, info)."""
    err, info = None, ""
    kept, old = res["kept"], res["old"]
    if res["status"] != "ACC" and kept is not old:
        err = f"run_md replaced the path although the status is {res['status']}"
    elif res["status"] == "ACC":
        from infretis.core.tis import calc_cv_vector
        if kept is old:
            err = "run_md kept the old path although the move was accepted"
        else:
            expw = calc_cv_vector(kept, case["intfs"], case["mvs"], float(case["lm1"]) if case["lm1"] is not None else False,
                                  cap=case.get("capg"), minus=case["minus"])
            if tuple(kept.weights) != tuple(expw):
                err = f"weights {kept.weights} are not calc_cv_vector of the new path {expw}"
            own = 0 if case["minus"] else case["ens_num"]
            ko = [int(s.order[0]) for s in kept.phasepoints]
            if case["minus"] and dist:
                left, right = num(case["intf"][0]), num(case["intf"][2])
                dist(f"runmd_minus_ACC:{case['class']}:{letter(ko[0], left, right)}->{letter(ko[-1], left, right)}"
                     f":{'reaches' if max(ko) >= right else 'below'}_lambda0")
            if err is None and not kept.weights[own] > 0:
                if case["move"] == "wf" and (case["cap"] if case.get("cap") is not None else case["intf"][2]) in ko:
                    info = "known_zero_weight_on_cap"
                else:
                    err = (f"(vii) status ACC, run_md installed the new path, but its weight in its own ensemble is zero: weights {kept.weights}, "
                           f"path {ko}, ensemble {'[0-]' if case['minus'] else case['ens_num']} interfaces {case['intf']} "
                           f"start_cond {case['sc']}, lambda_minus_one = {res['ens']['tis_set']['lambda_minus_one']!r}")
    if scratch and err is None:
        f = os.path.join(scratch, "load", "old.lat")
        if not os.path.exists(f) or open(f).read() != OLD_FILE_TEXT:
            err = "the old path's file was modified or removed by the move"
    return err, info


def evaluate(ctx, cases, runner, fx, scratch):
    reqs = [model_req(c, fx) for c in cases]
    outs = runner.run(reqs)
    stats = {"corr_fail": 0, "oracle_fail": 0, "untouched_fail": 0}
    for case, req, mo in zip(cases, reqs, outs):
        res = run_impl(case, scratch)
        mo = canon_model(case, mo)
        io = res["answer"]
        kind = case["kind"]
        err, info = (None, "")
        if kind == "shoot":
            err, info = oracle_shoot(case, res)
        elif kind == "wf":
            err, info = oracle_wf(case, res)
        elif kind == "sel":
            if res["status"] not in ("ERR", "AST"):
                err, info = (oracle_shoot if case["move"] == "sh" else oracle_wf)(case, res)
        elif kind == "runmd" and res["status"] not in ("ERR", "AST"):
            err, info = oracle_runmd(case, res, scratch, ctx.dist)
        nontriv = res["status"] != "ERR"
        ctx.count(req, nontrivial=nontriv)
        ctx.dist(f"{kind}:{res['status']}")
        if info:
            ctx.dist(f"oracle:{info}")
        payload = {"case": case, "impl": io, "model": mo, "request": req, "variant_fx": fx}
        if info == "known_zero_weight_on_cap":
            # reported as a known finding only while known_findings.json lists it
            if any("property=C09" in k and "interface_cap" in k for k in common.load_findings().get("known", [])):
                ctx.known(KNOWN_ZERO_WEIGHT)
            elif stats.get("cap_viol", 0) < 2:
                stats["cap_viol"] = stats.get("cap_viol", 0) + 1
                ctx.violation("C09 statement fails on the implementation: " + KNOWN_ZERO_WEIGHT, payload, True)
        if not res["old_same"]:
            stats["untouched_fail"] += 1
            if stats["untouched_fail"] <= 3:
                ctx.violation(f"C09: the old path object was modified by a {kind} move with status {res['status']}", payload, True)
        if not res["meta_same"]:
            ctx.dist("observation:old_path_status_or_generated_rewritten")
        if err:
            stats["oracle_fail"] += 1
            if stats["oracle_fail"] <= 4:
                ctx.violation(f"C09 statement fails on the implementation: {err}", payload, True)
        elif mo != io:
            stats["corr_fail"] += 1
            if stats["corr_fail"] <= 3:
                ctx.violation(f"correspondence model/implementation broken for {kind} (property oracle found no failing input on this case)",
                              dict(payload, correspondence="c09 runner vs infretis.core.tis"), False)
    return stats, list(zip(reqs, outs))


OLD_FILE_TEXT = "frames of the old path\n"


def check_real_generator(ctx):
    """numpy's contract for the shooting index, sampled on the real generator through the real
    Path.get_shooting_point."""
    import numpy as np
    rg = np.random.default_rng(ctx.seed)
    n = 0
    for L in range(3, 12):
        p = mk_old({"orders": [0] * L, "revs": [False] * L, "maxlen": 20, "t0": 0})
        seen = set()
        for _ in range(300 if ctx.tier == "quick" else 3000):
            sp, idx = p.get_shooting_point(rg)
            n += 1
            seen.add(int(idx))
            if not (1 <= idx <= L - 2) or sp is not p.phasepoints[idx]:
                ctx.violation(f"C09: get_shooting_point returned index {idx} for a path of length {L}",
                              {"case": {"kind": "get_shooting_point", "L": L, "seed": ctx.seed}}, True)
                return n
        if L <= 8 and seen != set(range(1, L - 1)):
            ctx.violation("harness: the real generator did not reach every interior index", {"L": L, "seen": sorted(seen)}, False)
    ctx.count(("get_shooting_point", ctx.seed), n=n)
    ctx.dist("real_generator_index_draws", n)
    return n


def check_add_to_path(ctx, runner, fx):
    """EngineBase.add_to_path itself against add_to_path_g fx (and, for the current rule,
    against EngineM.add_to_path): all paths over the alphabet up to length 3, every limit."""
    from infretis.classes.engines.enginebase import EngineBase
    from infretis.classes.path import Path
    from infretis.classes.system import System
    reqs, exp = [], []
    for n in range(0, 4):
        for o in itertools.product(range(5), repeat=n):
            for f in range(5):
                for ml in range(0, n + 3):
                    p = mk_old({"orders": list(o), "revs": [False] * n, "maxlen": ml, "t0": 0})
                    s = System()
                    s.order = [float(f)]
                    s.config = ("old", 99)
                    try:
                        _, success, stop, add = EngineBase.add_to_path(p, s, 1, 3)
                        ans = f"{enc_path(p)} {int(success)} {int(stop)} {int(add)}"
                    except IndexError:
                        ans = "ERR"
                    po = enc_old({"orders": list(o), "revs": [False] * n, "maxlen": ml, "t0": 0})
                    reqs.append(f"atp {int(fx)} {po} {f}:99:0 1 3")
                    exp.append(ans)
                    if not fx:
                        reqs.append(f"atp E {po} {f}:99:0 1 3")
                        exp.append(ans)
    outs = runner.run(reqs)
    bad = [(r, o, e) for r, o, e in zip(reqs, outs, exp) if o != e]
    for r in reqs:
        ctx.count(r)
    ctx.dist("add_to_path", len(reqs))
    if bad:
        ctx.violation("correspondence model/implementation broken for add_to_path", {"request": bad[0][0], "model": bad[0][1], "impl": bad[0][2]}, False)
    return len(reqs), len(bad)


# =========================================================================== zero swap (oracle only)


def swap_case_paths(L0, LN):
    """Valid [0-] / [0+] old paths over a small alphabet (lambda_0 = L0, lambda_N = LN)."""
    minus, plus = [], []
    for n in (3, 4, 5):
        for mid in itertools.product([L0 - 2, L0 - 1, L0], repeat=n - 2):
            minus.append((L0 + 1,) + mid + (L0 + 1,))
        for mid in itertools.product([L0, L0 + 1, LN], repeat=n - 2):
            for e in (L0 - 1, LN + 1):
                plus.append((L0 - 1,) + mid + (e,))
    return minus, plus


def run_swap(case):
    import infretis.core.tis as tis
    L0, LN, M = case["L0"], case["LN"], case["maxlength"]
    old0 = mk_old({"orders": case["old0"], "revs": [False] * len(case["old0"]), "maxlen": M, "t0": 0}, "oldm")
    old1 = mk_old({"orders": case["old1"], "revs": [False] * len(case["old1"]), "maxlen": M, "t0": 0}, "oldp")
    eng = engine(case["streams"], [])
    rng = SRng([])
    ens0 = {"interfaces": (float("-inf"), L0, L0), "tis_set": {"maxlength": M}, "mc_move": "sh", "ens_name": "000",
            "start_cond": "R", "rgen": rng}
    ens1 = {"interfaces": (L0, L0, LN), "tis_set": {"maxlength": M}, "mc_move": "sh", "ens_name": "001",
            "start_cond": "L", "rgen": rng}
    picked = {-1: {"ens": ens0, "traj": old0}, 0: {"ens": ens1, "traj": old1}}
    b0, b1 = snap_frames(old0), snap_frames(old1)
    try:
        acc, (p0, p1), status = tis.retis_swap_zero(picked, {-1: [eng], 0: [eng]})
    except RuntimeError:          # script exhausted: not a case
        return None
    return {"acc": bool(acc), "status": status, "p0": p0, "p1": p1,
            "same": snap_frames(old0) == b0 and snap_frames(old1) == b1, "old0": old0, "old1": old1}


def oracle_swap(case, res):
    from infretis.core.tis import calc_cv_vector
    L0, LN, M = case["L0"], case["LN"], case["maxlength"]
    if res["acc"] != (res["status"] == "ACC"):
        return f"zero swap: accept flag {res['acc']} but status {res['status']}"
    if not res["same"]:
        return f"zero swap ({res['status']}): an old path object was modified"
    if not res["acc"]:
        return None
    o0 = [int(s.order[0]) for s in res["p0"].phasepoints]
    o1 = [int(s.order[0]) for s in res["p1"].phasepoints]
    if not (3 <= len(o0) < M and 3 <= len(o1) < M):
        return f"zero swap: accepted lengths {len(o0)}, {len(o1)} outside [3, {M})"
    # [0-]: starts and ends right of lambda_0 (code's classification >=), interior not right of it
    if not (o0[0] >= L0 and o0[-1] >= L0) or any(x > L0 for x in o0[1:-1]):
        return f"zero swap: new [0-] path {o0} is not R..R around {L0}"
    # [0+]: starts left (<=), ends outside [lambda_0, lambda_N] by the stop rule, interior inside
    if not (o1[0] <= L0 and (o1[-1] < L0 or o1[-1] > LN)) or any(not (L0 <= x <= LN) for x in o1[1:-1]):
        return f"zero swap: new [0+] path {o1} does not belong to [{L0}, {LN}]"
    # the exchanged crossing frames
    if o0[-2:] != list(case["old1"][:2]) or o1[:2] != list(case["old0"][-2:]):
        return f"zero swap: crossing frames not exchanged: {o0} / {o1}"
    w0 = calc_cv_vector(res["p0"], [L0, LN], ["sh", "sh", "sh"], minus=True)[0]
    w1 = calc_cv_vector(res["p1"], [L0, LN], ["sh", "sh", "sh"])[0]
    if not (w0 > 0 and w1 > 0):
        return f"zero swap: own-ensemble weights {w0}, {w1} of the accepted paths"
    return None


def check_zero_swap(ctx):
    """retis_swap_zero against the statement of C09 (no model here: C11 owns the swap model).
    maxlength is the same for both ensembles, as in the real program (one global tis_set)."""
    rng = ctx.rng
    L0, LN = 2, 4
    minus, plus = swap_case_paths(L0, LN)
    per = 1 if ctx.tier == "quick" else 8
    n = bad = 0
    for old0 in minus:
        for old1 in plus:
            for _ in range(per):
                M = rng.choice([3, 4, 5, 6, 8, 30])
                kb, kf = rng.randrange(0, 7), rng.randrange(0, 7)
                sb = [rng.choice([L0 - 2, L0 - 1, L0]) for _ in range(kb)] + [L0 + 1] + [L0 + 1] * 2
                sf = [rng.choice([L0, L0 + 1, LN]) for _ in range(kf)] + [rng.choice([L0 - 1, LN + 1])] * 3
                case = {"kind": "swap0", "L0": L0, "LN": LN, "maxlength": M, "old0": list(old0), "old1": list(old1),
                        "streams": [sb, sf]}
                res = run_swap(case)
                if res is None:
                    continue
                n += 1
                ctx.count(("swap0", old0, old1, M, tuple(sb), tuple(sf)))
                ctx.dist(f"swap0:{res['status']}")
                err = oracle_swap(case, res)
                if err:
                    bad += 1
                    if bad <= 3:
                        ctx.violation(f"C09 statement fails on the implementation: {err}", {"case": case}, True)
    return n, bad


def coqchk_stage(ctx):
    """Thorough tier: independent re-check of the compiled closure of theorems/C09.vo with coqchk."""
    cmd = ["timeout", "900", "coqchk", "-silent", "-o", "-Q", ".", "Inf", "Inf.theorems.C09"]
    # read-only on the .vo files: first without the build lock (other checks may be building);
    # if a concurrent rebuild disturbed it, once more under the lock
    rc, out, err = common.sh(cmd, cwd=common.COQ, timeout=1000)
    if rc != 0:
        with common.build_lock():
            rc, out, err = common.sh(cmd, cwd=common.COQ, timeout=1000)
    txt = out + err
    import re
    m = re.search(r"\* Axioms:\s*(.*?)\n\s*\n", txt, re.S)
    axioms = m.group(1).strip() if m else "<not reported>"
    ctx.cov["coqchk"] = {"cmd": "cd /verif/coq && coqchk -silent -o -Q . Inf Inf.theorems.C09", "rc": rc, "axioms": axioms}
    if rc != 0 or axioms != "<none>":
        ctx.violation("coqchk does not accept the compiled closure of theorems/C09.vo without axioms",
                      {"obligation": "coqchk Inf.theorems.C09", "rc": rc, "axioms": axioms, "log_tail": txt[-1500:]}, False)
    else:
        ctx.cov["trusted_base"] += ["thorough tier: coqchk re-checked the .vo closure of theorems/C09 (Axioms: <none>)"]


def run(ctx):
    common.proof_stage(ctx, "C09", ["extract/c09.vo"])
    runner = common.runner_stage(ctx, "c09")
    if runner is None:
        return
    if ctx.tier != "quick":
        coqchk_stage(ctx)
    import logging
    logging.disable(logging.CRITICAL)
    quick = ctx.tier == "quick"
    scratch = common.scratch_dir("infv_c09_")
    try:
        os.makedirs(os.path.join(scratch, "load"))
        os.makedirs(os.path.join(scratch, "exe"))
        with open(os.path.join(scratch, "load", "old.lat"), "w") as f:
            f.write(OLD_FILE_TEXT)

        fx, wres = detect_variant()
        ctx.cov["add_to_path_variant"] = "repaired (and not success)" if fx else "current (crossing frame == maxlen-th frame reported as failure)"

        cases = [WITNESS, ZW_WITNESS]
        cases += gen_shoot_misc(ctx)
        cases += gen_shoot_grid(ctx, 14000 if quick else 170000)
        cases += gen_shoot_allolds(ctx, 1 if quick else 10)
        cases += gen_shoot_random(ctx, 1500 if quick else 40000)
        cases += gen_wf(ctx, 2 if quick else 24)
        cases += gen_wf_random(ctx, 1500 if quick else 40000)
        cases += gen_perm(ctx, 2 if quick else 12)
        base = [c for c in cases if c["class"] in ("allolds", "wf_small", "random", "wf_random")]
        pick = ctx.rng.sample(base, min(len(base), 600 if quick else 12000))
        wrapped = []
        for i, c in enumerate(pick):
            wrapped.append(to_runmd(ctx, c, "sel" if i % 3 == 0 else "runmd"))
        cases += wrapped

        stats, pairs = evaluate(ctx, cases, runner, fx, scratch)
        n_atp, bad_atp = check_add_to_path(ctx, runner, fx)
        n_idx = check_real_generator(ctx)
        n_swap, bad_swap = check_zero_swap(ctx)
    finally:
        logging.disable(logging.NOTSET)
        common.rmtree(scratch)

    for k in (0, len(pairs) // 4, len(pairs) // 2, (3 * len(pairs)) // 4, len(pairs) - 1):
        ctx.sample({"request": pairs[k][0], "model": pairs[k][1]})
    byclass = {}
    for c in cases:
        byclass[c["class"] + ":" + c["kind"]] = byclass.get(c["class"] + ":" + c["kind"], 0) + 1
    ctx.cov["cases_by_class"] = byclass
    ctx.cov["rule"] = (
        "scripted-oracle lock-step on the real shoot / wire_fencing / select_shoot / run_md. Shooting: pattern grid = 5 ensemble "
        "types ([i+], [0+], [0-] with -inf, [0-] with lambda_-1, finite-left R ensemble) x old length 3..7 x shooting order x "
        "{normal, 'ld', allowmaxlength} x r grid x maxlength in {small, exact-hit, large} x backward/forward trajectory of length "
        "{2, 3, limit-1 (one short), limit (exact hit), never ends} x exit side (boundary combinations kept, the rest subsampled to "
        "the tier's budget); EVERY valid old path of length 3..7 over the 5-letter alphabet x every shooting index with random "
        "patterns; hostile inputs (limits 0..4, r = 0, missing draws/streams, short paths, inverted interfaces, kicks); seeded "
        "random larger cases. Wire fencing: every valid old path (alphabet incl. values equal to each interface / the cap) of "
        "length 3..7 x n_jumps 1..3 x maxlength 3..30 x pick/index draws on a grid x random streams that end or run into the "
        "limit; random larger cases. Permeability: run_md chain for [0-] with lambda_minus_one in {0.0, negative, positive, absent} "
        "(9 set-ups) x every valid old path of length 3..5 x every shooting index x 2-3 frame trajectories leaving on either "
        "side (all 16 patterns for short old paths, random ones beyond), oracle ACC => non-zero own weight. Zero swap (oracle only): every pair of valid [0-] x [0+] old paths of length 3..5 over a "
        "3-letter interior alphabet x random limits and trajectories. A case is distinct by its request line; non-trivial = the "
        "move did not raise.")
    ctx.cov["correspondence"] = {"compared": len(cases) + n_atp, "disagreements": stats["corr_fail"] + bad_atp,
                                 "oracle_failures": stats["oracle_fail"], "old_path_modified": stats["untouched_fail"],
                                 "real_generator_index_draws": n_idx,
                                 "zero_swap_oracle_cases": n_swap, "zero_swap_oracle_failures": bad_swap}
    ctx.cov["observations"] = [
        "wire_fencing rewrites status ('NSG') and generated of the OLD path object when no jump succeeds (frames untouched)",
        "subt_acceptance sets trial.weight before Path.reverse, which does not carry it over: a reversed accepted wf path has weight attribute 0.0 (attribute unused elsewhere)",
        "with the repaired stop rule shoot can accept a path of length == maxlength while extender rejects length >= maxlength (FTX) and shoot_backwards reports BTX from maxlength-1",
    ]
    ctx.cov["trusted_base"] += ["extraction: ExtrOcamlBasic only; ocaml/util.ml + ocaml/c09_driver.ml",
                                "py/checks/c09.py (scripted generator, generators, encoders, oracle); py/plugins/engines.ScriptedEngine"]
    ctx.assumptions += ["engine honours the propagate contract: frames are offered to add_to_path one by one, starting with the initial point (C12)",
                        "numpy Generator.integers(a,b) returns a value in [a,b) (sampled, not proved); random() in [0,1)",
                        "orders are integer-valued floats (exact comparisons); int((L-2)/r) float-exact on the draw grid (others skipped and counted)",
                        "velocity-independent order parameter in Path.reverse (order_function None)"]


def replay(doc):
    import logging
    logging.disable(logging.CRITICAL)
    print(json.dumps(doc, indent=1)[:4000])
    rp = doc.get("replay", {})
    case = rp.get("case")
    if not case or "kind" not in case or case["kind"] == "get_shooting_point":
        return 0
    if case["kind"] == "swap0":
        res = run_swap(case)
        err = oracle_swap(case, res) if res else "script exhausted"
        if res:
            print("implementation now answers:", res["acc"], res["status"],
                  [int(s.order[0]) for s in res["p0"].phasepoints], [int(s.order[0]) for s in res["p1"].phasepoints])
        print("property oracle:", err or "holds on this input")
        return 1 if err else 0
    scratch = common.scratch_dir("infv_c09_")
    try:
        os.makedirs(os.path.join(scratch, "load"))
        os.makedirs(os.path.join(scratch, "exe"))
        with open(os.path.join(scratch, "load", "old.lat"), "w") as f:
            f.write(OLD_FILE_TEXT)
        res = run_impl(case, scratch)
    finally:
        common.rmtree(scratch)
    print("implementation now answers:", res["answer"], res.get("exc", ""))
    r = common.Runner("c09")
    for fx in (True, False):
        print(f"model (fx={int(fx)}) answers:", canon_model(case, r.run([model_req(case, fx)])[0]))
    err = None
    if case["kind"] == "shoot":
        err, _ = oracle_shoot(case, res)
    elif case["kind"] == "wf":
        err, info = oracle_wf(case, res)
        if info == "known_zero_weight_on_cap":
            print("KNOWN-FINDING: property=C09", KNOWN_ZERO_WEIGHT)
    elif case["kind"] == "sel" and res["status"] not in ("ERR", "AST"):
        err, info = (oracle_shoot if case["move"] == "sh" else oracle_wf)(case, res)
        if info == "known_zero_weight_on_cap":
            print("KNOWN-FINDING: property=C09", KNOWN_ZERO_WEIGHT)
    elif case["kind"] == "runmd" and res["status"] not in ("ERR", "AST"):
        err, info = oracle_runmd(case, res, None)      # the scratch directory is gone: the file clause is not replayed
        if info == "known_zero_weight_on_cap":
            print("KNOWN-FINDING: property=C09", KNOWN_ZERO_WEIGHT)
    print("property oracle:", err or "holds on this input")
    if not res["old_same"]:
        print("old path object was modified")
    return 1 if (err or not res["old_same"]) else 0
