"""C10 — wire-fencing weights are exact, symmetric and drive segment choice.

Theorems: coq/theorems/C10.v (model coq/model/WeightM.v, independent specification
coq/spec/WeightS.v, proofs coq/proofs/WeightP.v).  Tie: functional lock-step of the real
infretis.core.tis.wirefence_weight_and_pick / compute_weight / calc_cv_vector /
high_acc_swap against the extracted model on all order sequences over a 5-letter alphabet
(exhaustive small scope, several (left, right) orderings) plus seeded random real-valued
paths.  Oracle: the property's statement evaluated on the implementation's results by a
brute-force enumeration of the declaratively valid sub-paths (written from the definition,
not from the scan), time-reversal invariance, positivity, the doubling rule, the shape of
the weight vector and the interval law of the segment choice.
"""
import importlib.util  # noqa: F401
import itertools
import logging
import math
from fractions import Fraction

import common

META = {
    "id": "C10",
    "level": "proof",
    "technique": "Coq: literal five-branch scan proved equal to an independent structurally recursive specification and to the declarative definition of valid sub-paths (simulation with loop invariant), corollaries by NoDup/Permutation; exhaustive small-scope lock-step of the extracted model (and extracted spec) vs the real tis.py functions",
    "text": "Unbounded theorems (every order sequence, every left/right pair incl. left = right and left > right, every move assignment, every random number): the scan returns exactly the valid sub-paths (entry, exit, interior count) in order; weight = number of frames strictly inside valid sub-paths, positive iff such a frame exists, 0 for an empty region, invariant under time reversal (mirrored segments); compute_weight doubles exactly when the ends are on different outer sides and the move is wf/ss; calc_cv_vector has one entry per interface, last 0, 1/0 by lambda_k <= max for non-wf columns, (1,)/(0,) for [0-]; segment k is chosen iff c_{k-1}/n < u <= c_k/n (interval length len_k/n), the choice is a valid sub-path and the seed consists of frames entry..exit inclusive; p_swap = c1n*c2n/(c1o*c2o) (1 if a denominator is 0). The model is tied to /repo by running model, extracted spec and the real functions on the same inputs and by evaluating the statement on the implementation's outputs.",
    "note": "All theorems print 'Closed under the global context' (no axioms). Trusted: Coq kernel; extraction (ExtrOcamlBasic) + ocaml/util.ml + ocaml/c10_driver.ml (the 'has' command composes four compute_weight calls in the driver); the Python harness, its generators and its brute-force oracle. Floats: exhaustive cases use integer-valued orders; random real-valued cases are passed to the model as exact dyadic rationals scaled to integers; the float quotient sum_frames/n_frames (and c1n*c2n/(c1o*c2o)) is compared with the model's exact rational only at float neighbours of a boundary or at exactly representable boundaries, other exact-boundary values are counted as float_boundary_skipped. The uniform law of rgen.random() is assumed (the theorem gives the interval, hence probability len_k/n). Sub-path extraction assumes len(path) <= maxlen (Path.append refuses beyond maxlen).",
    "design_ref": "4/C10",
}
LEVEL = "proof"

ALPHA = [0, 1, 2, 3, 4]   # for (left, right) = (1, 3): below / = left / inside / = right / above
EXC = (AssertionError, IndexError, ValueError)
CHUNK = 250000


# ----------------------------------------------------------------------------- oracle
# Written from the declarative definition (DESIGN 4/C10, spec/WeightS.v valid_seg): a valid
# sub-path is a pair s < e of frames outside [left, right) with at least one frame between
# them, all frames strictly between inside, and not (right, right).


def oracle_segments(o, left, right):
    n = len(o)
    out = []
    for s in range(n):
        os_ = o[s]
        if not (os_ < left or os_ >= right):
            continue
        for e in range(s + 2, n):
            oe = o[e]
            if not (oe < left or oe >= right):
                continue
            if os_ >= right and oe >= right:
                continue
            ok = True
            for j in range(s + 1, e):
                if not (left <= o[j] < right):
                    ok = False
                    break
            if ok:
                out.append((s, e, e - s - 1))
    return out


def oracle_frames(o, left, right):
    fr = set()
    for s, e, _ in oracle_segments(o, left, right):
        fr.update(range(s + 1, e))
    return fr


def oracle_side(x, lo, hi, undefined):
    return "L" if x <= lo else ("R" if x >= hi else undefined)


def oracle_compute_weight(o, i0, i1, i2, mv):
    """None = undefined (empty path or outer interfaces in the wrong order)."""
    if not o or i0 > i2:
        return None
    w = len(oracle_frames(o, i1, i2)) if mv == "wf" else 1
    differ = oracle_side(o[0], i0, i2, "?start") != oracle_side(o[-1], i0, i2, "?end")
    return 2 * w if (differ and mv in ("ss", "wf")) else w


def oracle_pick(segs, u):
    """u: Fraction.  index of the chosen segment by the interval law, None if u > 1."""
    n = sum(s[2] for s in segs)
    if n == 0:
        return None
    c = 0
    for k, s in enumerate(segs):
        lo = Fraction(c, n)
        c += s[2]
        if (k == 0 or lo < u) and u <= Fraction(c, n):
            return k
    return None


# ----------------------------------------------------------------------------- helpers


def scale(vals):
    """exact dyadic values -> integers over a common denominator (order preserving)."""
    fr = [Fraction(*float(v).as_integer_ratio()) for v in vals]
    d = 1
    for f in fr:
        if f.denominator > d:
            d = f.denominator
    return [int(f * d) for f in fr]


def enc(ints):
    return ",".join(map(str, ints)) if ints else "-"


def segs_str(segs):
    return ",".join(f"{s}:{e}:{n}" for s, e, n in segs) if segs else "-"


def num_str(x):
    f = float(x)
    return str(int(f)) if f.is_integer() else repr(f)


class Rgen:
    def __init__(self, v):
        self.v = v

    def random(self):
        return self.v


class Impl:
    """Access to the real functions and cheap construction of Path objects."""

    def __init__(self):
        from infretis.classes.path import Path
        from infretis.classes.system import System
        from infretis.core import tis
        self.Path, self.System, self.tis = Path, System, tis
        logging.getLogger("infretis.core.tis").setLevel(logging.ERROR)
        logging.getLogger("infretis.classes.path").setLevel(logging.ERROR)
        self._cache = {}

    def frame(self, idx, o):
        k = (idx, o)
        s = self._cache.get(k)
        if s is None:
            s = self.System()
            s.order = [float(o)]
            s.config = (f"f{idx}", idx)
            self._cache[k] = s
        return s

    def path(self, orders, unique=False, cache=True, maxlen=10000):
        """unique: one System object per frame index (so that a returned sub-path can be
        mapped back to frame indices by object identity)."""
        p = self.Path(maxlen=maxlen)
        if unique and cache:
            p.phasepoints = [self.frame(i, o) for i, o in enumerate(orders)]
        elif unique:
            fr = []
            for i, o in enumerate(orders):
                s = self.System()
                s.order = [float(o)]
                s.config = (f"f{i}", i)
                fr.append(s)
            p.phasepoints = fr
        else:
            p.phasepoints = [self.frame(0, o) for o in orders]
        return p

    def weight(self, p, left, right):
        w, seg = self.tis.wirefence_weight_and_pick(p, left, right)
        return w, seg

    def pick(self, p, left, right, u):
        """-> (n_frames, (s, e) or None, orders of the seed frames, seed path)"""
        idx = {id(s): i for i, s in enumerate(p.phasepoints)}
        w, seg = self.tis.wirefence_weight_and_pick(p, left, right, return_seg=True, ens_set={"rgen": Rgen(u)})
        ii = [idx.get(id(s), -1) for s in seg.phasepoints]
        if not ii:
            return w, None, [], seg
        return w, ii, [s.order[0] for s in seg.phasepoints], seg

    def compute_weight(self, p, intfs, mv):
        try:
            return self.tis.compute_weight(p, list(intfs), mv)
        except EXC:
            return None

    def cv(self, p, intfs, moves, lm1, cap, minus):
        try:
            return self.tis.calc_cv_vector(p, list(intfs), list(moves), lambda_minus_one=lm1, cap=cap, minus=minus)
        except EXC:
            return None

    def has(self, pa, pb, intf0, intf1, moves, rand):
        try:
            acc, status = self.tis.high_acc_swap([pa, pb], Rgen(rand), list(intf0), list(intf1), list(moves))
        except EXC:
            return None
        return bool(acc), status


class Batch:
    """Buffered lock-step: requests go to the model runner in chunks; each case carries the
    implementation's canonical output, an optional oracle failure and a description."""

    def __init__(self, ctx, runner):
        self.ctx, self.runner = ctx, runner
        self.reqs, self.meta = [], []
        self.compared = 0
        self.disagree = 0
        self.oracle_fail = 0
        self.samples = {}

    def add(self, req, impl_out, err, desc, cmp=None, nontrivial=True):
        self.reqs.append(req)
        self.meta.append((impl_out, err, desc, cmp))
        self.ctx.count(req, nontrivial=nontrivial)
        if len(self.reqs) >= CHUNK:
            self.flush()

    def flush(self):
        if not self.reqs:
            return
        outs = self.runner.run(self.reqs)
        for req, mo, (io, err, desc, cmp) in zip(self.reqs, outs, self.meta):
            self.compared += 1
            if desc["op"] not in self.samples and io.split(" ")[-1] not in ("N", "0", "-") and len(req) > 24:
                self.samples[desc["op"]] = {"request": req, "model": mo, "impl": io}
            if err:
                self.oracle_fail += 1
                if self.oracle_fail <= 5:
                    self.ctx.violation(f"C10 statement fails on the implementation: {err}",
                                       {"case": desc, "impl": io, "model": mo, "request": req}, True)
                continue
            bad = (cmp(mo, io) if cmp else (None if mo == io else "outputs differ"))
            if bad:
                self.disagree += 1
                if self.disagree <= 3:
                    self.ctx.violation(
                        f"correspondence model/implementation broken for {desc['op']}: {bad} (the property oracle accepts the implementation's output on this case)",
                        {"correspondence": "c10 runner vs infretis.core.tis", "case": desc, "impl": io, "model": mo, "request": req}, False)
        self.reqs, self.meta = [], []


def cmp_wf(mo, io):
    """model line: 'segs n specsegs specn'; impl/oracle: 'oraclesegs weight'."""
    t = mo.split(" ")
    if len(t) != 4:
        return f"model runner error: {mo}"
    osegs, w = io.split(" ")
    if t[0] != t[2] or t[1] != t[3]:
        return "extracted model and extracted spec disagree"
    if t[1] != w:
        return f"weight: model {t[1]} vs implementation {w}"
    if t[0] != osegs:
        return f"segments: model {t[0]} vs brute-force declarative enumeration {osegs}"
    return None


# ----------------------------------------------------------------------------- case builders


def wf_case(B, I, p, orders, left, right, ints=None, tag="wf"):
    """weight of one path: implementation vs model/spec, plus the statement's oracle."""
    w, seg = I.weight(p, left, right)
    osegs = oracle_segments(orders, left, right)
    frames = set()
    for s, e, _ in osegs:
        frames.update(range(s + 1, e))
    err = None
    if w != len(frames):
        err = f"weight {w} != number of frames on valid sub-paths {len(frames)} (sub-paths {osegs})"
    elif (w > 0) != bool(frames):
        err = "weight positive without / zero despite a frame on a valid sub-path"
    elif seg.length != 0:
        err = "a segment was returned although none was requested"
    else:
        p.phasepoints = p.phasepoints[::-1]
        wr, _ = I.weight(p, left, right)
        p.phasepoints = p.phasepoints[::-1]
        if wr != w:
            err = f"weight changes under time reversal: {w} forward, {wr} reversed"
    if ints is None:
        l_i, r_i, o_i = left, right, orders
    else:
        l_i, r_i, o_i = ints
    # non-trivial: some frame lies inside [left, right), so the scan can leave its initial state
    B.add(f"wf {l_i} {r_i} {enc(o_i)}", f"{segs_str(osegs)} {w}", err,
          {"op": tag, "orders": list(orders), "left": left, "right": right}, cmp_wf,
          nontrivial=any(left <= x < right for x in orders))
    return w, osegs


def u_grid(osegs, rng, ctx):
    """random numbers for the segment choice: dyadic grid, out-of-range values, and for every
    cumulative boundary c_k/n its float neighbours (and the boundary itself when the float
    quotient is exact)."""
    n = sum(s[2] for s in osegs)
    us = [0.0, 0.25, 0.5, 0.75, 1.0 - 2.0 ** -53, 1.0, 1.5, rng.getrandbits(30) / 2.0 ** 30]
    c = 0
    for s in osegs:
        c += s[2]
        b = c / n
        us.append(math.nextafter(b, -math.inf))
        us.append(math.nextafter(b, math.inf))
        if Fraction(*b.as_integer_ratio()) == Fraction(c, n):
            us.append(b)
        else:
            ctx.dist("float_boundary_skipped")
    return sorted(set(us))


def float_decision_differs(osegs, u):
    """True iff for some cumulative boundary the float test `c / n >= u` of the code and the
    exact test c/n >= u disagree (u within rounding error of a non-representable boundary)."""
    n = sum(s[2] for s in osegs)
    fu = Fraction(*float(u).as_integer_ratio())
    c = 0
    for s in osegs:
        c += s[2]
        if (c / n >= u) != (Fraction(c, n) >= fu):
            return True
    return False


def pick_case(B, I, orders, left, right, u, ints=None, tag="pick"):
    osegs = oracle_segments(orders, left, right)
    if osegs and float_decision_differs(osegs, u):
        B.ctx.dist("float_boundary_skipped")
        return
    p = I.path(orders, unique=True, cache=(ints is None))
    w, ii, seed_orders, seg = I.pick(p, left, right, u)
    fu = Fraction(*float(u).as_integer_ratio())
    err = None
    io = "N"
    if ii is None:
        k = oracle_pick(osegs, fu)
        if k is not None:
            err = f"no seed sub-path returned for u={u!r} although the interval law selects sub-path {k}"
    else:
        s, e = ii[0], ii[-1]
        if ii != list(range(s, e + 1)) or s < 0:
            err = f"seed frames {ii} are not the contiguous frames entry..exit of the path"
        elif (s, e, e - s - 1) not in osegs:
            err = f"seed sub-path ({s},{e}) is not a valid sub-path {osegs}"
        else:
            k = oracle_pick(osegs, fu)
            if k is None or osegs[k] != (s, e, e - s - 1):
                err = f"u={u!r}: chosen sub-path ({s},{e}) but the interval law c_(k-1)/n < u <= c_k/n selects {None if k is None else osegs[k]}"
            elif seg.generated != "ct":
                err = "seed sub-path not marked generated='ct'"
    if ints is None:
        l_i, r_i, o_i = left, right, list(orders)
        if ii is not None:
            io = f"{ii[0]}:{ii[-1]}:{ii[-1] - ii[0] - 1} {enc([int(x) for x in seed_orders])}"
    else:
        l_i, r_i, o_i = ints
        if ii is not None:
            io = f"{ii[0]}:{ii[-1]}:{ii[-1] - ii[0] - 1} {enc([o_i[j] for j in ii])}"
    B.add(f"pick {l_i} {r_i} {enc(o_i)} {fu.numerator}/{fu.denominator}", io, err,
          {"op": tag, "orders": list(orders), "left": left, "right": right, "u": u})


def cw_case(B, I, p, orders, trip, mv, ints=None, tag="compute_weight"):
    r = I.compute_weight(p, [float(t) for t in trip], mv)
    exp = oracle_compute_weight(orders, trip[0], trip[1], trip[2], mv)
    err = None
    if (r is None) != (exp is None) or (r is not None and r != exp):
        err = f"compute_weight = {r}, statement gives {exp} (base weight x2 iff ends on different outer sides and move in ss/wf)"
    io = "N" if r is None else num_str(r)
    if ints is None:
        t_i, o_i = trip, orders
    else:
        t_i, o_i = ints
    B.add(f"cw {enc(o_i)} {t_i[0]} {t_i[1]} {t_i[2]} {mv}", io, err,
          {"op": tag, "orders": list(orders), "interfaces": list(trip), "move": mv})


def oracle_cv(orders, intfs, moves, lm1, cap, minus):
    """The statement: None = undefined."""
    if not orders:
        return None
    mx = max(orders)
    if minus:
        l = lm1 if lm1 is not False else (intfs[0] if intfs else None)
        if l is None:
            return None
        return [1 if l <= mx else 0]
    out = []
    for k, lk in enumerate(intfs[:-1]):
        if k + 1 >= len(moves):
            return None
        if moves[k + 1] == "wf":
            capv = cap if cap is not None else intfs[-1]
            w = oracle_compute_weight(orders, intfs[0], lk, capv, "wf")
            if w is None:
                return None
            out.append(w)
        else:
            out.append(1 if lk <= mx else 0)
    return out + [0]


def cv_case(B, I, p, orders, intfs, moves, lm1, cap, minus, ints=None):
    r = I.cv(p, [float(x) for x in intfs], moves, (False if lm1 is False else float(lm1)),
             (None if cap is None else float(cap)), minus)
    exp = oracle_cv(orders, intfs, moves, lm1, cap, minus)
    err = None
    got = None if r is None else [float(x) for x in r]
    if (got is None) != (exp is None) or (got is not None and got != [float(x) for x in exp]):
        err = f"calc_cv_vector = {r}, statement gives {exp}"
    elif r is not None and not isinstance(r, tuple):
        err = "weight vector is not a tuple"
    io = "N" if r is None else enc([num_str(x) for x in r])
    if ints is None:
        o_i, f_i, lm_i, cap_i = orders, intfs, lm1, cap
    else:
        o_i, f_i, lm_i, cap_i = ints
    B.add(f"cv {enc(o_i)} {enc(f_i)} {enc(moves)} {'N' if lm_i is False else lm_i} {'N' if cap_i is None else cap_i} {int(minus)}",
          io, err, {"op": "calc_cv_vector", "orders": list(orders), "interfaces": list(intfs), "moves": list(moves),
                    "lambda_minus_one": lm1, "cap": cap, "minus": minus})


def has_case(B, I, ctx, oa, ob, intf0, intf1, mvs, rand):
    pa, pb = I.path(oa), I.path(ob)
    r = I.has(pa, pb, [float(x) for x in intf0], [float(x) for x in intf1], mvs, rand)
    ws = [oracle_compute_weight(oa, *intf0, mvs[0]), oracle_compute_weight(ob, *intf1, mvs[1]),
          oracle_compute_weight(ob, *intf0, mvs[0]), oracle_compute_weight(oa, *intf1, mvs[1])]
    err = None
    fr = Fraction(*float(rand).as_integer_ratio())
    if None in ws:
        if r is not None:
            err = f"high_acc_swap returned {r} although a weight is undefined"
        io = "N"
    else:
        ratio = Fraction(1) if ws[0] == 0 or ws[1] == 0 else Fraction(ws[2] * ws[3], ws[0] * ws[1])
        exp = fr < ratio
        pf = 1.0 if ws[0] == 0 or ws[1] == 0 else float(ws[2]) * float(ws[3]) / (float(ws[0]) * float(ws[1]))
        if (rand < pf) != exp:      # rand within rounding error of a non-representable ratio
            ctx.dist("float_boundary_skipped")
            return
        if r is None:
            err = "high_acc_swap raised although all four weights are defined"
            io = "N"
        else:
            io = f"{int(r[0])} {ratio.numerator}/{ratio.denominator}" if ratio.denominator != 1 else f"{int(r[0])} {ratio.numerator}"
            if r[0] != exp or r[1] != ("ACC" if exp else "HAS"):
                err = f"high_acc_swap = {r} for rand={rand!r}, weights {ws}: statement gives accept={exp} (p = {ratio})"
    B.add(f"has {fr.numerator}/{fr.denominator} {enc(oa)} {enc(ob)} {enc(intf0)} {enc(intf1)} {mvs[0]} {mvs[1]}",
          io, err, {"op": "high_acc_swap", "path0": list(oa), "path1": list(ob), "intf0": list(intf0), "intf1": list(intf1),
                    "moves": list(mvs), "rand": rand},
          lambda mo, io_: None if (mo == io_ or (mo != "N" and io_ != "N" and mo.split(" ")[:2] == io_.split(" ")[:2])) else "acceptance / ratio differ")


def has_rands(ws, rng, ctx):
    out = [0.0, 0.25, 0.5, 0.75, 1.0 - 2.0 ** -53, rng.getrandbits(20) / 2.0 ** 20]
    if None not in ws and ws[0] and ws[1]:
        p = ws[2] * ws[3] / (ws[0] * ws[1])
        out += [math.nextafter(p, -math.inf), math.nextafter(p, math.inf)]
        if Fraction(*float(p).as_integer_ratio()) == Fraction(ws[2] * ws[3], ws[0] * ws[1]):
            out.append(p)
        else:
            ctx.dist("float_boundary_skipped")
    return sorted({x for x in out if 0.0 <= x})


# ----------------------------------------------------------------------------- run


def run(ctx):
    common.proof_stage(ctx, "C10", ["extract/c10.vo"])
    runner = common.runner_stage(ctx, "c10")
    if runner is None:
        return
    I = Impl()
    B = Batch(ctx, runner)
    rng = ctx.rng
    quick = ctx.tier == "quick"

    # ---------------- 1. weights: ALL sequences over the alphabet, several (left, right)
    main_pairs = [(1, 3), (2, 2), (3, 1)]           # canonical / left = right / left > right
    extra_pairs = [(1, 4), (0, 3), (2, 3), (1, 2), (4, 0), (1, 1)]
    Lmain = {(1, 3): 7, (2, 2): 7, (3, 1): 7} if quick else {(1, 3): 9, (2, 2): 8, (3, 1): 8}
    Lextra = 6 if quick else 7
    plan = [(pr, Lmain[pr]) for pr in main_pairs] + [(pr, Lextra) for pr in extra_pairs]
    p = I.path([])
    frames = [I.frame(0, a) for a in ALPHA]
    for (left, right), maxL in plan:
        fl, fr_ = float(left), float(right)
        for L in range(0, maxL + 1):
            for seq in itertools.product(ALPHA, repeat=L):
                p.phasepoints = [frames[a] for a in seq]
                wf_case(B, I, p, seq, left, right)
            ctx.dist(f"wf_exhaustive_pair_{left}_{right}", 5 ** L)
    B.flush()

    # ---------------- 2. segment choice: all sequences (canonical pair) with a valid sub-path
    Lpick = 6 if quick else 7
    npick = 0
    for (left, right), maxL in [((1, 3), Lpick), ((1, 4), Lpick - 1), ((2, 2), 4), ((3, 1), 4)]:
        for L in range(0, maxL + 1):
            for seq in itertools.product(ALPHA, repeat=L):
                osegs = oracle_segments(seq, left, right)
                if not osegs:
                    if L <= 3:
                        pick_case(B, I, seq, left, right, 0.5)   # nothing to pick: empty path back
                        npick += 1
                    continue
                for u in u_grid(osegs, rng, ctx):
                    pick_case(B, I, seq, left, right, u)
                    npick += 1
    ctx.dist("pick_exhaustive", npick)
    B.flush()

    # ---------------- 3. compute_weight: all sequences x interface triples x moves
    Lcw = 5 if quick else 6
    trips = [(0, 1, 3), (1, 1, 3), (1, 2, 3), (0, 2, 4), (2, 1, 3), (4, 1, 3), (0, 3, 1), (2, 2, 2), (1, 1, 1), (0, 1, 4), (3, 1, 3), (1, 3, 3)]
    ncw = 0
    for L in range(0, Lcw + 1):
        for seq in itertools.product(ALPHA, repeat=L):
            p.phasepoints = [frames[a] for a in seq]
            for trip in trips:
                for mv in ("sh", "wf", "ss"):
                    cw_case(B, I, p, seq, trip, mv)
                    ncw += 1
    ctx.dist("compute_weight_exhaustive", ncw)
    B.flush()

    # ---------------- 4. calc_cv_vector: all move assignments, 2-5 interfaces, caps, lambda_-1, minus
    Lcv = 3 if quick else 4
    intf_lists = [(1, 3), (0, 2), (1, 2, 3), (0, 1, 3), (1, 1, 3), (0, 1, 2, 3), (1, 2, 3, 4), (0, 1, 2, 3, 4), (3, 2, 1), (1, 3, 2, 4)]
    caps = [None, 0, 2, 3, 4]
    cv_paths = [s for L in range(0, Lcv + 1) for s in itertools.product(ALPHA, repeat=L)]
    cv_paths += [tuple(rng.choice(ALPHA) for _ in range(rng.randrange(5, 12))) for _ in range(40 if quick else 200)]
    ncv = 0
    for seq in cv_paths:
        p.phasepoints = [frames[a] for a in seq]
        for intfs in intf_lists:
            n = len(intfs)
            # minus: independent of moves and cap
            for lm1 in (False, 0, 2, 4):
                cv_case(B, I, p, seq, intfs, ["sh"] * (n + 1), lm1, rng.choice(caps), True)
                ncv += 1
            capsel = caps if len(seq) <= 2 else [None, rng.choice(caps[1:])]
            for cap in capsel:
                for assign in itertools.product(("sh", "wf", "ss"), repeat=n - 1):
                    moves = [rng.choice(("sh", "wf", "ss"))] + list(assign) + [rng.choice(("sh", "wf", "ss"))]
                    cv_case(B, I, p, seq, intfs, moves, rng.choice((False, False, 0, 2)), cap, False)
                    ncv += 1
            # too few moves (IndexError in the code, undefined in the model)
            for short in (0, 1, n - 1):
                cv_case(B, I, p, seq, intfs, ["wf"] * short, False, None, False)
                ncv += 1
        # degenerate interface lists
        cv_case(B, I, p, seq, (), ["sh"], False, None, False)
        cv_case(B, I, p, seq, (), ["sh"], False, None, True)
        cv_case(B, I, p, seq, (2,), ["sh", "wf"], False, None, False)
        ncv += 3
    ctx.dist("calc_cv_vector", ncv)
    B.flush()

    # ---------------- 5. high_acc_swap: acceptance against the exact ratio
    nhas = 0
    Lh = 4
    short = [s for L in range(1, Lh + 1) for s in itertools.product(ALPHA, repeat=L)]
    ntrials = 1500 if quick else 12000
    has_trips = [(0, 1, 3), (0, 2, 4), (1, 2, 3), (0, 0, 3), (1, 1, 4), (0, 3, 4)]
    for _ in range(ntrials):
        oa = rng.choice(short) if rng.random() < 0.7 else tuple(rng.choice(ALPHA) for _ in range(rng.randrange(5, 14)))
        ob = rng.choice(short) if rng.random() < 0.7 else tuple(rng.choice(ALPHA) for _ in range(rng.randrange(5, 14)))
        intf0, intf1 = rng.choice(has_trips), rng.choice(has_trips)
        mvs = (rng.choice(("sh", "wf", "ss", "wf")), rng.choice(("sh", "wf", "ss", "wf")))
        ws = [oracle_compute_weight(oa, *intf0, mvs[0]), oracle_compute_weight(ob, *intf1, mvs[1]),
              oracle_compute_weight(ob, *intf0, mvs[0]), oracle_compute_weight(oa, *intf1, mvs[1])]
        for rand in has_rands(ws, rng, ctx):
            has_case(B, I, ctx, oa, ob, intf0, intf1, mvs, rand)
            nhas += 1
    ctx.dist("high_acc_swap", nhas)
    B.flush()

    # ---------------- 6. seeded random longer paths with real-valued orders
    nrand = 4000 if quick else 40000
    nr = 0
    for _ in range(nrand):
        a, b = rng.uniform(-1, 1), rng.uniform(-1, 1)
        mode = rng.random()
        if mode < 0.75:
            left, right = min(a, b), max(a, b)
        elif mode < 0.85:
            left = right = a
        else:
            left, right = max(a, b), min(a, b)
        pool = [left, right, math.nextafter(left, -math.inf), math.nextafter(left, math.inf),
                math.nextafter(right, -math.inf), math.nextafter(right, math.inf)]
        lo, hi = min(left, right) - 0.5, max(left, right) + 0.5
        L = rng.randrange(0, 60 if quick else 120)
        step = rng.choice((0.05, 0.3, 2.0))
        orders = []
        x = rng.uniform(lo, hi)
        for _i in range(L):
            t = rng.random()
            if t < 0.15:
                orders.append(rng.choice(pool))
            elif t < 0.6:
                x = min(hi, max(lo, x + rng.uniform(-step, step) * (hi - lo)))
                orders.append(x)
            else:
                orders.append(rng.uniform(lo, hi))
        i0 = rng.choice((lo, left, math.nextafter(left, -math.inf), lo - 1.0, right))
        ints = scale([left, right, i0] + orders)
        l_i, r_i, i0_i, o_i = ints[0], ints[1], ints[2], ints[3:]
        pth = I.path(orders, unique=True, cache=False)
        w, osegs = wf_case(B, I, pth, orders, left, right, ints=(l_i, r_i, o_i), tag="wf_random_real")
        nr += 1
        if osegs:
            for u in (rng.getrandbits(30) / 2.0 ** 30, rng.choice(u_grid(osegs, rng, ctx))):
                pick_case(B, I, orders, left, right, u, ints=(l_i, r_i, o_i), tag="pick_random_real")
                nr += 1
        mv = rng.choice(("sh", "wf", "ss"))
        cw_case(B, I, pth, orders, (i0, left, right), mv, ints=((i0_i, l_i, r_i), o_i), tag="compute_weight_random_real")
        nr += 1
    ctx.dist("random_real_valued", nr)
    B.flush()

    for op in sorted(B.samples):
        ctx.sample(B.samples[op], cap=10)
    ctx.cov["rule"] = (
        f"exhaustive: all order sequences over alphabet {ALPHA} up to length {Lmain[(1, 3)]} for (left,right) in {main_pairs[:1]}, "
        f"up to {Lmain[(2, 2)]} for {main_pairs[1:]} (left = right, left > right), up to {Lextra} for {extra_pairs} "
        f"(weight vs model/spec/brute-force declarative oracle, reversal, positivity); segment choice on all sequences up to length {Lpick} "
        f"with a u grid containing every cumulative boundary's float neighbours; compute_weight on all sequences up to length {Lcw} x {len(trips)} "
        f"interface triples x 3 moves; calc_cv_vector on all sequences up to length {Lcv} (+ random longer) x {len(intf_lists)} interface lists "
        f"(2-5 interfaces) x all move assignments x caps x lambda_minus_one x minus; {ntrials} seeded high_acc_swap set-ups x rand grid; "
        f"{nrand} seeded random real-valued paths (length < {60 if quick else 120}). A case is distinct by its request line; a weight case "
        f"counts as non-trivial only if some frame lies inside [left, right) (so none of the empty-region cases do); all other cases are "
        f"non-trivial (each exercises a modelled function on a distinct input)")
    ctx.cov["correspondence"] = {"compared": B.compared, "disagreements": B.disagree, "oracle_failures": B.oracle_fail,
                                 "float_boundary_skipped": ctx.cov["input_distribution"].get("float_boundary_skipped", 0)}
    ctx.cov["trusted_base"] += [
        "extraction: ExtrOcamlBasic only; ocaml/util.ml + ocaml/c10_driver.ml (the 'has' command composes four compute_weight calls)",
        "py/checks/c10.py generators, encoders (dyadic floats scaled to integers) and the brute-force oracle",
        "float quotients sum_frames/n_frames and c1n*c2n/(c1o*c2o) agree with the exact rational away from a boundary (exact boundaries that are not representable are skipped and counted)",
    ]
    ctx.assumptions += [
        "rgen.random() is uniform on [0,1): the theorem gives the selecting interval, hence probability len_k/n",
        "len(path) <= path.maxlen when a seed sub-path is cut out (Path.append refuses beyond maxlen)",
        "System reduced to order[0]; moves restricted to 'sh', 'wf', 'ss'",
    ]


# ----------------------------------------------------------------------------- replay


def replay(doc):
    import json
    print(json.dumps(doc, indent=1))
    rp = doc.get("replay", {})
    case = rp.get("case")
    if not case:
        print("no concrete case stored (broken obligation); nothing to re-run on the implementation")
        return 1
    I = Impl()

    class Sink:
        def __init__(self):
            self.items = []

        def add(self, req, io, err, desc, cmp=None):
            self.items.append((req, io, err, cmp))

    class FakeCtx:
        def dist(self, *a, **k):
            pass

    S = Sink()
    op = case["op"]
    if op.startswith("wf"):
        o = case["orders"]
        ints = scale([case["left"], case["right"]] + o)
        wf_case(S, I, I.path(o, unique=True), o, case["left"], case["right"], ints=(ints[0], ints[1], ints[2:]))
    elif op.startswith("pick"):
        o = case["orders"]
        ints = scale([case["left"], case["right"]] + o)
        pick_case(S, I, o, case["left"], case["right"], case["u"], ints=(ints[0], ints[1], ints[2:]))
    elif op.startswith("compute_weight"):
        o = case["orders"]
        ints = scale(list(case["interfaces"]) + o)
        cw_case(S, I, I.path(o), o, tuple(case["interfaces"]), case["move"], ints=(ints[:3], ints[3:]))
    elif op == "calc_cv_vector":
        o = case["orders"]
        cv_case(S, I, I.path(o), o, tuple(case["interfaces"]), case["moves"], case["lambda_minus_one"], case["cap"], case["minus"])
    elif op == "high_acc_swap":
        has_case(S, I, FakeCtx(), tuple(case["path0"]), tuple(case["path1"]), tuple(case["intf0"]), tuple(case["intf1"]),
                 tuple(case["moves"]), case["rand"])
    else:
        print("unknown case kind", op)
        return 1
    req, io, err, cmp = S.items[0]
    print("request         :", req)
    print("implementation  :", io)
    try:
        mo = common.Runner("c10").run([req])[0]
        print("model now       :", mo)
        bad = cmp(mo, io) if cmp else (None if mo == io else "outputs differ")
        print("correspondence  :", bad or "agree")
    except Exception as e:  # noqa: BLE001
        bad = f"runner unavailable: {e!r}"
        print(bad)
    print("property oracle :", err or "holds on this input")
    return 1 if (err or bad) else 0
