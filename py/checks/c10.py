"""C10 — wire-fencing weights are exact, symmetric and drive segment choice.

Theorems: coq/theorems/C10.v (model coq/model/WeightM.v, independent specification
coq/spec/WeightS.v, proofs coq/proofs/WeightP.v).  Tie: functional lock-step of the real
infretis.core.tis.wirefence_weight_and_pick / compute_weight / calc_cv_vector /
high_acc_swap against the extracted model on all order sequences over a 5-letter alphabet
(exhaustive small scope, several (left, right) orderings) plus seeded random real-valued
paths.  Oracle: the property's statement evaluated on the implementation's results by a
brute-force enumeration of the declaratively valid sub-paths (written from the definition,
not from the scan), time-reversal invariance, positivity, the doubling rule, the shape of
the weight vector and the interval law of the segment choice (also on paths built to hold
several valid sub-paths of unequal lengths, over a fine grid of random numbers), the seed under
length limits (tis_set.maxlength below / at / above every valid sub-path, path.maxlen small /
large / None: the seed is exactly one valid sub-path with both end points) and the [0-] weight
vector for lambda_minus_one absent / negative / 0.0 / positive x every [0-] path type.

Family "history" (hidden state): sequences of calls of the three functions in ONE interpreter on path
objects that carry a path number and randomised generated / maxlen / status / time_origin / weights /
weight (equal numbers and lengths but different orders, Path.copy() edited in place, reversed paths
keeping the number, the same object after its orders were changed, a second set of paths numbered like
the first), interleaved with different interface sets; every call is judged alone (statement oracle +
model, both functions of the call's arguments); a failing call is reported with a minimal call sequence
confirmed in a fresh interpreter, and the replay re-runs that sequence.

Every call into the implementation goes through `call` / `Impl`: an exception, None, a value
of the wrong shape, a sub-path that is not one of the valid sub-paths ... is an ANSWER of the
implementation.  It is judged by the oracle and reported together with the input; it is never
an exception of this check.
"""
import importlib.util  # noqa: F401
import itertools
import json
import logging
import math
import numbers
import random
from fractions import Fraction

import common

META = {
    "id": "C10",
    "level": "proof",
    "technique": "Coq: literal five-branch scan proved equal to an independent structurally recursive specification and to the declarative definition of valid sub-paths (simulation with loop invariant), corollaries by NoDup/Permutation; exhaustive small-scope lock-step of the extracted model (and extracted spec) vs the real tis.py functions",
    "text": "Unbounded theorems (every order sequence, every left/right pair incl. left = right and left > right, every move assignment, every random number): the scan returns exactly the valid sub-paths (entry, exit, interior count) in order; weight = number of frames strictly inside valid sub-paths, positive iff such a frame exists, 0 for an empty region, invariant under time reversal (mirrored segments); compute_weight doubles exactly when the ends are on different outer sides and the move is wf/ss; calc_cv_vector has one entry per interface, last 0, 1/0 by lambda_k <= max for non-wf columns, (1,)/(0,) for [0-], and (1,) for every valid [0-] path whether lambda_minus_one is absent or any number, 0 included, for all four types L->L, L->R, R->L, R->R and whether or not lambda_0 is reached (C10_cv_vector_valid_minus_path; lambda_minus_one is an option in the model, never a truth value); segment k is chosen iff c_{k-1}/n < u <= c_k/n (interval length len_k/n), the choice is a valid sub-path and the seed consists of frames entry..exit inclusive: frame t of the returned segment is frame entry+t of the path for every path with len(path) <= path.maxlen (or path.maxlen None), no other length limit is read (C10_pick_seed_exact, C10_seed_whole), while a container limit below frames+2 returns a strict prefix without the exit frame (C10_seed_smaller_limit_refuted); p_swap = c1n*c2n/(c1o*c2o) (1 if a denominator is 0). The model is tied to /repo by running model, extracted spec and the real functions on the same inputs and by evaluating the statement on the implementation's outputs. The proportional-pick clause is additionally judged on paths holding >= 2 valid sub-paths of unequal frame counts (all such sequences of the small scope, systematic count pairs/triples, seeded random ones with decoys) over a fine grid of random numbers: multiples of 1/64, every boundary c_k/n with its float neighbours, interval midpoints, the boundaries j/m of a count-blind draw. The seed clause is additionally judged under length limits (family pick_length_limits): the implementation gets a full ensemble dictionary whose tis_set.maxlength lies below, at and above the number of phase points of every valid sub-path (also 1, 2, 3, len(path)+-1, 2000) and a path whose own maxlen is len(path), len(path)+1, 100000 or None, one random number per sub-path; the returned segment must be exactly one valid sub-path with both end points by frame identity and order and the weight the number of frames on valid sub-paths, whatever the limits. The [0-] clause is judged on every lambda_minus_one among absent (False), negative, 0.0, -0.0 and positive below lambda_0 (lambda_0 positive, 0.0 and negative) x every sequence over {below lambda_-1, = lambda_-1, between, = lambda_0, above lambda_0} up to length 4 (thorough 5) and every valid [0-] path one frame longer (family calc_cv_vector_minus). Family history (hidden state): wirefence_weight_and_pick, compute_weight and calc_cv_vector are functions of the path's orders, the interfaces/moves and the one random number, so SEQUENCES of calls (with and without return_seg) are made in one interpreter process on path objects that carry a path_number: all ordered pairs of different order sequences of length 3 over the alphabet (thorough: also length 5 over {0,2,4}) as two paths with the same number, the same length and the same arguments, the second one a new object / a Path.copy() of the first edited in place / the same object with its orders changed; and seeded random sequences of the kinds two_setups (paths numbered b..b+k-1 are weighted, then a second and a third set with the same numbers and lengths: a second simulation set up in the same process), copy_edit (Path.copy keeps the number; the original is weighted again afterwards), reverse (Path.reverse, the result given the number of the original, seed requested), same_object (the orders of one object changed between calls, also to another length), mix (random walk over three slots, three numbers, two lengths, three argument sets), each interleaved with calls using another interface set. Every call is judged alone: its result must be what the statement (and the model, a function) gives for that call's arguments. A failing call is reported with its call sequence, cut down by delta debugging to a minimal sequence that fails when run from a pristine interpreter state (one helper process, one fork per trial), and the replay re-runs exactly that sequence. PATH OBJECTS HANDED TO THE IMPLEMENTATION -- history family: path_number in 0..7, None, 137 or 100000; generated in {None, 'ld', 'ct', ('sh', 2.0, 1, len), ('wf', 2.0, 3, len), ('s+', 0, 0, 0), ('00', 1.0, 0, 0)}; maxlen in {len, len+1, 10000, 100000, None}; status in {'', 'ACC', 'BTL', 'FTL'}; time_origin 0 or a random integer < 1000; weights None, (1.0, 0.0) or (2.0, 1.0, 0.0); weight 0.0, 1.0 or 4.0; one System object per frame with order = [float] and config = (name, index), every other System attribute at its default; copies and reversed paths are made by Path.copy / Path.reverse themselves. All other families: Path(maxlen=10000) (pick_length_limits: len, len+1, 100000, None) with path_number None, generated None, status '', time_origin 0, weights None, weight 0.0, System objects shared between paths, and in the exhaustive families ONE path object whose phasepoints list is replaced from case to case. Any answer of the implementation (exception, None, wrong shape, a sub-path that is not a valid one, frames that are not the path's) is judged by the oracle and reported with the input (path, left/right, random number; in the history family the call sequence); it never stops the check.",
    "note": "All theorems print 'Closed under the global context' (no axioms). Trusted: Coq kernel; extraction (ExtrOcamlBasic) + ocaml/util.ml + ocaml/c10_driver.ml (the 'has' command composes four compute_weight calls in the driver); the Python harness, its generators and its brute-force oracle. Floats: exhaustive cases use integer-valued orders; random real-valued cases are passed to the model as exact dyadic rationals scaled to integers; the float quotient sum_frames/n_frames (and c1n*c2n/(c1o*c2o)) is compared with the model's exact rational only at float neighbours of a boundary or at exactly representable boundaries, other exact-boundary values are counted as float_boundary_skipped. The uniform law of rgen.random() is assumed (the theorem gives the interval, hence probability len_k/n). Sub-path extraction assumes len(path) <= path.maxlen (Path.append refuses beyond maxlen, so no path built by the program is longer than its own maxlen); tis_set.maxlength is NOT assumed to bound anything (a loaded path, or a restart with a lowered maxlength, has sub-paths longer than it). Random numbers outside [0,1) (1.0, 1.5, the float above 1) are only compared with the model (its interval law is proved for every u): an exception of the implementation there is a correspondence report without failing input, inside [0,1) it is a failure of the statement with the input. History family: oracle and model are functions of one call's arguments, so a dependence of a result on earlier calls, on path_number / generated / status / time_origin / weights / weight or on the identity of the path object shows as a failure of that call; the family runs first, so the calls made before a failing call are exactly the recorded sequences. Not covered: state carried from one interpreter process to the next (files), attributes of System other than order[0] and config (pos, vel, vel_rev, ekin, vpot, box stay at their defaults), high_acc_swap (single calls only). The single-call families still hand over un-numbered paths; a failure there is replayed as one call in a fresh interpreter. Reports: at most 3 per kind of case, concrete failing inputs first, single-call inputs before call sequences.",
    "design_ref": "4/C10",
}
LEVEL = "proof"

ALPHA = [0, 1, 2, 3, 4]   # for (left, right) = (1, 3): below / = left / inside / = right / above
EXC = (AssertionError, IndexError, ValueError)
CHUNK = 250000


# ----------------------------------------------------------------------------- oracle
# Written from the declarative definition (DESIGN 4/C10, spec/WeightS.v valid_seg): a valid
# sub-path is a pair s < e of frames outside [left, right) with at least one frame between
# them, all frames strictly between inside, and not (right, right).


_LAST_SEGMENTS = [None, None]       # the cases of one path follow each other: remember the last enumeration


def oracle_segments(o, left, right):
    key = (o, left, right) if isinstance(o, tuple) else None
    if key is not None and _LAST_SEGMENTS[0] == key:
        return list(_LAST_SEGMENTS[1])
    out = _oracle_segments(o, left, right)
    if key is not None:
        _LAST_SEGMENTS[:] = [key, tuple(out)]
    return out


def _oracle_segments(o, left, right):
    n = len(o)
    out = []
    for s in range(n):
        os_ = o[s]
        if not (os_ < left or os_ >= right):
            continue
        for e in range(s + 2, n):
            oe = o[e]
            if not (oe < left or oe >= right):
                continue
            if os_ >= right and oe >= right:
                continue
            ok = True
            for j in range(s + 1, e):
                if not (left <= o[j] < right):
                    ok = False
                    break
            if ok:
                out.append((s, e, e - s - 1))
    return out


def oracle_frames(o, left, right):
    fr = set()
    for s, e, _ in oracle_segments(o, left, right):
        fr.update(range(s + 1, e))
    return fr


def oracle_side(x, lo, hi, undefined):
    return "L" if x <= lo else ("R" if x >= hi else undefined)


def oracle_compute_weight(o, i0, i1, i2, mv):
    """None = undefined (empty path or outer interfaces in the wrong order)."""
    if not o or i0 > i2:
        return None
    w = len(oracle_frames(o, i1, i2)) if mv == "wf" else 1
    differ = oracle_side(o[0], i0, i2, "?start") != oracle_side(o[-1], i0, i2, "?end")
    return 2 * w if (differ and mv in ("ss", "wf")) else w


def oracle_pick(segs, u):
    """u: Fraction.  index of the chosen segment by the interval law, None if u > 1."""
    n = sum(s[2] for s in segs)
    if n == 0:
        return None
    c = 0
    for k, s in enumerate(segs):
        lo = Fraction(c, n)
        c += s[2]
        if (k == 0 or lo < u) and u <= Fraction(c, n):
            return k
    return None


# ----------------------------------------------------------------------------- helpers


def scale(vals):
    """exact dyadic values -> integers over a common denominator (order preserving)."""
    fr = [Fraction(*float(v).as_integer_ratio()) for v in vals]
    d = 1
    for f in fr:
        if f.denominator > d:
            d = f.denominator
    return [int(f * d) for f in fr]


def enc(ints):
    return ",".join(map(str, ints)) if ints else "-"


def segs_str(segs):
    return ",".join(f"{s}:{e}:{n}" for s, e, n in segs) if segs else "-"


class Raised:
    """The implementation raised instead of answering."""

    def __init__(self, e):
        self.kind = type(e).__name__
        self.text = f"{self.kind}({str(e)[:120]!r})"
        self.expected = isinstance(e, EXC)      # the kinds the code uses for undefined inputs

    def __repr__(self):
        return f"raised {self.text}"


def call(fn, *a, **k):
    """Run the implementation; whatever it does comes back as a value."""
    try:
        return fn(*a, **k)
    except Exception as e:  # noqa: BLE001  (any behaviour of the code under test is an answer)
        return Raised(e)


def short(x, n=120):
    try:
        r = repr(x)
    except Exception:  # noqa: BLE001
        r = f"<unprintable {type(x).__name__}>"
    return r if len(r) <= n else r[:n] + "..."


def is_num(x):
    return isinstance(x, numbers.Real) and math.isfinite(x)


def num_str(x):
    """one protocol token (no blanks) for any value the implementation may hand back."""
    if is_num(x):
        f = float(x)
        return str(int(f)) if f.is_integer() else repr(f)
    return "?" + "_".join(short(x, 40).split())


class Rgen:
    def __init__(self, v):
        self.v = v

    def random(self):
        return self.v


class Impl:
    """Access to the real functions and cheap construction of Path objects."""

    def __init__(self):
        from infretis.classes.path import Path
        from infretis.classes.system import System
        from infretis.core import tis
        self.Path, self.System, self.tis = Path, System, tis
        logging.getLogger("infretis.core.tis").setLevel(logging.ERROR)
        logging.getLogger("infretis.classes.path").setLevel(logging.ERROR)
        self._cache = {}

    def frame(self, idx, o):
        k = (idx, o)
        s = self._cache.get(k)
        if s is None:
            s = self.System()
            s.order = [float(o)]
            s.config = (f"f{idx}", idx)
            self._cache[k] = s
        return s

    def path(self, orders, unique=False, cache=True, maxlen=10000):
        """unique: one System object per frame index (so that a returned sub-path can be
        mapped back to frame indices by object identity)."""
        p = self.Path(maxlen=maxlen)
        if unique and cache:
            p.phasepoints = [self.frame(i, o) for i, o in enumerate(orders)]
        elif unique:
            fr = []
            for i, o in enumerate(orders):
                s = self.System()
                s.order = [float(o)]
                s.config = (f"f{i}", i)
                fr.append(s)
            p.phasepoints = fr
        else:
            p.phasepoints = [self.frame(0, o) for o in orders]
        return p

    @staticmethod
    def _weight_and_seg(r):
        """-> (weight, frames of the returned path, path, problem); problem: text describing an
        answer outside the domain (weight, path) of wirefence_weight_and_pick, else None."""
        if isinstance(r, Raised):
            return None, None, None, f"wirefence_weight_and_pick {r!r}"
        if not (isinstance(r, tuple) and len(r) == 2):
            return None, None, None, f"wirefence_weight_and_pick returned {short(r)} instead of (weight, path)"
        w, seg = r
        if not is_num(w):
            return None, None, None, f"wirefence_weight_and_pick returned the weight {short(w)}, not a number"
        pp = getattr(seg, "phasepoints", None)
        if not isinstance(pp, (list, tuple)):
            return w, None, seg, f"wirefence_weight_and_pick returned {short(seg)} as sub-path, not a path"
        return w, list(pp), seg, None

    def weight(self, p, left, right):
        """-> (weight, frames of the returned path, path, problem)"""
        return self._weight_and_seg(call(self.tis.wirefence_weight_and_pick, p, left, right))

    def pick(self, p, left, right, u, ens=None):
        """-> (n_frames, frame indices of the seed or None, orders of the seed frames, seed path, problem)
        ens: further entries of the ensemble dictionary handed over as ens_set (tis_set, ...)"""
        idx = {id(s): i for i, s in enumerate(p.phasepoints)}
        ens_set = dict(ens or {})
        ens_set["rgen"] = Rgen(u)
        r = call(self.tis.wirefence_weight_and_pick, p, left, right, return_seg=True, ens_set=ens_set)
        w, pp, seg, prob = self._weight_and_seg(r)
        if prob:
            return w, None, [], seg, prob
        if not pp:
            return w, None, [], seg, None
        ii = [idx.get(id(s), -1) for s in pp]            # -1: not a frame of the path
        return w, ii, [call(lambda s=s: s.order[0]) for s in pp], seg, None

    def compute_weight(self, p, intfs, mv):
        """-> number, or Raised (undefined), or whatever else the code returns"""
        return call(self.tis.compute_weight, p, list(intfs), mv)

    def cv(self, p, intfs, moves, lm1, cap, minus):
        return call(self.tis.calc_cv_vector, p, list(intfs), list(moves), lambda_minus_one=lm1, cap=cap, minus=minus)

    def has(self, pa, pb, intf0, intf1, moves, rand):
        return call(self.tis.high_acc_swap, [pa, pb], Rgen(rand), list(intf0), list(intf1), list(moves))


class Batch:
    """Buffered lock-step: requests go to the model runner in chunks; each case carries the
    implementation's canonical output, an optional oracle failure and a description."""

    def __init__(self, ctx, runner):
        self.ctx, self.runner = ctx, runner
        self.reqs, self.meta = [], []
        self.compared = 0
        self.disagree = 0
        self.oracle_fail = 0
        self.samples = {}
        self.fail_by_op = {}
        self.histories = []          # family "history": the call sequences run so far, in order

    def add(self, req, impl_out, err, desc, cmp=None, nontrivial=True):
        self.reqs.append(req)
        self.meta.append((impl_out, err, desc, cmp))
        self.ctx.count(req, nontrivial=nontrivial)
        if len(self.reqs) >= CHUNK:
            self.flush()

    def flush(self):
        if not self.reqs:
            return
        outs = self.runner.run(self.reqs)
        for req, mo, (io, err, desc, cmp) in zip(self.reqs, outs, self.meta):
            self.compared += 1
            if desc["op"] not in self.samples and io.split(" ")[-1] not in ("N", "0", "-") and len(req) > 24:
                self.samples[desc["op"]] = {"request": req, "model": mo, "impl": io}
            if err:
                self.oracle_fail += 1
                # at most 3 reports per kind of case (so that a later, more telling kind of case
                # is not crowded out by an earlier one), 15 in all
                k = self.fail_by_op[desc["op"]] = self.fail_by_op.get(desc["op"], 0) + 1
                if k <= 3 and sum(min(v, 3) for v in self.fail_by_op.values()) <= 15:
                    if desc["op"] == "history":
                        # the failing input is the call SEQUENCE: cut down and confirmed in a fresh interpreter
                        err, desc = history_report(self.histories, desc, err, desc.get("handed"))
                    self.ctx.violation(f"C10 statement fails on the implementation: {err}",
                                       {"case": desc, "impl": io, "model": mo, "request": req}, True)
                continue
            bad = (cmp(mo, io) if cmp else (None if mo == io else "outputs differ"))
            if bad:
                self.disagree += 1
                if self.disagree <= 3:
                    if desc["op"] == "history":
                        desc = history_case(self.histories, desc, False)[0]
                    self.ctx.violation(
                        f"correspondence model/implementation broken for {desc['op']}: {bad} (the property oracle does not reject the implementation's output on this case)",
                        {"correspondence": "c10 runner vs infretis.core.tis", "case": desc, "impl": io, "model": mo, "request": req}, False)
        self.reqs, self.meta = [], []


def cmp_wf(mo, io):
    """model line: 'segs n specsegs specn'; impl/oracle: 'oraclesegs weight'."""
    t = mo.split(" ")
    if len(t) != 4:
        return f"model runner error: {mo}"
    osegs, w = io.split(" ")
    if t[0] != t[2] or t[1] != t[3]:
        return "extracted model and extracted spec disagree"
    if t[1] != w:
        return f"weight: model {t[1]} vs implementation {w}"
    if t[0] != osegs:
        return f"segments: model {t[0]} vs brute-force declarative enumeration {osegs}"
    return None


# ----------------------------------------------------------------------------- case builders


def wf_case(B, I, p, orders, left, right, ints=None, tag="wf", reversal=True):
    """weight of one path: implementation vs model/spec, plus the statement's oracle.
    reversal=False: exactly one call of the implementation (history family)."""
    original = p.phasepoints
    w, pp, _seg, prob = I.weight(p, left, right)
    osegs = oracle_segments(orders, left, right)
    frames = set()
    for s, e, _ in osegs:
        frames.update(range(s + 1, e))
    err = None
    if prob:
        err = f"{prob}; the weight is the number of frames on valid sub-paths = {len(frames)} (sub-paths {osegs})"
    elif w != len(frames):
        err = f"weight {short(w)} != number of frames on valid sub-paths {len(frames)} (sub-paths {osegs})"
    elif (w > 0) != bool(frames):
        err = "weight positive without / zero despite a frame on a valid sub-path"
    elif len(pp) != 0:
        err = "a segment was returned although none was requested"
    elif reversal:
        p.phasepoints = list(original)[::-1]
        wr, _pp, _s, prob_r = I.weight(p, left, right)
        if prob_r:
            err = f"time-reversed path: {prob_r}; forward weight {w}"
        elif wr != w:
            err = f"weight changes under time reversal: {w} forward, {short(wr)} reversed"
    p.phasepoints = original
    if ints is None:
        l_i, r_i, o_i = left, right, orders
    else:
        l_i, r_i, o_i = ints
    # non-trivial: some frame lies inside [left, right), so the scan can leave its initial state
    B.add(f"wf {l_i} {r_i} {enc(o_i)}", f"{segs_str(osegs)} {num_str(w)}", err,
          {"op": tag, "orders": list(orders), "left": left, "right": right}, cmp_wf,
          nontrivial=any(left <= x < right for x in orders))
    return w, osegs


def u_grid(osegs, rng, ctx):
    """random numbers for the segment choice: dyadic grid, out-of-range values, and for every
    cumulative boundary c_k/n its float neighbours (and the boundary itself when the float
    quotient is exact)."""
    n = sum(s[2] for s in osegs)
    us = [0.0, 0.25, 0.5, 0.75, 1.0 - 2.0 ** -53, 1.0, 1.5, rng.getrandbits(30) / 2.0 ** 30]
    c = 0
    for s in osegs:
        c += s[2]
        b = c / n
        us.append(math.nextafter(b, -math.inf))
        us.append(math.nextafter(b, math.inf))
        if Fraction(*b.as_integer_ratio()) == Fraction(c, n):
            us.append(b)
        else:
            ctx.dist("float_boundary_skipped")
    return sorted(set(us))


def fine_u_grid(osegs, rng, ctx):
    """Fine grid for the proportional-pick law on a path with several valid sub-paths:
    u_grid (every cumulative boundary c_k/n itself when representable + its float neighbours,
    0, values >= 1) + all multiples of 1/64 in [0, 1) + the midpoint of every selecting
    interval + the boundaries j/m (m = number of sub-paths) of a draw that ignores the frame
    counts, with their float neighbours + seeded random values."""
    n = sum(s[2] for s in osegs)
    m = len(osegs)
    us = set(u_grid(osegs, rng, ctx))
    us.update(k / 64.0 for k in range(64))
    c = 0
    for s in osegs:
        us.add((2 * c + s[2]) / (2.0 * n))
        c += s[2]
    for j in range(1, m):
        b = j / m
        us.update((math.nextafter(b, -math.inf), b, math.nextafter(b, math.inf)))
    us.update(rng.getrandbits(40) / 2.0 ** 40 for _ in range(4))
    return sorted(us)


def unequal_lengths(osegs):
    return len({s[2] for s in osegs}) >= 2


def built_unequal_paths(rng, nrandom):
    """Order sequences over ALPHA for (left, right) = (1, 3) holding >= 2 valid sub-paths of
    UNEQUAL frame counts: systematic (all ordered pairs of counts 1..6, all triples of counts
    1..4, in the entry/exit patterns L-L-L.., L-R-L.., R-L-L..) and seeded random ones with
    invalid right-right decoys, jumps over the region and filler frames in between.  Every
    sequence is filtered by the declarative oracle, not trusted by construction."""
    out = []

    def build(counts, ends):
        seq = [ends[0]]
        for c, e in zip(counts, ends[1:]):
            seq += [2] * c + [e]
        return tuple(seq)

    lens = [c for k in (2, 3) for c in itertools.product(range(1, 7 if k == 2 else 5), repeat=k) if len(set(c)) > 1]
    for c in lens:
        k = len(c)
        out.append(build(c, [0] * (k + 1)))                                   # left-left ...
        out.append(build(c, [0, 4, 0, 0][:k + 1]))                            # left-right, right-left ...
        out.append(build(c, [3, 0, 0, 4][:k + 1]))                            # right-left, left-left ...
    for _ in range(nrandom):
        seq = [rng.choice((0, 0, 3, 4))]
        for _k in range(rng.randrange(2, 7)):
            t = rng.random()
            if t < 0.15:                                                        # filler outside frames / jump over
                seq += [rng.choice((0, 3, 4)) for _j in range(rng.randrange(1, 3))]
            inner = [rng.choice((1, 2, 2)) for _j in range(rng.randrange(1, 9))]
            seq += inner + [rng.choice((0, 0, 3, 4))]
        out.append(tuple(seq))
    seen, res = set(), []
    for seq in out:
        if seq not in seen and unequal_lengths(oracle_segments(seq, 1, 3)):
            seen.add(seq)
            res.append(seq)
    return res


def limit_values(osegs, npath):
    """tis_set.maxlength values below, at and above the number of phase points (frames + 2) of every
    valid sub-path, around the length of the whole path, tiny and generous."""
    vals = {1, 2, 3, npath - 1, npath, npath + 1, 2000}
    for _s, _e, n in osegs:
        vals.update((n, n + 1, n + 2, n + 3))
    return sorted((v for v in vals if v >= 1), reverse=True)


def interval_midpoints(osegs):
    """one random number per valid sub-path (the midpoint of its selecting interval) + both ends of [0, 1)"""
    n = sum(s[2] for s in osegs)
    us, c = [0.0, 1.0 - 2.0 ** -53], 0
    for s in osegs:
        us.append((2 * c + s[2]) / (2.0 * n))
        c += s[2]
    return sorted(set(us))


def long_subpath_paths(rng, nrandom):
    """Paths for (left, right) = (1, 3) whose valid sub-paths are long compared with usual limits
    (a long recrossing sub-path of a loaded path), next to short ones, decoys and jumps."""
    out = []
    for c in (8, 12, 20, 33):
        out.append((0, 0) + (2,) * c + (0, 0))                                         # one L->L
        out.append((0,) + (1,) * 3 + (4,) + (2,) * 2 + (4,) + (2,) * c + (0, 0))      # L->R, R->R decoy, long R->L
        out.append((0,) + (1,) * c + (0,) + (2,) * 2 + (0,))                           # long and short L->L
        out.append((3,) + (2,) * c + (0,) + (1,) + (4, 0) + (2,) * (c // 2) + (3,))   # R->L, L->R (frame on right), jump, L->R
    for _ in range(nrandom):
        seq = [rng.choice((0, 0, 3, 4))]
        for _k in range(rng.randrange(1, 5)):
            inner = [rng.choice((1, 2, 2)) for _j in range(rng.choice((1, 2, 3, 7, 15, 30)))]
            seq += inner + [rng.choice((0, 0, 3, 4))]
            if rng.random() < 0.2:
                seq += [rng.choice((0, 3, 4))]
        out.append(tuple(seq))
    seen, res = set(), []
    for seq in out:
        if seq not in seen and oracle_segments(seq, 1, 3):
            seen.add(seq)
            res.append(seq)
    return res


def float_decision_differs(osegs, u):
    """True iff for some cumulative boundary the float test `c / n >= u` of the code and the
    exact test c/n >= u disagree (u within rounding error of a non-representable boundary)."""
    n = sum(s[2] for s in osegs)
    fu = Fraction(*float(u).as_integer_ratio())
    c = 0
    for s in osegs:
        c += s[2]
        if (c / n >= u) != (Fraction(c, n) >= fu):
            return True
    return False


def full_ens(left, right, tis_maxlength):
    """An ensemble dictionary of the shape REPEX_state.initiate_ensembles builds for a wire-fencing
    ensemble (lambda_i = left, cap = right), with the CURRENT tis_set.maxlength of the run."""
    return {"interfaces": (float(left) - 1.0, float(left), float(right) + 1.0),
            "tis_set": {"maxlength": tis_maxlength, "allowmaxlength": False, "zero_momentum": False,
                        "n_jumps": 2, "interface_cap": float(right), "quantis": False, "accept_all": False,
                        "lambda_minus_one": False},
            "mc_move": "wf", "ens_name": "001", "start_cond": "L"}


NOLIMITS = object()


def pick_case(B, I, orders, left, right, u, ints=None, tag="pick", tis_maxlength=NOLIMITS, path_maxlen=10000, p=None):
    """p given (history family): the call is made on that path object (path_maxlen must be its maxlen),
    otherwise a fresh path is built from the orders.
    tis_maxlength given (family 'length limits'): the implementation gets a full ensemble dictionary
    whose tis_set.maxlength is that value and a path whose own maxlen is path_maxlen (None = no limit);
    the model (command pickm) gets path.maxlen, the only limit the code reads."""
    limits = tis_maxlength is not NOLIMITS
    osegs = oracle_segments(orders, left, right)
    if osegs and float_decision_differs(osegs, u):
        B.ctx.dist("float_boundary_skipped")
        return
    if p is None:
        p = I.path(orders, unique=True, cache=(ints is None), maxlen=path_maxlen)
    w, ii, seed_orders, seg, prob = I.pick(p, left, right, u, ens=(full_ens(left, right, tis_maxlength) if limits else None))
    fu = Fraction(*float(u).as_integer_ratio())
    k = oracle_pick(osegs, fu)                       # what the statement's interval law selects
    law = None if k is None else osegs[k]
    nfr = sum(x[2] for x in osegs)
    err = None
    io = "N"
    if prob:
        # an exception / a value that is not (weight, path): a finding about the implementation.
        # For a possible random number (0 <= u < 1) it is judged by the statement; outside that
        # range only the lock-step with the model (proved for every u) is at stake.
        io = "?" + "_".join(prob.split())[:80]
        if 0.0 <= u < 1.0:
            err = f"u={u!r}: {prob}, but the interval law c_(k-1)/n < u <= c_k/n selects {law}"
    elif w != nfr:
        err = f"u={u!r}: weight {short(w)} returned with the seed != number of frames on valid sub-paths {nfr} (sub-paths {osegs})"
    elif ii is None:
        if k is not None:
            err = f"u={u!r}: no seed sub-path returned but the interval law c_(k-1)/n < u <= c_k/n selects {law}"
    else:
        s, e = ii[0], ii[-1]
        if ii != list(range(s, e + 1)) or s < 0:
            err = f"u={u!r}: seed frames {short(ii)} are not the contiguous frames entry..exit of a sub-path of the path (-1 = not a frame of the path); the interval law c_(k-1)/n < u <= c_k/n selects {law}"
        elif (s, e, e - s - 1) not in osegs:
            err = f"u={u!r}: seed sub-path ({s},{e}) is not a valid sub-path {osegs}; the interval law c_(k-1)/n < u <= c_k/n selects {law}"
        elif law != (s, e, e - s - 1):
            err = f"u={u!r}: chosen sub-path ({s},{e}) but the interval law c_(k-1)/n < u <= c_k/n selects {law} (valid sub-paths (entry, exit, frames) {osegs}, n={nfr})"
        elif getattr(seg, "generated", None) != "ct":
            err = "seed sub-path not marked generated='ct'"
        elif any(not is_num(x) or x != orders[j] for x, j in zip(seed_orders, ii)):
            err = f"u={u!r}: the seed's frames carry the orders {short(seed_orders)}, the path's frames {s}..{e} carry {short(list(orders[s:e + 1]))}"
    if ints is None:
        l_i, r_i, o_i = left, right, list(orders)
    else:
        l_i, r_i, o_i = ints
    if ii is not None and not prob:
        if all(isinstance(j, int) and 0 <= j < len(o_i) for j in ii):
            # with limits: the frame indices (identities) themselves; without: the orders they carry
            io = f"{ii[0]}:{ii[-1]}:{ii[-1] - ii[0] - 1} {enc(ii) if limits else enc([o_i[j] for j in ii])}"
        else:
            io = "?" + "_".join(short(ii, 80).split())
    note = "" if 0.0 <= u < 1.0 else f" (u={u!r} is not a possible value of rgen.random(); the model's interval law is proved for every u)"
    desc = {"op": tag, "orders": list(orders), "left": left, "right": right, "u": u}
    req = f"pick {l_i} {r_i} {enc(o_i)} {fu.numerator}/{fu.denominator}"
    if limits:
        desc["tis_maxlength"], desc["path_maxlen"] = tis_maxlength, path_maxlen
        req = f"pickm {l_i} {r_i} {enc(o_i)} {fu.numerator}/{fu.denominator} {'N' if path_maxlen is None else path_maxlen} {tis_maxlength}"
        if err:
            err += (f" [ensemble tis_set.maxlength = {tis_maxlength}, path.maxlen = {path_maxlen}, path of {len(orders)} frames {short(list(orders), 200)}, "
                    f"left/right = {left}/{right}: the seed is exactly one valid sub-path with both end points whatever the length limits]")
    B.add(req, io, err, desc,
          lambda mo, io_: None if mo == io_ else f"model '{mo}' vs implementation '{io_}'{note}")


def cw_case(B, I, p, orders, trip, mv, ints=None, tag="compute_weight"):
    r = I.compute_weight(p, [float(t) for t in trip], mv)
    exp = oracle_compute_weight(orders, trip[0], trip[1], trip[2], mv)
    err = None
    undefined = isinstance(r, Raised)          # any exception = no weight for this input
    if undefined != (exp is None) or (not undefined and not (is_num(r) and r == exp)):
        err = f"compute_weight {'' if undefined else '= '}{short(r)}, statement gives {exp} (base weight x2 iff ends on different outer sides and move in ss/wf)"
    io = "N" if undefined else num_str(r)
    if ints is None:
        t_i, o_i = trip, orders
    else:
        t_i, o_i = ints
    B.add(f"cw {enc(o_i)} {t_i[0]} {t_i[1]} {t_i[2]} {mv}", io, err,
          {"op": tag, "orders": list(orders), "interfaces": list(trip), "move": mv})


def oracle_cv(orders, intfs, moves, lm1, cap, minus):
    """The statement: None = undefined."""
    if not orders:
        return None
    mx = max(orders)
    if minus:
        l = lm1 if lm1 is not False else (intfs[0] if intfs else None)
        if l is None:
            return None
        return [1 if l <= mx else 0]
    out = []
    for k, lk in enumerate(intfs[:-1]):
        if k + 1 >= len(moves):
            return None
        if moves[k + 1] == "wf":
            capv = cap if cap is not None else intfs[-1]
            w = oracle_compute_weight(orders, intfs[0], lk, capv, "wf")
            if w is None:
                return None
            out.append(w)
        else:
            out.append(1 if lk <= mx else 0)
    return out + [0]


def minus_path_type(orders, lm1, lam0):
    """The declarative notion of a valid [0-] path (coq/proofs/WeightP.v minus_path): None if the
    sequence is not one, else its type.  lm1 False: ensemble (-inf, lambda_0, lambda_0), start R.
    lm1 a number (0 included): ensemble (lm1, ., lambda_0), start L or R; ends at or beyond an
    interface, frames in between inside [lm1, lambda_0] (stop rule: < lm1 or > lambda_0)."""
    if len(orders) < 3:
        return None
    first, mid, last = orders[0], orders[1:-1], orders[-1]
    if lm1 is False:
        return "R->R" if (first >= lam0 and last >= lam0 and all(x <= lam0 for x in mid)) else None

    def side(x):
        return "L" if x <= lm1 else ("R" if x >= lam0 else None)
    if side(first) and side(last) and all(lm1 <= x <= lam0 for x in mid):
        return f"{side(first)}->{side(last)}"
    return None


def lm1_class(lm1):
    return "absent" if lm1 is False else ("negative" if lm1 < 0 else ("zero" if lm1 == 0 else "positive"))


# (lambda_0, further interfaces, lambda_minus_one values: absent, negative, 0.0, -0.0, positive below lambda_0)
MINUS_CFG = [
    (4, (6, 9), [False, -3, 0.0, -0.0, 2]),
    (1, (3,), [False, -2, 0.0, -0.0]),          # lambda_-1 = 0.0 directly below lambda_0: nothing in between
    (0, (2, 5), [False, -2, -1]),               # lambda_0 = 0.0 itself
    (-2, (0, 3), [False, -5, -3]),
    (7, (8,), [False, 0.0, 5, 6]),
]


def cv_case(B, I, p, orders, intfs, moves, lm1, cap, minus, ints=None, tag="calc_cv_vector", valid_type=None):
    """valid_type: the sequence is a valid [0-] path of that type (family calc_cv_vector_minus): the
    statement then gives (1,) whatever lambda_minus_one is (absent or any number, 0.0 included)."""
    r = I.cv(p, [float(x) for x in intfs], moves, (False if lm1 is False else float(lm1)),
             (None if cap is None else float(cap)), minus)
    exp = oracle_cv(orders, intfs, moves, lm1, cap, minus)
    assert valid_type is None or exp == [1], "harness: the two formulations of the [0-] clause disagree"
    err = None
    undefined = isinstance(r, Raised)          # any exception = no weight vector for this input
    wellformed = isinstance(r, (tuple, list)) and all(is_num(x) for x in r)
    if undefined:
        io = "N"
        if exp is not None:
            err = f"calc_cv_vector {short(r)}, statement gives {exp}"
    elif not wellformed:
        io = "?" + "_".join(short(r, 60).split())
        err = f"calc_cv_vector = {short(r)} is not a tuple of numbers, statement gives {exp}"
    else:
        io = enc([num_str(x) for x in r])
        if exp is None or [float(x) for x in r] != [float(x) for x in exp]:
            err = f"calc_cv_vector = {short(r)}, statement gives {exp}"
        elif not isinstance(r, tuple):
            err = "weight vector is not a tuple"
    if err and minus:
        kind = f"a valid [0-] path of type {valid_type}" if valid_type else "a [0-] path"
        err += (f" [{kind}, orders {short(list(orders), 200)}, lambda_minus_one = {lm1!r} ({lm1_class(lm1)}), "
                f"interfaces {list(intfs)}: the weight vector of a valid [0-] path is (1,); lambda_minus_one is absent (False) or a number, 0.0 included]")
    if ints is None:
        o_i, f_i, lm_i, cap_i = orders, intfs, lm1, cap
    else:
        o_i, f_i, lm_i, cap_i = ints
    if lm_i is not False and float(lm_i).is_integer():
        lm_i = int(lm_i)                       # 0.0 / -0.0 / 2.0 -> the integer token of the model protocol
    B.add(f"cv {enc(o_i)} {enc(f_i)} {enc(moves)} {'N' if lm_i is False else lm_i} {'N' if cap_i is None else cap_i} {int(minus)}",
          io, err, {"op": tag, "orders": list(orders), "interfaces": list(intfs), "moves": list(moves),
                    "lambda_minus_one": lm1, "cap": cap, "minus": minus})


def has_case(B, I, ctx, oa, ob, intf0, intf1, mvs, rand):
    pa, pb = I.path(oa), I.path(ob)
    r = I.has(pa, pb, [float(x) for x in intf0], [float(x) for x in intf1], mvs, rand)
    ws = [oracle_compute_weight(oa, *intf0, mvs[0]), oracle_compute_weight(ob, *intf1, mvs[1]),
          oracle_compute_weight(ob, *intf0, mvs[0]), oracle_compute_weight(oa, *intf1, mvs[1])]
    err = None
    fr = Fraction(*float(rand).as_integer_ratio())
    undefined = isinstance(r, Raised)          # any exception = no decision for this input
    wellformed = isinstance(r, tuple) and len(r) == 2 and (isinstance(r[0], bool) or is_num(r[0]))
    if not undefined and not wellformed:
        io = "?" + "_".join(short(r, 60).split())
        err = f"high_acc_swap = {short(r)} is not (accepted, status); weights {ws}"
    elif None in ws:
        if not undefined:
            err = f"high_acc_swap returned {short(r)} although a weight is undefined"
        io = "N"
    else:
        ratio = Fraction(1) if ws[0] == 0 or ws[1] == 0 else Fraction(ws[2] * ws[3], ws[0] * ws[1])
        exp = fr < ratio
        pf = 1.0 if ws[0] == 0 or ws[1] == 0 else float(ws[2]) * float(ws[3]) / (float(ws[0]) * float(ws[1]))
        if (rand < pf) != exp:      # rand within rounding error of a non-representable ratio
            ctx.dist("float_boundary_skipped")
            return
        if undefined:
            err = f"high_acc_swap {short(r)} although all four weights are defined: {ws}"
            io = "N"
        else:
            acc = int(bool(r[0]))
            io = f"{acc} {ratio.numerator}/{ratio.denominator}" if ratio.denominator != 1 else f"{acc} {ratio.numerator}"
            if bool(r[0]) != exp or r[1] != ("ACC" if exp else "HAS"):
                err = f"high_acc_swap = {short(r)} for rand={rand!r}, weights {ws}: statement gives accept={exp} (p = {ratio})"
    B.add(f"has {fr.numerator}/{fr.denominator} {enc(oa)} {enc(ob)} {enc(intf0)} {enc(intf1)} {mvs[0]} {mvs[1]}",
          io, err, {"op": "high_acc_swap", "path0": list(oa), "path1": list(ob), "intf0": list(intf0), "intf1": list(intf1),
                    "moves": list(mvs), "rand": rand},
          lambda mo, io_: None if (mo == io_ or (mo != "N" and io_ != "N" and mo.split(" ")[:2] == io_.split(" ")[:2])) else "acceptance / ratio differ")


def has_rands(ws, rng, ctx):
    out = [0.0, 0.25, 0.5, 0.75, 1.0 - 2.0 ** -53, rng.getrandbits(20) / 2.0 ** 20]
    if None not in ws and ws[0] and ws[1]:
        p = ws[2] * ws[3] / (ws[0] * ws[1])
        out += [math.nextafter(p, -math.inf), math.nextafter(p, math.inf)]
        if Fraction(*float(p).as_integer_ratio()) == Fraction(ws[2] * ws[3], ws[0] * ws[1]):
            out.append(p)
        else:
            ctx.dist("float_boundary_skipped")
    return sorted({x for x in out if 0.0 <= x})


# ----------------------------------------------------------------------------- history family
# The three functions are functions of the path's orders and the interfaces (and the one random
# number).  Family "history": SEQUENCES of calls in ONE interpreter process on path objects that
# carry a path number (and randomised generated / maxlen / status / time_origin / weights /
# weight): different paths with equal numbers and equal lengths, copies edited in place
# (Path.copy keeps the number), reversed paths given the number of the original, the same path
# object after its orders were changed, a second set of paths numbered like the first one ("a
# second simulation set up in the same process"), interleaved with different interface sets.
# Oracle: every call's result is what the statement gives for THAT call's arguments alone (and
# what the model, a function, gives for them).  A step is a JSON-able dictionary; a failing call
# is reported with the sequence of steps that leads to it, cut down to a minimal sequence that
# fails when executed in a fresh interpreter (so that the replay file reproduces it).

HIST_ATTRS = ("path_number", "generated", "maxlen", "status", "time_origin", "weights", "weight")


class _NoCtx:
    def dist(self, *a, **k):
        pass


class Sink:
    """Collects what a case builder hands to the Batch."""

    def __init__(self):
        self.items = []
        self.ctx = _NoCtx()

    def add(self, req, io, err, desc, cmp=None, nontrivial=True):
        self.items.append((req, io, err, desc, cmp, nontrivial))


def _tuples(x):
    return tuple(_tuples(y) for y in x) if isinstance(x, (list, tuple)) else x


def handed(p):
    """the attributes of the path object the implementation is handed"""
    return {a: getattr(p, a, "<missing>") for a in HIST_ATTRS}


class History:
    """Executes steps on real Path objects kept in named slots: first the path action of the step
    (new / copy_edit / reverse / edit / same), then exactly ONE call of the implementation, judged by
    the existing case builders (statement oracle + model request) on the orders the path carries now."""

    def __init__(self, I):
        self.I = I
        self.slots = {}       # name -> Path object
        self.orders = {}      # name -> orders its frames carry now (bookkeeping of the harness)

    def _frames(self, slot, orders):
        out = []
        for k, o in enumerate(orders):
            s = self.I.System()
            s.order = [float(o)]
            s.config = (f"{slot}-{k}.xyz", k)
            out.append(s)
        return out

    @staticmethod
    def _set(p, attrs):
        for a, v in (attrs or {}).items():
            if a not in HIST_ATTRS:
                raise KeyError(a)
            setattr(p, a, _tuples(v))

    def prepare(self, st):
        how, slot = st["how"], st["slot"]
        if how == "new":
            p = self.I.Path(maxlen=(st.get("attrs") or {}).get("maxlen", 10000))
            orders = tuple(st["orders"])
            p.phasepoints = self._frames(slot, orders)
        elif how == "copy_edit":                       # Path.copy keeps number, status, generated, maxlen, weights
            p = self.slots[st["from"]].copy()
            orders = tuple(st["orders"])
            if len(orders) != len(p.phasepoints):
                raise KeyError("copy_edit keeps the length")
            for pp, o in zip(p.phasepoints, orders):
                pp.order = [float(o)]                  # System.copy is shallow: assign, never mutate the shared list
        elif how == "reverse":                         # Path.reverse: new path, frames copied in reverse order
            p = self.slots[st["from"]].reverse(None)
            orders = tuple(reversed(self.orders[st["from"]]))
        elif how == "edit":                            # the SAME path object, other orders
            p = self.slots[slot]
            orders = tuple(st["orders"])
            if len(orders) == len(p.phasepoints):
                for pp, o in zip(p.phasepoints, orders):
                    pp.order = [float(o)]
            else:
                p.phasepoints = self._frames(slot, orders)
        elif how == "same":
            p, orders = self.slots[slot], self.orders[slot]
        else:
            raise KeyError(how)
        self._set(p, st.get("attrs"))
        self.slots[slot], self.orders[slot] = p, orders
        return p, orders

    def step(self, st):
        """-> (request line, implementation's canonical answer, oracle failure or None, cmp, nontrivial,
        attributes of the path object handed over)"""
        p, orders = self.prepare(st)
        c, S, I = st["call"], Sink(), self.I
        at = handed(p)
        fn = c["fn"]
        if fn == "wf":
            wf_case(S, I, p, orders, c["left"], c["right"], reversal=False)
        elif fn == "pick":
            pick_case(S, I, orders, c["left"], c["right"], c["u"], tis_maxlength=c["tis_maxlength"], path_maxlen=p.maxlen, p=p)
        elif fn == "cw":
            cw_case(S, I, p, orders, tuple(c["interfaces"]), c["move"])
        elif fn == "cv":
            cv_case(S, I, p, orders, tuple(c["interfaces"]), list(c["moves"]), c["lambda_minus_one"], c["cap"], c["minus"])
        else:
            raise KeyError(fn)
        if not S.items:
            raise KeyError("random number within rounding error of a boundary")      # the generator never emits one
        req, io, err, _d, cmp, nontrivial = S.items[0]
        return req, io, err, cmp, nontrivial, at


def _lst(x):
    return "[" + ",".join(str(v) for v in x) + "]"


def step_str(st):
    how, slot = st["how"], st["slot"]
    num = (st.get("attrs") or {}).get("path_number", "")
    num = f"#{num}" if "path_number" in (st.get("attrs") or {}) else ""
    if how == "new":
        d = f"{slot}=Path{num}{_lst(st['orders'])}; "
    elif how == "copy_edit":
        d = f"{slot}={st['from']}.copy(){num}, orders set to {_lst(st['orders'])}; "
    elif how == "reverse":
        d = f"{slot}={st['from']}.reverse(){num}; "
    elif how == "edit":
        d = f"orders of {slot} set to {_lst(st['orders'])}; "
    else:
        d = ""
    c = st["call"]
    if c["fn"] == "wf":
        return d + f"wirefence_weight_and_pick({slot},{c['left']},{c['right']})"
    if c["fn"] == "pick":
        return d + f"wirefence_weight_and_pick({slot},{c['left']},{c['right']},return_seg,u={c['u']!r})"
    if c["fn"] == "cw":
        return d + f"compute_weight({slot},{_lst(c['interfaces'])},{c['move']})"
    lm1 = c["lambda_minus_one"]
    return d + (f"calc_cv_vector({slot},{_lst(c['interfaces'])},{_lst(c['moves'])}"
                + ("" if lm1 is False else f",lambda_minus_one={lm1}") + ("" if c["cap"] is None else f",cap={c['cap']}")
                + (",minus" if c["minus"] else "") + ")")


# ---- generators

HIST_PAIRS = [(1, 3), (1, 3), (1, 4), (2, 3), (1, 2), (0, 3), (2, 2), (3, 1)]
HIST_TRIPS = [(0, 1, 3), (0, 1, 3), (1, 2, 3), (0, 2, 4), (1, 1, 3), (0, 1, 4), (0, 0, 3)]
HIST_INTFS = [(1, 3), (0, 1, 3), (1, 2, 3), (0, 1, 2, 3), (1, 2, 3, 4), (0, 1, 2, 3, 4)]
MOVES = ("sh", "wf", "ss")


def hist_orders(rng, L):
    if L == 0:
        return ()
    if rng.random() < 0.4:
        return tuple(rng.choice(ALPHA) for _ in range(L))
    seq = [rng.choice((0, 0, 3, 4))]                                   # outside frame, run of inside frames, outside frame ...
    while len(seq) < L:
        seq += [rng.choice((1, 2, 2)) for _ in range(rng.randrange(1, 5))]
        seq.append(rng.choice((0, 0, 3, 4)))
    return tuple(seq[:L])


def hist_attrs(rng, L, number):
    """Randomised attributes of a path object (the functions must not depend on any of them, except
    that a seed sub-path is created with the path's maxlen)."""
    return {"path_number": number,
            "generated": rng.choice((None, "ld", "ct", ("sh", 2.0, 1, L), ("wf", 2.0, 3, L), ("s+", 0, 0, 0), ("00", 1.0, 0, 0))),
            "maxlen": rng.choice((L, L + 1, 10000, 100000, None)),
            "status": rng.choice(("", "ACC", "ACC", "BTL", "FTL")),
            "time_origin": rng.choice((0, 0, rng.randrange(1000))),
            "weights": rng.choice((None, (1.0, 0.0), (2.0, 1.0, 0.0))),
            "weight": rng.choice((0.0, 1.0, 4.0))}


def hist_template(rng, fn=None):
    """The fixed arguments of a call (everything but the path and the random number)."""
    fn = fn or rng.choice(("wf", "pick", "cw", "cw", "cv", "cv"))
    if fn in ("wf", "pick"):
        left, right = rng.choice(HIST_PAIRS)
        return {"fn": fn, "left": left, "right": right}
    if fn == "cw":
        return {"fn": "cw", "interfaces": list(rng.choice(HIST_TRIPS)), "move": rng.choice(("wf", "wf", "wf", "ss", "sh"))}
    intfs = rng.choice(HIST_INTFS)
    n = len(intfs)
    moves = [rng.choice(MOVES)] + [rng.choice(("wf", "wf", "sh", "ss")) for _ in range(n - 1)] + [rng.choice(MOVES) for _ in range(rng.choice((1, 1, 2, 4)))]
    return {"fn": "cv", "interfaces": list(intfs), "moves": moves, "lambda_minus_one": rng.choice((False, False, False, 0, 2)),
            "cap": rng.choice((None, None, 2, 3, 4)), "minus": rng.random() < 0.12}


def hist_call(rng, tmpl, orders):
    """A call from a template; the random number of a pick is drawn for the path at hand."""
    c = dict(tmpl)
    if c["fn"] == "pick":
        osegs = oracle_segments(tuple(orders), c["left"], c["right"])
        us = [x for x in (interval_midpoints(osegs) if osegs else []) + [rng.getrandbits(10) / 1024.0, 0.5]
              if not (osegs and float_decision_differs(osegs, x))]
        c["u"] = rng.choice(us) if us else 0.0
        c["tis_maxlength"] = rng.choice((1, 3, max(1, len(orders)), 2000))
    return c


def gen_history(rng):
    """One call sequence (list of steps) of one of the scenario kinds."""
    kind = rng.choice(("two_setups", "two_setups", "copy_edit", "reverse", "same_object", "mix", "mix"))
    pool = rng.sample(range(8), 3)
    if rng.random() < 0.15:
        pool[rng.randrange(3)] = rng.choice((None, 137, 100000))
    steps = []

    def new(slot, number, orders):
        return {"slot": slot, "how": "new", "orders": list(orders), "attrs": hist_attrs(rng, len(orders), number)}

    def other(tmpls):                                                   # now and then a call with another interface set in between
        return rng.choice(tmpls) if rng.random() < 0.25 else tmpls[0]

    if kind == "two_setups":
        # paths numbered 0..k-1 are weighted (REPEX_state.load_paths: calc_cv_vector with one interface / move
        # list for every path), then a second set with the same numbers and lengths
        k = rng.randrange(1, 4)
        Ls = [rng.randrange(3, 11) for _ in range(k)]
        tmpls = [hist_template(rng, rng.choice(("cv", "cv", "cw", "wf", "pick"))), hist_template(rng)]
        base = rng.choice((0, 0, 1, 5))
        for run in range(rng.choice((2, 2, 3))):
            for i, L in enumerate(Ls):
                o = hist_orders(rng, L)
                st = new(f"{'abc'[run]}{i}" if rng.random() < 0.5 else f"a{i}", base + i, o)
                st["call"] = hist_call(rng, other(tmpls), o)
                steps.append(st)
    elif kind == "copy_edit":
        L = rng.randrange(3, 11)
        tmpls = [hist_template(rng), hist_template(rng)]
        o = hist_orders(rng, L)
        st = new("a", pool[0], o)
        st["call"] = hist_call(rng, tmpls[0], o)
        steps.append(st)
        src = "a"
        for slot in ("b", "c")[:rng.randrange(1, 3)]:
            o2 = hist_orders(rng, L)
            steps.append({"slot": slot, "how": "copy_edit", "from": src, "orders": list(o2), "call": hist_call(rng, other(tmpls), o2)})
            if rng.random() < 0.5:                                      # the original is still what it was
                steps.append({"slot": "a", "how": "same", "call": hist_call(rng, tmpls[0], o)})
            src = rng.choice(("a", slot))
    elif kind == "reverse":
        L = rng.randrange(3, 12)
        tmpls = [hist_template(rng, rng.choice(("pick", "pick", "wf", "cw", "cv"))), hist_template(rng)]
        o = hist_orders(rng, L)
        st = new("a", pool[0], o)
        st["call"] = hist_call(rng, tmpls[0], o)
        steps.append(st)
        r = tuple(reversed(o))
        keep = {"path_number": pool[0]}
        if rng.random() < 0.5:
            keep.update(status=st["attrs"]["status"], generated=st["attrs"]["generated"], time_origin=st["attrs"]["time_origin"])
        steps.append({"slot": "r", "how": "reverse", "from": "a", "attrs": keep, "call": hist_call(rng, other(tmpls), r)})
        if rng.random() < 0.5:
            steps.append({"slot": "a", "how": "same", "call": hist_call(rng, tmpls[0], o)})
        if rng.random() < 0.3:
            steps.append({"slot": "rr", "how": "reverse", "from": "r", "attrs": {"path_number": pool[0]}, "call": hist_call(rng, tmpls[0], o)})
    elif kind == "same_object":
        L = rng.randrange(3, 11)
        tmpls = [hist_template(rng), hist_template(rng)]
        o = hist_orders(rng, L)
        st = new("a", pool[0], o)
        st["call"] = hist_call(rng, tmpls[0], o)
        steps.append(st)
        for _ in range(rng.randrange(1, 4)):
            o = hist_orders(rng, L if rng.random() < 0.8 else rng.randrange(0, L))
            steps.append({"slot": "a", "how": "edit", "orders": list(o), "call": hist_call(rng, other(tmpls), o)})
    else:
        # random walk over three slots, three numbers, two lengths, three argument sets
        Ls = [rng.randrange(3, 10), rng.randrange(0, 12)]
        tmpls = [hist_template(rng) for _ in range(3)]
        cur = {}
        for _ in range(rng.randrange(4, 11)):
            slot = rng.choice("abc")
            hows = ["new", "new"]
            if cur:
                hows += ["copy_edit", "reverse"]
            if slot in cur:
                hows += ["edit", "same"]
            how = rng.choice(hows)
            if how == "new":
                o = hist_orders(rng, rng.choice(Ls))
                st = new(slot, rng.choice(pool), o)
            elif how == "copy_edit":
                src = rng.choice(sorted(cur))
                o = hist_orders(rng, len(cur[src]))
                st = {"slot": slot, "how": "copy_edit", "from": src, "orders": list(o)}
            elif how == "reverse":
                src = rng.choice(sorted(cur))
                o = tuple(reversed(cur[src]))
                st = {"slot": slot, "how": "reverse", "from": src, "attrs": {"path_number": rng.choice(pool)}}
            elif how == "edit":
                o = hist_orders(rng, len(cur[slot]))
                st = {"slot": slot, "how": "edit", "orders": list(o)}
            else:
                o = cur[slot]
                st = {"slot": slot, "how": "same"}
            cur[slot] = tuple(o)
            st["call"] = hist_call(rng, rng.choice(tmpls), o)
            steps.append(st)
    return kind, steps


def exhaustive_pair_histories(seqs, number_of):
    """All ORDERED pairs (A, B) of the given sequences as two-call histories: path A with a number is
    weighted, then a different path object B with the same number (and the same length) with the same
    arguments.  The call and the way B comes about rotate with the pair index."""
    calls = [{"fn": "wf", "left": 1, "right": 3},
             {"fn": "cw", "interfaces": [0, 1, 3], "move": "wf"},
             {"fn": "cv", "interfaces": [0, 1, 3], "moves": ["sh", "sh", "wf", "wf"], "lambda_minus_one": False, "cap": None, "minus": False},
             {"fn": "pick", "left": 1, "right": 3, "u": 0.5, "tis_maxlength": 2000}]
    def with_u(c, seq):
        if c["fn"] != "pick":
            return c
        osegs = oracle_segments(seq, 1, 3)
        return dict(c, u=(0.0 if (osegs and float_decision_differs(osegs, 0.5)) else 0.5))

    k = 0
    for A in seqs:
        for B in seqs:
            if A == B:
                continue
            c = calls[k % 4]
            at = {"path_number": number_of(k), "generated": ("ld", "ct", None)[k % 3], "maxlen": (len(A), 100000, None)[(k // 3) % 3],
                  "status": "ACC", "time_origin": 0, "weights": None, "weight": 0.0}
            first = {"slot": "a", "how": "new", "orders": list(A), "attrs": at, "call": with_u(c, A)}
            how = ("new", "copy_edit", "edit")[(k // 4) % 3]
            if how == "new":
                second = {"slot": "b", "how": "new", "orders": list(B), "attrs": dict(at), "call": with_u(c, B)}
            elif how == "copy_edit":
                second = {"slot": "b", "how": "copy_edit", "from": "a", "orders": list(B), "call": with_u(c, B)}
            else:
                second = {"slot": "a", "how": "edit", "orders": list(B), "call": with_u(c, B)}
            k += 1
            yield [first, second]


# ---- fresh-interpreter evaluation and minimisation of a failing call sequence

HELPER_MARK = "C10-HISTORY-HELPER "


def _run_sequence(I, steps):
    """oracle verdict on the LAST step after running all steps; 'invalid' if the sequence cannot be executed"""
    H = History(I)
    res = None
    try:
        for st in steps:
            res = H.step(st)
    except (KeyError, IndexError, TypeError, AttributeError) as e:
        return {"invalid": repr(e)}
    if res is None:
        return {"invalid": "empty"}
    return {"err": res[2], "impl": res[1], "request": res[0]}


def _forked(I, steps):
    """run the sequence in a forked child: the state of this process (package imported, no call made) stays pristine"""
    import json
    import os
    r, w = os.pipe()
    pid = os.fork()
    if pid == 0:
        code = 0
        try:
            os.close(r)
            out = json.dumps(_run_sequence(I, steps)).encode()
            with os.fdopen(w, "wb") as f:
                f.write(out)
        except BaseException:  # noqa: BLE001
            code = 1
        os._exit(code)
    os.close(w)
    with os.fdopen(r, "rb") as f:
        data = f.read()
    os.waitpid(pid, 0)
    try:
        return json.loads(data.decode())
    except ValueError:
        return {"invalid": "child died"}


def _helper():
    """Entry point of the helper process (python -c ...): candidate sequences in on stdin; the first one whose
    last call fails when run from a pristine interpreter state is cut down (delta debugging over the earlier
    steps: drop chunks, halving the chunk size down to single steps; a trial that cannot be executed because
    a slot it refers to is gone counts as not failing) and printed."""
    import json
    import sys
    import time
    cands = json.load(sys.stdin)
    deadline = time.time() + 90
    I = Impl()
    out = {"confirmed": False}
    for ci, steps in enumerate(cands):
        res = _forked(I, steps)
        if not res.get("err"):
            continue
        chunk = max(1, (len(steps) - 1) // 2)
        while len(steps) > 1 and time.time() < deadline:
            i, removed = 0, False
            while i < len(steps) - 1 and time.time() < deadline:
                trial = steps[:i] + steps[min(i + chunk, len(steps) - 1):]
                r2 = _forked(I, trial)
                if r2.get("err"):
                    steps, res, removed = trial, r2, True
                else:
                    i += chunk
            if chunk > 1:
                chunk //= 2
            elif not removed:           # single steps, a whole pass without a removal: 1-minimal
                break
        out = {"confirmed": True, "candidate": ci, "steps": steps, "err": res["err"], "impl": res["impl"], "request": res["request"]}
        break
    sys.stdout.write("\n" + HELPER_MARK + json.dumps(out) + "\n")


def fresh_minimise(cands, timeout=240):
    """-> dict of the helper, or {'confirmed': None, 'why': ...} if the helper could not be run"""
    import json
    import os
    import subprocess
    import sys
    try:
        p = subprocess.run([sys.executable, "-W", "ignore", "-c", "import importlib.util; import checks.c10 as m; m._helper()"],
                           input=json.dumps(cands), capture_output=True, text=True, timeout=timeout, env=dict(os.environ))
        for line in p.stdout.split("\n"):
            if line.startswith(HELPER_MARK):
                return json.loads(line[len(HELPER_MARK):])
        return {"confirmed": None, "why": f"helper rc={p.returncode}: {p.stderr[-300:]}"}
    except Exception as e:  # noqa: BLE001
        return {"confirmed": None, "why": repr(e)}


def history_case(histories, desc, minimise):
    """The replayable case of a history call: the steps of its own sequence up to the call; with minimise, the
    shortest sequence found that makes the call fail in a fresh interpreter (own prefix, else preceded by the
    1, 4, 16 ... sequences run before it, else by everything run before it)."""
    h, j = desc["history"], desc["call"]
    own = histories[h][:j + 1]
    case = {"op": "history", "kind": desc.get("kind"), "steps": own, "failing_call": j,
            "position_in_run": {"sequence": h, "call": j, "calls_made_before_in_the_interpreter": sum(len(x) for x in histories[:h]) + j}}
    info = None
    if minimise:
        cands, k = [own], 1
        while k < h:
            cands.append([st for x in histories[h - k:h] for st in x] + own)
            k *= 4
        if h:
            cands.append([st for x in histories[:h] for st in x] + own)
        info = fresh_minimise(cands)
        if info.get("confirmed"):
            case["steps"], case["failing_call"] = info["steps"], len(info["steps"]) - 1
            case["confirmed_in_a_fresh_interpreter"] = True
        else:
            case["confirmed_in_a_fresh_interpreter"] = False
            case["note"] = ("the call did not fail when its sequence (nor the sequences before it) was re-run in a fresh interpreter"
                            if info.get("confirmed") is False else f"fresh-interpreter run unavailable: {info.get('why')}")
    return case, info


def history_report(histories, desc, err, handed_attrs):
    case, info = history_case(histories, desc, True)
    steps = case["steps"]
    if info and info.get("confirmed"):
        err = info["err"]
    seq = "; ".join(f"({i + 1}) {step_str(st)}" for i, st in enumerate(steps))
    msg = (f"calls in one interpreter: {seq} -- call {len(steps)} fails: {err}; every call's result must be that of its own arguments alone"
           + (" (fails as the first call of an interpreter)" if len(steps) == 1 else "")
           + f" [path attributes handed over in the failing call: {handed_attrs}]"
           + ("" if case.get("confirmed_in_a_fresh_interpreter") else f" [{case.get('note')}]"))
    return msg, case


# ----------------------------------------------------------------------------- run


def run(ctx):
    common.proof_stage(ctx, "C10", ["extract/c10.vo"])
    runner = common.runner_stage(ctx, "c10")
    if runner is None:
        return
    I = Impl()
    B = Batch(ctx, runner)
    rng = ctx.rng
    quick = ctx.tier == "quick"

    # ---------------- 0. history: sequences of calls on numbered paths in this ONE interpreter.  Runs first:
    # nothing has called the implementation yet, so the calls made before a failing call are exactly the
    # sequences recorded in B.histories (what a replay in a fresh interpreter needs).
    hrng = random.Random(ctx.seed * 7919 + 1010)
    hist_seen = {}                    # (number, length, arguments) -> orders of the last path weighted under that key
    nh_calls = nh_collide = 0

    def run_history(kind, steps):
        nonlocal nh_calls, nh_collide
        h = len(B.histories)
        B.histories.append(steps)
        Hx = History(I)
        for j, st in enumerate(steps):
            req, io, err, cmp, nontrivial, at = Hx.step(st)
            c = st["call"]
            key = (at["path_number"], len(Hx.orders[st["slot"]]), json.dumps({k: v for k, v in c.items() if k != "u"}, sort_keys=True))
            prev = hist_seen.get(key)
            if prev is not None and prev != Hx.orders[st["slot"]] and at["path_number"] is not None:
                nh_collide += 1
            hist_seen[key] = Hx.orders[st["slot"]]
            nh_calls += 1
            ctx.dist(f"history_call_{c['fn']}")
            ctx.dist(f"history_path_{st['how']}")
            ctx.dist("history_path_number_" + ("none" if at["path_number"] is None else "set"))
            ctx.dist(f"history_path_maxlen_{'none' if at['maxlen'] is None else ('len' if at['maxlen'] == len(Hx.orders[st['slot']]) else ('len+1' if at['maxlen'] == len(Hx.orders[st['slot']]) + 1 else at['maxlen']))}")
            B.add(req, io, err, {"op": "history", "fn": c["fn"], "kind": kind, "history": h, "call": j, "handed": at}, cmp, nontrivial=nontrivial)
        ctx.dist(f"history_kind_{kind}")

    # exhaustive small scope: all ordered pairs of different sequences of one length, same number, same arguments
    pair_seqs = list(itertools.product(ALPHA, repeat=3)) if quick else list(itertools.product(ALPHA, repeat=3)) + list(itertools.product((0, 2, 4), repeat=5))
    for L in sorted({len(x) for x in pair_seqs}):
        for steps in exhaustive_pair_histories([x for x in pair_seqs if len(x) == L], lambda k: k % 6):
            run_history("exhaustive_pairs", steps)
    nh_random = 2500 if quick else 25000
    for _ in range(nh_random):
        kind, steps = gen_history(hrng)
        run_history(kind, steps)
    ctx.dist("history_sequences", len(B.histories))
    ctx.dist("history_calls", nh_calls)
    ctx.dist("history_calls_same_number_length_arguments_as_an_earlier_call_but_other_orders", nh_collide)
    B.flush()

    # ---------------- 1. weights: ALL sequences over the alphabet, several (left, right)
    main_pairs = [(1, 3), (2, 2), (3, 1)]           # canonical / left = right / left > right
    extra_pairs = [(1, 4), (0, 3), (2, 3), (1, 2), (4, 0), (1, 1)]
    Lmain = {(1, 3): 7, (2, 2): 7, (3, 1): 7} if quick else {(1, 3): 9, (2, 2): 8, (3, 1): 8}
    Lextra = 6 if quick else 7
    plan = [(pr, Lmain[pr]) for pr in main_pairs] + [(pr, Lextra) for pr in extra_pairs]
    p = I.path([])
    frames = [I.frame(0, a) for a in ALPHA]
    for (left, right), maxL in plan:
        fl, fr_ = float(left), float(right)
        for L in range(0, maxL + 1):
            for seq in itertools.product(ALPHA, repeat=L):
                p.phasepoints = [frames[a] for a in seq]
                wf_case(B, I, p, seq, left, right)
            ctx.dist(f"wf_exhaustive_pair_{left}_{right}", 5 ** L)
    B.flush()

    # ---------------- 2. segment choice: all sequences (canonical pair) with a valid sub-path
    Lpick = 6 if quick else 7
    npick = 0
    for (left, right), maxL in [((1, 3), Lpick), ((1, 4), Lpick - 1), ((2, 2), 4), ((3, 1), 4)]:
        for L in range(0, maxL + 1):
            for seq in itertools.product(ALPHA, repeat=L):
                osegs = oracle_segments(seq, left, right)
                if not osegs:
                    if L <= 3:
                        pick_case(B, I, seq, left, right, 0.5)   # nothing to pick: empty path back
                        npick += 1
                    continue
                for u in u_grid(osegs, rng, ctx):
                    pick_case(B, I, seq, left, right, u)
                    npick += 1
    ctx.dist("pick_exhaustive", npick)
    B.flush()

    # ---------------- 2b. proportional pick on paths with >= 2 valid sub-paths of UNEQUAL frame
    # counts, fine grid of random numbers incl. every interval boundary c_k/n
    nuneq_paths = nuneq = 0
    uneq_shapes = set()
    Luneq = 6 if quick else 7
    uneq = [(seq, 1, 3) for L in range(5, Luneq + 1) for seq in itertools.product(ALPHA, repeat=L)
            if unequal_lengths(oracle_segments(seq, 1, 3))]
    uneq += [(seq, 1, 4) for seq in itertools.product(ALPHA, repeat=6) if unequal_lengths(oracle_segments(seq, 1, 4))]
    uneq += [(seq, 1, 3) for seq in built_unequal_paths(rng, 150 if quick else 1500)]
    for seq, left, right in uneq:
        osegs = oracle_segments(seq, left, right)
        nuneq_paths += 1
        uneq_shapes.add(tuple(s[2] for s in osegs))
        for u in fine_u_grid(osegs, rng, ctx):
            pick_case(B, I, seq, left, right, u, tag="pick_unequal_lengths")
            nuneq += 1
    ctx.dist("pick_unequal_lengths_paths", nuneq_paths)
    ctx.dist("pick_unequal_lengths_count_vectors", len(uneq_shapes))
    ctx.dist("pick_unequal_lengths", nuneq)
    B.flush()

    # ---------------- 2c. the seed and the length limits: tis_set.maxlength of the ensemble below, at
    # and above the number of phase points of every valid sub-path; path.maxlen independently
    # len(path) (the smallest a path can have), len(path)+1, the default of loaded paths, None.
    # Oracle (pick_case): the seed is EXACTLY one valid sub-path, entry..exit inclusive, by frame
    # identity and order, and the weight is the number of frames on valid sub-paths.
    nlim = nlim_paths = 0
    lim_below = lim_at = lim_above = 0
    Llim = 4 if quick else 5
    lim_small = [seq for L in range(3, Llim + 1) for seq in itertools.product(ALPHA, repeat=L) if oracle_segments(seq, 1, 3)]
    lim_next = [seq for seq in itertools.product(ALPHA, repeat=Llim + 1) if oracle_segments(seq, 1, 3)]
    lim_long = long_subpath_paths(rng, 40 if quick else 600) + built_unequal_paths(rng, 30 if quick else 400)
    for fam, seqs in (("small", lim_small), ("next", lim_next), ("long", lim_long)):
        for seq in seqs:
            osegs = oracle_segments(seq, 1, 3)
            nlim_paths += 1
            npts = [s[2] + 2 for s in osegs]
            pmls = [len(seq), len(seq) + 1, 100000, None]
            us = interval_midpoints(osegs)
            for k, M in enumerate(limit_values(osegs, len(seq))):
                lim_below += any(M < x for x in npts)
                lim_at += any(M == x for x in npts)
                lim_above += all(M > x for x in npts)
                # small scope: every path.maxlen with every tis maxlength; beyond: rotate path.maxlen
                # over the tis maxlength values (the two limits stay independent of each other)
                rot = (k + nlim_paths) % 4
                for pml in (pmls if fam == "small" else [pmls[rot]] if fam == "next" else [pmls[rot], pmls[(rot + 1 + k // 4) % 4]]):
                    for u in (us if fam != "next" else us[1:-1]):
                        pick_case(B, I, seq, 1, 3, u, tag="pick_length_limits", tis_maxlength=M, path_maxlen=pml)
                        nlim += 1
    ctx.dist("pick_length_limits_paths", nlim_paths)
    ctx.dist("pick_length_limits", nlim)
    ctx.dist("pick_length_limits_maxlength_below_a_subpath", lim_below)
    ctx.dist("pick_length_limits_maxlength_equal_to_a_subpath", lim_at)
    ctx.dist("pick_length_limits_maxlength_above_all_subpaths", lim_above)
    B.flush()

    # ---------------- 3. compute_weight: all sequences x interface triples x moves
    Lcw = 5 if quick else 6
    trips = [(0, 1, 3), (1, 1, 3), (1, 2, 3), (0, 2, 4), (2, 1, 3), (4, 1, 3), (0, 3, 1), (2, 2, 2), (1, 1, 1), (0, 1, 4), (3, 1, 3), (1, 3, 3)]
    ncw = 0
    for L in range(0, Lcw + 1):
        for seq in itertools.product(ALPHA, repeat=L):
            p.phasepoints = [frames[a] for a in seq]
            for trip in trips:
                for mv in ("sh", "wf", "ss"):
                    cw_case(B, I, p, seq, trip, mv)
                    ncw += 1
    ctx.dist("compute_weight_exhaustive", ncw)
    B.flush()

    # ---------------- 4. calc_cv_vector: all move assignments, 2-5 interfaces, caps, lambda_-1, minus
    Lcv = 3 if quick else 4
    intf_lists = [(1, 3), (0, 2), (1, 2, 3), (0, 1, 3), (1, 1, 3), (0, 1, 2, 3), (1, 2, 3, 4), (0, 1, 2, 3, 4), (3, 2, 1), (1, 3, 2, 4)]
    caps = [None, 0, 2, 3, 4]
    cv_paths = [s for L in range(0, Lcv + 1) for s in itertools.product(ALPHA, repeat=L)]
    cv_paths += [tuple(rng.choice(ALPHA) for _ in range(rng.randrange(5, 12))) for _ in range(40 if quick else 200)]
    ncv = 0
    for seq in cv_paths:
        p.phasepoints = [frames[a] for a in seq]
        for intfs in intf_lists:
            n = len(intfs)
            # minus: independent of moves and cap
            for lm1 in (False, 0, 2, 4):
                cv_case(B, I, p, seq, intfs, ["sh"] * (n + 1), lm1, rng.choice(caps), True)
                ncv += 1
            capsel = caps if len(seq) <= 2 else [None, rng.choice(caps[1:])]
            for cap in capsel:
                for assign in itertools.product(("sh", "wf", "ss"), repeat=n - 1):
                    moves = [rng.choice(("sh", "wf", "ss"))] + list(assign) + [rng.choice(("sh", "wf", "ss"))]
                    cv_case(B, I, p, seq, intfs, moves, rng.choice((False, False, 0, 2)), cap, False)
                    ncv += 1
            # too few moves (IndexError in the code, undefined in the model)
            for short in (0, 1, n - 1):
                cv_case(B, I, p, seq, intfs, ["wf"] * short, False, None, False)
                ncv += 1
        # degenerate interface lists
        cv_case(B, I, p, seq, (), ["sh"], False, None, False)
        cv_case(B, I, p, seq, (), ["sh"], False, None, True)
        cv_case(B, I, p, seq, (2,), ["sh", "wf"], False, None, False)
        ncv += 3
    ctx.dist("calc_cv_vector", ncv)
    B.flush()

    # ---------------- 4b. [0-] weight vector: every lambda_minus_one among {absent (False), negative,
    # 0.0, -0.0, positive below lambda_0} x every sequence over the alphabet {below lambda_-1, = lambda_-1,
    # between, = lambda_0, above lambda_0} up to length Lm, plus every VALID [0-] path (all four types
    # L->L, L->R, R->L, R->R, frames touching the interfaces) of length Lm+1; the statement gives (1,)
    # for every valid one (and 1/0 by lambda <= max for the others)
    Lm = 4 if quick else 5
    ncvm = 0
    for lam0, more, lm1s in MINUS_CFG:
        intfs = (lam0,) + tuple(more)
        for lm1 in lm1s:
            if lm1 is False:
                alpha = [lam0 - 2, lam0 - 1, lam0, lam0 + 1]
                ends, inner = [lam0, lam0 + 1], [lam0 - 2, lam0 - 1, lam0]
            else:
                l = int(lm1)
                between = sorted({x for x in (l + 1, lam0 - 1) if l < x < lam0})
                alpha = [l - 1, l] + between + [lam0, lam0 + 1]
                ends, inner = [l - 1, l, lam0, lam0 + 1], [l] + between + [lam0]
            # valid paths first (so that they head the reports), then every sequence
            seqs = [(a,) + mid + (b,) for a in ends for b in ends for mid in itertools.product(inner, repeat=Lm - 1)]
            seqs += [sq for L in range(1, Lm + 1) for sq in itertools.product(alpha, repeat=L)]
            for sq in seqs:
                p.phasepoints = [I.frame(0, a) for a in sq]
                vt = minus_path_type(sq, lm1, lam0)
                n = len(intfs)
                cv_case(B, I, p, sq, intfs, [rng.choice(("sh", "wf", "ss")) for _ in range(n + 1)], lm1, rng.choice((None, intfs[-1])), True,
                        tag="calc_cv_vector_minus", valid_type=vt)
                ncvm += 1
                ctx.dist(f"cv_minus_lm1_{lm1_class(lm1)}_{'valid_' + vt if vt else 'other_sequence'}")
    ctx.dist("calc_cv_vector_minus", ncvm)
    B.flush()

    # ---------------- 5. high_acc_swap: acceptance against the exact ratio
    nhas = 0
    Lh = 4
    short = [s for L in range(1, Lh + 1) for s in itertools.product(ALPHA, repeat=L)]
    ntrials = 1500 if quick else 12000
    has_trips = [(0, 1, 3), (0, 2, 4), (1, 2, 3), (0, 0, 3), (1, 1, 4), (0, 3, 4)]
    for _ in range(ntrials):
        oa = rng.choice(short) if rng.random() < 0.7 else tuple(rng.choice(ALPHA) for _ in range(rng.randrange(5, 14)))
        ob = rng.choice(short) if rng.random() < 0.7 else tuple(rng.choice(ALPHA) for _ in range(rng.randrange(5, 14)))
        intf0, intf1 = rng.choice(has_trips), rng.choice(has_trips)
        mvs = (rng.choice(("sh", "wf", "ss", "wf")), rng.choice(("sh", "wf", "ss", "wf")))
        ws = [oracle_compute_weight(oa, *intf0, mvs[0]), oracle_compute_weight(ob, *intf1, mvs[1]),
              oracle_compute_weight(ob, *intf0, mvs[0]), oracle_compute_weight(oa, *intf1, mvs[1])]
        for rand in has_rands(ws, rng, ctx):
            has_case(B, I, ctx, oa, ob, intf0, intf1, mvs, rand)
            nhas += 1
    ctx.dist("high_acc_swap", nhas)
    B.flush()

    # ---------------- 6. seeded random longer paths with real-valued orders
    nrand = 4000 if quick else 40000
    nr = 0
    for _ in range(nrand):
        a, b = rng.uniform(-1, 1), rng.uniform(-1, 1)
        mode = rng.random()
        if mode < 0.75:
            left, right = min(a, b), max(a, b)
        elif mode < 0.85:
            left = right = a
        else:
            left, right = max(a, b), min(a, b)
        pool = [left, right, math.nextafter(left, -math.inf), math.nextafter(left, math.inf),
                math.nextafter(right, -math.inf), math.nextafter(right, math.inf)]
        lo, hi = min(left, right) - 0.5, max(left, right) + 0.5
        L = rng.randrange(0, 60 if quick else 120)
        step = rng.choice((0.05, 0.3, 2.0))
        orders = []
        x = rng.uniform(lo, hi)
        for _i in range(L):
            t = rng.random()
            if t < 0.15:
                orders.append(rng.choice(pool))
            elif t < 0.6:
                x = min(hi, max(lo, x + rng.uniform(-step, step) * (hi - lo)))
                orders.append(x)
            else:
                orders.append(rng.uniform(lo, hi))
        i0 = rng.choice((lo, left, math.nextafter(left, -math.inf), lo - 1.0, right))
        ints = scale([left, right, i0] + orders)
        l_i, r_i, i0_i, o_i = ints[0], ints[1], ints[2], ints[3:]
        pth = I.path(orders, unique=True, cache=False)
        w, osegs = wf_case(B, I, pth, orders, left, right, ints=(l_i, r_i, o_i), tag="wf_random_real")
        nr += 1
        if osegs:
            for u in (rng.getrandbits(30) / 2.0 ** 30, rng.choice(u_grid(osegs, rng, ctx))):
                pick_case(B, I, orders, left, right, u, ints=(l_i, r_i, o_i), tag="pick_random_real")
                nr += 1
        mv = rng.choice(("sh", "wf", "ss"))
        cw_case(B, I, pth, orders, (i0, left, right), mv, ints=((i0_i, l_i, r_i), o_i), tag="compute_weight_random_real")
        nr += 1
    ctx.dist("random_real_valued", nr)
    B.flush()

    for op in sorted(B.samples):
        ctx.sample(B.samples[op], cap=10)
    # concrete failing inputs first (finish() prints the first 20 reports in this order)
    # and among those the ones whose random number is a possible value of rgen.random()
    def _rank(v):
        case = v[1].get("case", {}) if isinstance(v[1], dict) else {}
        u = case.get("u", 0.0) if isinstance(case, dict) else 0.0
        return (not v[2], isinstance(case, dict) and case.get("op") == "history", not (0.0 <= u < 1.0))
    ctx.violations.sort(key=_rank)
    ctx.cov["rule"] = (
        f"history (call sequences in one interpreter on numbered paths, every call judged alone): {len(B.histories)} sequences, {nh_calls} calls = all ordered pairs "
        f"of different order sequences of length {sorted({len(x) for x in pair_seqs})} (same number, length and arguments; second path new / copy edited / same object) "
        f"+ {nh_random} seeded sequences (two_setups, copy_edit, reverse, same_object, mix); {nh_collide} calls share number, length and arguments with an earlier call on "
        f"other orders; then single calls -- "
        f"exhaustive: all order sequences over alphabet {ALPHA} up to length {Lmain[(1, 3)]} for (left,right) in {main_pairs[:1]}, "
        f"up to {Lmain[(2, 2)]} for {main_pairs[1:]} (left = right, left > right), up to {Lextra} for {extra_pairs} "
        f"(weight vs model/spec/brute-force declarative oracle, reversal, positivity); segment choice on all sequences up to length {Lpick} "
        f"with a u grid containing every cumulative boundary's float neighbours; proportional pick on {nuneq_paths} paths holding >= 2 valid "
        f"sub-paths of unequal frame counts ({len(uneq_shapes)} distinct count vectors: all such sequences up to length {Luneq}, systematic count "
        f"pairs 1..6 / triples 1..4 in three entry/exit patterns, seeded random ones with decoys) x fine u grid (multiples of 1/64, every c_k/n "
        f"with float neighbours, interval midpoints, j/m with neighbours, random); compute_weight on all sequences up to length {Lcw} x {len(trips)} "
        f"interface triples x 3 moves; seed under length limits on {nlim_paths} paths (all sequences up to length {Llim + 1} with a valid sub-path, "
        f"built paths with long / several sub-paths) x tis_set.maxlength below / at / above frames+2 of every valid sub-path x path.maxlen in "
        f"{{len(path), len(path)+1, 100000, None}} x one u per sub-path ({nlim} cases); calc_cv_vector on all sequences up to length {Lcv} (+ random longer) x {len(intf_lists)} interface lists "
        f"(2-5 interfaces) x all move assignments x caps x lambda_minus_one x minus; [0-] weight vector for {sum(len(c[2]) for c in MINUS_CFG)} (lambda_0, lambda_minus_one) set-ups "
        f"(absent, negative, 0.0, -0.0, positive below lambda_0) x all sequences up to length {Lm} over the five-region alphabet + all valid [0-] paths "
        f"of length {Lm + 1} ({ncvm} cases); {ntrials} seeded high_acc_swap set-ups x rand grid; "
        f"{nrand} seeded random real-valued paths (length < {60 if quick else 120}). A case is distinct by its request line; a weight case "
        f"counts as non-trivial only if some frame lies inside [left, right) (so none of the empty-region cases do); all other cases are "
        f"non-trivial (each exercises a modelled function on a distinct input)")
    ctx.cov["correspondence"] = {"compared": B.compared, "disagreements": B.disagree, "oracle_failures": B.oracle_fail,
                                 "float_boundary_skipped": ctx.cov["input_distribution"].get("float_boundary_skipped", 0)}
    ctx.cov["trusted_base"] += [
        "extraction: ExtrOcamlBasic only; ocaml/util.ml + ocaml/c10_driver.ml (the 'has' command composes four compute_weight calls)",
        "py/checks/c10.py generators, encoders (dyadic floats scaled to integers), the brute-force oracle and the history executor (slots of real Path objects, Path.copy / Path.reverse of /repo)",
        "float quotients sum_frames/n_frames and c1n*c2n/(c1o*c2o) agree with the exact rational away from a boundary (exact boundaries that are not representable are skipped and counted)",
    ]
    ctx.assumptions += [
        "rgen.random() is uniform on [0,1): the theorem gives the selecting interval, hence probability len_k/n",
        "len(path) <= path.maxlen (or path.maxlen None) when a seed sub-path is cut out (Path.append refuses beyond maxlen); nothing is assumed about tis_set.maxlength",
        "System reduced to order[0]; moves restricted to 'sh', 'wf', 'ss'",
        "hidden state is looked for within one interpreter process (history family); nothing is said about state kept in files between processes",
    ]


# ----------------------------------------------------------------------------- replay


def replay(doc):
    import json
    print(json.dumps(doc, indent=1))
    rp = doc.get("replay", {})
    case = rp.get("case")
    if not case:
        print("no concrete case stored (broken obligation); nothing to re-run on the implementation")
        return 1
    I = Impl()

    S = Sink()
    op = case["op"]
    if op == "history":
        return replay_history(case, I)
    if op.startswith("wf"):
        o = case["orders"]
        ints = scale([case["left"], case["right"]] + o)
        wf_case(S, I, I.path(o, unique=True), o, case["left"], case["right"], ints=(ints[0], ints[1], ints[2:]))
    elif op.startswith("pick"):
        o = case["orders"]
        ints = scale([case["left"], case["right"]] + o)
        lim = {"tis_maxlength": case["tis_maxlength"], "path_maxlen": case["path_maxlen"]} if "tis_maxlength" in case else {}
        pick_case(S, I, o, case["left"], case["right"], case["u"], ints=(ints[0], ints[1], ints[2:]), **lim)
    elif op.startswith("compute_weight"):
        o = case["orders"]
        ints = scale(list(case["interfaces"]) + o)
        cw_case(S, I, I.path(o), o, tuple(case["interfaces"]), case["move"], ints=(ints[:3], ints[3:]))
    elif op.startswith("calc_cv_vector"):
        o = case["orders"]
        lm1 = case["lambda_minus_one"]
        vt = minus_path_type(o, lm1, case["interfaces"][0]) if (op == "calc_cv_vector_minus" and case["interfaces"]) else None
        cv_case(S, I, I.path(o), o, tuple(case["interfaces"]), case["moves"], lm1, case["cap"], case["minus"], tag=op, valid_type=vt)
    elif op == "high_acc_swap":
        has_case(S, I, _NoCtx(), tuple(case["path0"]), tuple(case["path1"]), tuple(case["intf0"]), tuple(case["intf1"]),
                 tuple(case["moves"]), case["rand"])
    else:
        print("unknown case kind", op)
        return 1
    if not S.items:
        print("case not evaluated: the random number lies within float rounding error of a non-representable boundary")
        return 0
    req, io, err, _desc, cmp, _nt = S.items[0]
    print("request         :", req)
    print("implementation  :", io)
    try:
        mo = common.Runner("c10").run([req])[0]
        print("model now       :", mo)
        bad = cmp(mo, io) if cmp else (None if mo == io else "outputs differ")
        print("correspondence  :", bad or "agree")
    except Exception as e:  # noqa: BLE001
        bad = f"runner unavailable: {e!r}"
        print(bad)
    print("property oracle :", err or "holds on this input")
    return 1 if (err or bad) else 0


def replay_history(case, I):
    """Re-run the stored call sequence in this (fresh) interpreter: one call of the implementation per step."""
    steps = case["steps"]
    H = History(I)
    rows = []
    for j, st in enumerate(steps):
        try:
            req, io, err, cmp, _nt, at = H.step(st)
        except (KeyError, IndexError, TypeError, AttributeError) as e:
            print(f"step {j + 1} cannot be executed: {e!r}")
            return 1
        rows.append((st, req, io, err, cmp, at))
    try:
        mos = common.Runner("c10").run([r[1] for r in rows])
    except Exception as e:  # noqa: BLE001
        print(f"runner unavailable: {e!r}")
        mos = [None] * len(rows)
    failed = False
    for j, ((st, req, io, err, cmp, at), mo) in enumerate(zip(rows, mos)):
        print(f"--- call {j + 1}: {step_str(st)}")
        print("path attributes :", at)
        print("request         :", req)
        print("implementation  :", io)
        bad = None
        if mo is not None:
            print("model now       :", mo)
            bad = cmp(mo, io) if cmp else (None if mo == io else "outputs differ")
            print("correspondence  :", bad or "agree")
        print("property oracle :", err or "holds on this call")
        failed = failed or bool(err or bad)
    return 1 if failed else 0
