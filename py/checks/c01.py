"""C01 — sampling is unbiased: exact crossing probabilities are reproduced.

Theorems: coq/theorems/C01.v — the exact oracle (harmonic functions of the +-1 walk on an
interval are linear: P(reach interface k+1 | reached k) = (k+1)/(k+2) for every k), detailed
balance of the Metropolis-Hastings acceptance min(1, b/a), exactness of the estimator on exact
weights.  That the moves realise the acceptance rules and the swap probabilities is
C02/C09/C10/C11; that weights are conserved is C04.
Tie / measurement: the real program runs on the lattice plug-in engine (through the plug-in
interface) for mixes of shooting and wire-fencing moves, with and without an interface cap, one
and several workers under random completion schedules, with restarts; per configuration 16
independent seeds; the conditional crossing probabilities estimated from infretis_data.txt
(fractional weights / path weights) are compared with the exact values: |mean - exact| must be
within 6 standard errors (standard error taken across the seeds, never below 0.003).
"""
import importlib.util  # noqa: F401
import statistics

import c01_stats as S
import common
import sysharness as H

META = {
    "id": "C01",
    "level": "other",
    "technique": "Coq theorems for the exact oracle (gambler's ruin by a two-step induction over Q), Metropolis-Hastings detailed balance and the estimator + statistical conformance of the real program on the lattice plug-in engine (16 independent seeds per configuration, 6 standard errors)",
    "text": "Proved (unbounded): every function harmonic for the +-1 walk on 0..K with boundary values 0 and 1 equals x/K, hence the conditional crossing probability of ensemble [k+] is (k+1)/(k+2) for every k; min(1, b/a) satisfies detailed balance for all positive flows; the estimator sum(frac/weight * [max >= lambda_{k+1}]) / sum(frac/weight) returns the exact value on exact weights. Measured, not proved: the real program (setup_config -> scheduler() -> REPEX_state/run_md, lattice engine loaded through the engine plug-in interface) reproduces these values within statistical error for shooting-only and mixed shooting/wire-fencing move sets, with and without an interface cap, 1-3 workers with random completion orders, and across restarts.",
    "note": "Level 'other': a theorem cannot establish convergence of the running program; stationarity of the whole chain is not proved (the per-move ingredients are C02, C04, C09, C10, C11). Statistical test: per configuration and interface, mean over 16 seeds vs exact value, band 6 standard errors (s.e. across seeds, floor 0.003); seeds derive from VERIF_SEED so the verdict is reproducible. Live paths at the end of a run are not in the data file and are left out of the estimate (bias O(ensembles/steps)). Power: s.e. ~0.007 at 2500 steps, so biases of a few per cent (a wrong acceptance rule, weight or swap probability) are detected; the thorough tier resolves ~1%.",
    "design_ref": "4/C01",
}
LEVEL = "other"
EXTRACTS = []


def configs(tier):
    quick = tier == "quick"
    steps = 2000 if quick else 20000
    cfgs = [
        {"name": "sh-only W1", "n_intf": 4, "moves": ["sh"] * 4, "workers": 1, "steps": steps},
        {"name": "sh,wf,wf,sh cap W2 restart", "n_intf": 4, "moves": ["sh", "wf", "wf", "sh"], "cap": 2.75, "workers": 2, "steps": steps,
         "stops": [steps // 4]},
        # wire fencing in [0+] with a cap below the last interface (high-acceptance zero swaps use capped weights)
        {"name": "sh,wf,sh,sh low cap W1", "n_intf": 4, "moves": ["sh", "wf", "sh", "sh"], "cap": 1.5, "workers": 1, "steps": steps},
    ]
    if not quick:
        cfgs += [
            {"name": "sh,sh,wf,sh nocap W3", "n_intf": 4, "moves": ["sh", "sh", "wf", "sh"], "workers": 3, "steps": steps, "stops": [steps // 3, steps // 5]},
            {"name": "sh,wf,sh W1 cap low", "n_intf": 3, "moves": ["sh", "wf", "sh"], "cap": 1.75, "workers": 1, "steps": steps},
            {"name": "wf everywhere allowed W2", "n_intf": 5, "moves": ["sh", "wf", "wf", "wf", "sh"], "cap": 3.75, "workers": 2, "steps": steps, "n_jumps": 3},
            {"name": "sh-only W3 restarts", "n_intf": 5, "moves": ["sh"] * 5, "workers": 3, "steps": steps, "stops": [steps // 2]},
            # very frequent restarts (every 5 completed steps): reloaded paths must be sampled like any other
            {"name": "sh-only W1 restart every 5", "n_intf": 4, "moves": ["sh"] * 4, "workers": 1, "steps": 3000, "stops": [5] * 599},
        ]
    return cfgs


def run(ctx):
    common.proof_stage(ctx, "C01", [])
    cfgs = configs(ctx.tier)
    nseeds = 16
    base = ctx.seed % 100000
    cases = []
    for ci, c in enumerate(cfgs):
        for s in range(nseeds):
            d = dict(c)
            d["seed"] = base * 131 + 1000 * ci + s + 1
            cases.append(d)
    res = H.run_many(S.stat_case, cases, jobs=16, timeout=7200)
    table = []
    for ci, c in enumerate(cfgs):
        rows = [r for d, (tag, r) in zip(cases, res) if d["name"] == c["name"] and tag == "ok"]
        bad = [r for d, (tag, r) in zip(cases, res) if d["name"] == c["name"] and tag != "ok"]
        ctx.dist(c["name"], len(rows))
        if bad:
            ctx.violation(f"statistical run crashed in configuration {c['name']}: {str(bad[0])[:300]}", {"config": c, "error": str(bad[0])}, found_input=False)
            continue
        for k in range(c["n_intf"] - 1):
            vals = [r["est"][k] for r in rows if r["est"][k] is not None]
            exact = (k + 1) / (k + 2)
            ctx.count((c["name"], k), nontrivial=True, n=len(vals))
            if len(vals) < nseeds:
                ctx.violation(f"{c['name']}: ensemble [{k}+] received no weight in {nseeds - len(vals)} runs", {"config": c, "k": k}, found_input=True)
                continue
            m = statistics.mean(vals)
            se = max(statistics.stdev(vals) / len(vals) ** 0.5, 0.003)
            z = (m - exact) / se
            table.append({"config": c["name"], "k": k, "exact": round(exact, 6), "mean": round(m, 5), "se": round(se, 5), "z": round(z, 2)})
            if abs(z) > 6:
                ctx.violation(f"C01 statement fails on the implementation: {c['name']}: P(lambda_{k + 1} | lambda_{k}) estimated {m:.4f} +- {se:.4f} "
                              f"over {nseeds} seeds, exact {exact:.4f} ({z:+.1f} standard errors)",
                              {"config": c, "k": k, "seeds": [d["seed"] for d in cases if d["name"] == c["name"]], "estimates": vals,
                               "exact": exact, "mean": m, "se": se}, found_input=True)
    ctx.cov["statistics"] = table
    ctx.cov["rule"] = "one evaluation = one independent run (seed) of the real program contributing one estimate of one conditional crossing probability; verdict per (configuration, interface): |mean - exact| <= 6 s.e."
    ctx.cov["correspondence"] = {"configurations": len(cfgs), "runs": len(cases), "steps_per_run": cfgs[0]["steps"]}
    ctx.cov["trusted_base"] += ["py/plugins/engines.py lattice engine (driven only by the job's engine stream)", "py/sysharness.py", "the statistical test (16 seeds, 6 s.e.)"]
    ctx.assumptions += ["convergence of the running program is measured, not proved", "live paths at the end of a run are left out of the estimate"]
    for row in table[:6]:
        ctx.sample(row)


def replay(doc):
    rp = doc["replay"]
    c = dict(rp["config"])
    out = []
    for s in rp.get("seeds", [1])[:16]:
        c["seed"] = s
        out.append(c.copy())
    res = H.run_many(S.stat_case, out, jobs=16, timeout=7200)
    k = rp.get("k", 0)
    vals = [r["est"][k] for tag, r in res if tag == "ok"]
    print("estimates", vals, "mean", statistics.mean(vals), "exact", rp.get("exact"))
    return 0
