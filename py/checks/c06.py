"""C06 — same seed, same run: determinism and restart equivalence.

Theorems: coq/theorems/C06.v (proofs coq/proofs/RestartP.v): a generic restart-chain
equivalence for deterministic systems with faithful recovery, exact recovery of the scheduler's
generator by the repaired set_rgen (the original one refuted), and exactness of re-issued jobs.
Tie: the real program.  For several seeds (0 and others), step counts, move sets and EVERY
split point k (and chains of two and three restarts) with one worker on the lattice plug-in,
infretis_data.txt and restart.toml of the restarted run are compared byte for byte with the
straight run (after dropping `restarted_from`, as the repository's own test does); two runs
with the same seed are compared with each other (lattice and TurtleMD); the generator
(entropy, spawn counter, bit-generator state) observed at the last write and after the restart
must be equal and match the extracted model's persisted image; with several workers the jobs
re-issued after a restart must be exactly the (ensemble, path) pairs recorded in restart.toml.
Round 6: (a) set-ups in which sort_trajstate really moves trajectories (6-8 ensembles, far-reaching
initial paths in low slots, sh-only and wire fencing) are run in one go and split at EVERY step
(infretis_data.txt, restart.toml and order.txt/energy.txt of every stored path compared); at every
pick of the uninterrupted run the probability matrix the program uses must equal the one
recomputed from the current weight matrix and busy flags (in-memory state that is not a function
of what a restart reloads is what breaks restart equivalence; a mismatch is confirmed by the byte
comparison at that split, if necessary with a search over more seeds); the number of steps in
which trajectories were moved is reported in the evidence.  (b) allowmaxlength = false: restart
CHAINS that all begin with the same restart (k1 -> N, k1 -> k2 -> N for a range of k2,
k1 -> k2 -> k3 -> N) are compared byte for byte, sh-only and mixed sh/wf, several seeds; the
number of shooting moves cut by the random length bound (FTL/BTL) is reported in the evidence.
"""
import importlib.util  # noqa: F401
import os
import shutil

import common
import sysharness as H

META = {
    "id": "C06",
    "level": "proof",
    "technique": "Coq theorems (generic restart-chain equivalence by induction over the chain; exact recovery of the generator state; exactness of re-issued jobs from the REPEX invariant) + byte-for-byte comparison of straight and restarted runs of the real program at every split point",
    "text": "Unbounded theorems: for any deterministic step function whose persisted image is recovered up to an equivalence the step respects, every chain of stop/restart segments yields the same final state and exactly the same emitted rows as the straight run; the scheduler's generator (entropy = seed, spawn counter, bit-generator state) is recovered exactly by the repaired set_rgen from what write_toml stores for every seed, step and number of in-flight jobs (the original set_rgen is refuted for seed != 0 and for several workers); a job re-issued by pick_lock holds exactly the recorded ensembles and paths, sitting in those ensembles, and is re-entered in the lock list. Tie: infretis_data.txt and restart.toml of the real program compared byte for byte between straight runs and runs restarted at EVERY split point (and chains of 2-3 restarts) for several seeds, step counts and move sets; same-seed runs compared (lattice, TurtleMD); generator state observed before the stop and after the restart; multi-worker restarts re-issue exactly the recorded jobs. Re-sorting set-ups (sort_trajstate moves trajectories in about one step out of five) split at every step, with the probability matrix used by every pick of the uninterrupted run compared with the one recomputed from the current state; with allowmaxlength = false, restart chains k1->N, k1->k2->N, k1->k2->k3->N compared byte for byte (runs in which the random length bound really cuts shooting moves).",
    "note": "Trusted: Coq kernel; extraction + OCaml driver; harness (a stop is a process-level stop between two completions: the in-process runner has already executed the next job, whose files stay in the worker directory, as after a real kill). The instance hypotheses of the generic theorem (the real step function is deterministic given the generator state; recovery restores every field the step reads: paths to six decimals on the lattice, weights, fractions, locks) are not proved in Coq: they are what the byte-for-byte comparison checks. Scope as in the property: order files carry six decimals (the lattice plug-in's values are exactly representable; with TurtleMD only same-seed runs are compared), the loss of the 'initial path' marker ('ld' -> 're') at a restart is kept out by allowmaxlength = true in every compared run (a false alarm of the first thorough run: seed 1, sh,sh,wf,wf, restart at step 1, without that setting). Bit-generator state round trip through TOML is checked, not proved. With allowmaxlength = false only restart chains with the same first restart are compared with each other (never with the run in one go), as the scope sentence prescribes. The probability-matrix oracle recomputes inf_retis on the live state (at most 12 ensembles: no random numbers are drawn inside) and compares with tolerance 1e-9.",
    "design_ref": "4/C06",
}
LEVEL = "proof"


def norm_restart(path):
    import tomli
    with open(path, "rb") as f:
        c = tomli.load(f)
    c["current"].pop("restarted_from", None)
    import tomli_w
    return tomli_w.dumps(c)


class GenRec(H.Recorder):
    """generator identity at attach time and after every write_toml"""

    def __init__(self):
        super().__init__(with_frac=False)
        self.at_start = None
        self.at_write = []
        self.preps = []

    @staticmethod
    def gen_view(state):
        ss = state.rgen.bit_generator._seed_seq
        st = state.rgen.bit_generator.state
        return (int(ss.entropy), int(ss.n_children_spawned), str(st["state"]["state"]), str(st["state"]["inc"]))

    def attach(self, state):
        super().attach(state)
        rec = self
        rec.at_start = rec.gen_view(state)
        inner = state.write_toml
        prep = state.prep_md_items

        def write_toml():
            out = inner()
            rec.at_write.append((rec.gen_view(state), state.cstep, len(state.locked)))
            return out

        def prep_md(md):
            out = prep(md)
            rec.preps.append(([int(e) for e in out["picked"]], [int(out["picked"][e]["pn_old"]) for e in out["picked"]]))
            return out

        state.write_toml = write_toml
        state.prep_md_items = prep_md


def files(wd):
    with open(os.path.join(wd, "infretis_data.txt"), "rb") as f:
        data = f.read()
    # the stored order / energy files of the live paths (traj.txt names files after the process id)
    import tomli
    with open(os.path.join(wd, "restart.toml"), "rb") as f:
        active = tomli.load(f)["current"]["active"]
    stored = []
    for pn in active:
        for txt in ("order.txt", "energy.txt"):
            p = os.path.join(wd, "load", str(pn), txt)
            stored.append((pn, txt, open(p, "rb").read() if os.path.exists(p) else None))
    return data, norm_restart(os.path.join(wd, "restart.toml")), stored


def case_run(case):
    """(seed, N, moves, cap, splits, workers) -> dict"""
    seed, N, moves, cap, splits, W, n_intf = case
    out = {"problems": [], "rng": [], "reissue": []}
    wd0 = H.scratch("infv_c06a_")
    wd1 = H.scratch("infv_c06b_")
    try:
        # scope of the property: the documented loss of the 'initial path' marker ('ld' -> 're') at a
        # restart is kept out by allowmaxlength = true
        kw = dict(n_intf=n_intf, moves=moves, workers=W, steps=N, seed=seed, cap=cap, allowmaxlength=True,
                  n_order=1 + (seed + N) % 3)      # 1-3 order-parameter values per frame
        H.write_setup(wd0, **kw)
        r0 = H.run_sim(wd0)
        if r0["status"] != "done":
            out["problems"].append(f"straight run ended with {r0['status']}")
            return out
        ref = files(wd0)
        # same seed again
        wd2 = H.scratch("infv_c06c_")
        try:
            H.write_setup(wd2, **kw)
            H.run_sim(wd2)
            if files(wd2) != ref:
                out["problems"].append("two straight runs with the same seed differ")
        finally:
            shutil.rmtree(wd2, ignore_errors=True)
        # restarted run
        H.write_setup(wd1, **kw)
        first = True
        last_write = None
        for k in list(splits) + [None]:
            rec = GenRec()
            res = H.run_sim(wd1, inp="infretis.toml" if first else "restart.toml", stop_after=k, recorder=rec)
            if res["status"] == "none":
                out["problems"].append("setup_config returned None on restart")
                return out
            if not first and last_write is not None:
                g, cstep, nl = last_write
                out["rng"].append({"seed": seed, "cstep": cstep, "nlocked": nl, "before": g, "after": rec.at_start})
                if rec.at_start != g:
                    out["problems"].append(f"generator after restart {rec.at_start[:2]} differs from the one at the last write {g[:2]} "
                                           f"(cstep {cstep}, {nl} in flight)")
                if W > 1:
                    import tomli
                    out["reissue"].append({"recorded": res.get("_locked0"), "preps": rec.preps[:W]})
            first = False
            if rec.at_write:
                last_write = rec.at_write[-1]
            if W > 1 and res["status"] == "stopped":
                import tomli
                with open(os.path.join(wd1, "restart.toml"), "rb") as f:
                    cur = tomli.load(f)["current"]
                out["_locked_next"] = [([int(e) - 1 for e in a], [int(p) for p in b]) for a, b in cur["locked"]]
            elif W > 1:
                out["_locked_next"] = None
            if not first and W > 1 and out.get("_locked_prev") is not None:
                want = out["_locked_prev"]
                got = rec.preps[:len(want)]
                if sorted(map(repr, got)) != sorted(map(repr, want)):
                    out["problems"].append(f"jobs re-issued after the restart {got} are not the recorded in-flight jobs {want}")
                out["reissue"].append((want, got))
            out["_locked_prev"] = out.get("_locked_next")
            if res["status"] == "done":
                break
        if W == 1:
            got = files(wd1)
            if got[0] != ref[0]:
                out["problems"].append(f"infretis_data.txt of the run restarted at {splits} differs from the straight run")
            if got[1] != ref[1]:
                out["problems"].append(f"restart.toml of the run restarted at {splits} differs from the straight run")
            if got[2] != ref[2]:
                bad = [(a[0], a[1]) for a, b in zip(got[2], ref[2]) if a != b]
                out["problems"].append(f"stored order/energy files of live paths {bad[:3]} of the run restarted at {splits} differ from the straight run")
    except Exception as e:  # noqa: BLE001
        import traceback
        tb = traceback.format_exc()
        frames = [ln for ln in tb.splitlines() if ln.strip().startswith("File ") and ("/infretis/" in ln or "/verif/py" in ln)]
        if frames and "/infretis/" in frames[-1]:
            # the program itself died (in a run that the straight run completed): the restart does not reproduce the run
            out["problems"].append(f"a run of the chain {splits} died inside the program with {e!r} ({frames[-1].strip()[:160]})")
        else:
            out["problems"].append(f"case crashed: {e!r} {tb[-800:]}")
    finally:
        shutil.rmtree(wd0, ignore_errors=True)
        shutil.rmtree(wd1, ignore_errors=True)
    out.pop("_locked_prev", None)
    out.pop("_locked_next", None)
    return out


def turtle_case(seed):
    """two TurtleMD runs with the same seed must be byte-identical"""
    import tomli
    import tomli_w
    src = os.path.join(common.REPO, "examples", "turtlemd", "double_well")
    outs = []
    for _ in range(2):
        wd = H.scratch("infv_c06t_")
        try:
            shutil.copytree(os.path.join(src, "load_copy"), os.path.join(wd, "load"))
            shutil.copy(os.path.join(src, "orderp.py"), wd)
            with open(os.path.join(common.REPO, "test", "simulations", "data", "wf.toml"), "rb") as f:
                cfg = tomli.load(f)
            cfg["simulation"]["steps"] = 8
            cfg["simulation"]["seed"] = seed
            with open(os.path.join(wd, "infretis.toml"), "wb") as f:
                tomli_w.dump(cfg, f)
            res = H.run_sim(wd)
            outs.append((res["status"],) + files(wd))
        finally:
            shutil.rmtree(wd, ignore_errors=True)
    return {"problems": [] if outs[0] == outs[1] else [f"two TurtleMD runs with seed {seed} differ"]}


# --------------------------------------------------------------------------- round 6: re-sorting steps and restart chains
#
# (a) every in-memory variable the next step reads must be a function of what a restart reloads.  The probability
#     matrix is such a variable (cached in `_last_prob`, not in restart.toml): at every pick of an uninterrupted run
#     the matrix the program uses must equal the one recomputed from scratch from the current weight matrix and busy
#     flags (what a process restarted at that step computes).  Set-ups in which sort_trajstate really moves
#     trajectories (the steps at which the cache has to be refreshed) are run in one go and split at EVERY step.
# (b) allowmaxlength = false: the scope sentence prescribes comparing restart CHAINS (all starting with the same
#     first restart, so that the documented loss of the 'initial path' marker is the same in every history).


class ProbRec:
    """Observer of one run of the program (one process): the P oracle at every pick, the steps in which
    sort_trajstate moved trajectories, the status of every completed move."""

    def __init__(self):
        self.npicks = 0
        self.stale = []        # dict(step, used, fresh, W, busy)
        self.sort_moves = []   # cstep of the treat_output in which sort_trajstate changed the layout
        self.moves = []        # (cstep, status, [ensembles], [old path numbers], [marker of the old paths])
        self.loaded = []       # live path numbers when the process started
        self.traj_num0 = None

    def on_submit(self, ordinal, md):
        pass

    def on_complete(self, ordinal):
        pass

    def attach(self, state):
        import numpy as np
        rec = self
        rec.loaded = [t.path_number for t in state._trajs[:-1] if t != ""]
        rec.traj_num0 = int(state.config["current"]["traj_num"])
        o_pick, o_sort, o_treat = state.pick, state.sort_trajstate, state.treat_output

        def pick():
            if state.n <= 12:     # blocks of more than 12 paths draw random numbers inside inf_retis: not recomputed here
                try:
                    used = np.array(state.prob, dtype=float)          # the matrix pick() is about to use (cached, or computed now)
                    fresh = np.array(state.inf_retis(abs(state.state), state._locks), dtype=float)
                except Exception:  # noqa: BLE001  (the program's own pick will fail the same way)
                    used = fresh = None
                if used is not None:
                    rec.npicks += 1
                    if used.shape != fresh.shape or not np.allclose(used, fresh, rtol=0.0, atol=1e-9):
                        rec.stale.append({"step": int(state.cstep),
                                          "P_used": [[round(float(x), 6) for x in r] for r in used],
                                          "P_recomputed": [[round(float(x), 6) for x in r] for r in fresh],
                                          "W": [[float(x) for x in r] for r in abs(state.state)],
                                          "busy": [int(x) for x in state._locks],
                                          "live": [int(p) for p in state.live_paths()]})
            return o_pick()

        def sort_trajstate():
            before = list(state.live_paths())
            out = o_sort()
            if list(state.live_paths()) != before:
                rec.sort_moves.append(int(state.cstep))
            return out

        def treat(md):
            picked = md["picked"]
            marks = []
            for e in picked:
                old = state._trajs[int(e) + state._offset]
                marks.append(old.generated[0] if getattr(old, "generated", None) else None)
            rec.moves.append((int(state.cstep), md["status"], [int(e) for e in picked], [int(picked[e]["pn_old"]) for e in picked], marks))
            return o_treat(md)

        state.pick, state.sort_trajstate, state.treat_output = pick, sort_trajstate, treat


def all_files(wd):
    """what is compared byte for byte: infretis_data.txt, restart.toml (minus restarted_from), and order.txt / energy.txt
    of EVERY stored path (traj.txt names files after the process id)"""
    with open(os.path.join(wd, "infretis_data.txt"), "rb") as f:
        data = f.read()
    stored = {}
    load = os.path.join(wd, "load")
    for pn in sorted(os.listdir(load), key=lambda s: (len(s), s)):
        for txt in ("order.txt", "energy.txt"):
            p = os.path.join(load, pn, txt)
            if os.path.exists(p):
                with open(p, "rb") as f:
                    stored[f"load/{pn}/{txt}"] = f.read()
    return {"infretis_data.txt": data, "restart.toml": norm_restart(os.path.join(wd, "restart.toml")), "stored": stored}


def describe_diff(ref, got):
    """names of the compared files that differ (with the first differing restart.toml entries)"""
    out = []
    if ref["infretis_data.txt"] != got["infretis_data.txt"]:
        out.append("infretis_data.txt")
    if ref["restart.toml"] != got["restart.toml"]:
        import tomli
        a, b = tomli.loads(ref["restart.toml"]), tomli.loads(got["restart.toml"])
        keys = [f"[{s}].{k}: {str(a.get(s, {}).get(k))[:50]} | {str(b.get(s, {}).get(k))[:50]}"
                for s in sorted(set(a) | set(b)) if isinstance(a.get(s, {}), dict) and isinstance(b.get(s, {}), dict)
                for k in sorted(set(a.get(s, {})) | set(b.get(s, {}))) if a.get(s, {}).get(k) != b.get(s, {}).get(k)]
        out.append("restart.toml " + "; ".join(keys[:3]))
    names = sorted(set(ref["stored"]) | set(got["stored"]))
    bad = [n for n in names if ref["stored"].get(n) != got["stored"].get(n)]
    if bad:
        out.append(f"{len(bad)} stored files ({', '.join(bad[:4])}{', ...' if len(bad) > 4 else ''})")
    return out


def run_history(wd, kw, stops, recs=None):
    """Fresh set-up in wd; run with a stop + restart from the files on disk at each of the (absolute) steps `stops`, then
    to the end.  Returns (status of the last process, [ProbRec of every process]); `recs` (a list) receives the observers
    as the processes start, so that they survive a run that dies."""
    H.write_setup(wd, **kw)
    recs = [] if recs is None else recs
    done, first, res = 0, True, {"status": "none"}
    for k in list(stops) + [None]:
        rec = ProbRec()
        recs.append(rec)
        res = H.run_sim(wd, inp="infretis.toml" if first else "restart.toml",
                        stop_after=None if k is None else k - done, recorder=rec)
        first = False
        if res["status"] != "stopped":
            break
        done = k
    return res["status"], recs


def program_died(e, tb):
    frames = [ln for ln in tb.splitlines() if ln.strip().startswith("File ") and ("/infretis/" in ln or "/verif/py" in ln)]
    if frames and "/infretis/" in frames[-1]:
        return f"{e!r} ({frames[-1].strip()[:160]})"
    return None


def resort_group(case):
    """(label, kw, mode): one straight run (P oracle at every pick, re-sorting steps counted), then the run split at every
    step (mode 'all') or at the steps behind which the P oracle saw a stale matrix (mode 'stale'), each compared byte for
    byte with the straight run."""
    import traceback
    label, kw, mode = case
    N = kw["steps"]
    out = {"stale": [], "sort_moves": [], "npicks": 0, "splits": [], "byte_fail": [], "harness": []}
    wd0 = H.scratch("infv_c06r_")
    try:
        ref, recs = None, []

        def observed():
            if recs:
                rec = recs[0]
                out["stale"], out["sort_moves"], out["npicks"] = rec.stale[:4], [k for k in rec.sort_moves if k < N], rec.npicks
                out["n_stale"] = len(rec.stale)

        try:
            status, _ = run_history(wd0, kw, (), recs)
            observed()
            if status != "done":
                out["harness"].append(f"straight run ended with {status}")
                return out
            ref = all_files(wd0)
        except Exception as e:  # noqa: BLE001
            tb = traceback.format_exc()
            died = program_died(e, tb)
            if died is None:
                out["harness"].append(f"case crashed: {e!r} {tb[-800:]}")
                return out
            observed()
            out["straight_died"] = died
        stale_steps = sorted({s["step"] for s in out["stale"]})
        if mode == "all":
            splits = list(range(1, N))
        elif mode == "stale":
            splits = [k for k in stale_steps if 0 < k < N]
        else:
            splits = [int(k) for k in mode]        # replay: the stored split point(s)
        if ref is None:
            # the uninterrupted run died: a run restarted behind the last stale matrix that completes shows the two
            # histories are not the same
            splits = [k for k in stale_steps if 0 < k < N] or list(range(1, N))
        for k in splits:
            wd1 = H.scratch("infv_c06s_")
            try:
                try:
                    status, _ = run_history(wd1, kw, (k,))
                except Exception as e:  # noqa: BLE001
                    tb = traceback.format_exc()
                    died = program_died(e, tb)
                    if died is None:
                        out["harness"].append(f"case crashed: {e!r} {tb[-800:]}")
                    elif ref is not None:
                        out["byte_fail"].append({"split": k, "what": f"the run restarted at step {k} died inside the program with {died}; the run in one go completed"})
                    continue
                out["splits"].append(k)
                if status != "done":
                    out["harness"].append(f"run restarted at {k} ended with {status}")
                    continue
                if ref is None:
                    out["byte_fail"].append({"split": k, "what": f"{N} steps in one go die inside the program with {out['straight_died']}; "
                                                                  f"a stop after step {k} + restart from the files on disk completes all {N} steps"})
                    break
                d = describe_diff(ref, all_files(wd1))
                if d:
                    out["byte_fail"].append({"split": k, "what": f"{N} steps in one go and a stop after step {k} + restart differ in: " + "; ".join(d)})
            finally:
                shutil.rmtree(wd1, ignore_errors=True)
        if ref is None and not out["byte_fail"]:
            out["all_died"] = f"the run in one go died inside the program ({out['straight_died']}) and so did every restarted run tried ({splits})"
    finally:
        shutil.rmtree(wd0, ignore_errors=True)
    return out


def chain_group(case):
    """(label, kw, chains): allowmaxlength = false.  Every chain (tuple of absolute stop steps, all with the same first
    stop) is run from a fresh set-up; all are compared byte for byte with the first one."""
    import traceback
    label, kw, chains = case
    N = kw["steps"]
    out = {"harness": [], "cuts": {"FTL": 0, "BTL": 0}, "moves": 0, "sensitive_cuts": 0, "compared": [], "byte_fail": [], "died": []}
    name = lambda ch: " -> ".join(map(str, list(ch) + [N]))  # noqa: E731
    ref, ref_died = None, None
    for ci, chain in enumerate(chains):
        wd = H.scratch("infv_c06h_")
        try:
            try:
                status, recs = run_history(wd, kw, chain)
            except Exception as e:  # noqa: BLE001
                tb = traceback.format_exc()
                died = program_died(e, tb)
                if died is None:
                    out["harness"].append(f"case crashed: {e!r} {tb[-800:]}")
                    if ci == 0:
                        return out
                    continue
                out["died"].append(list(chain))
                if ci == 0:
                    ref_died = died
                elif ref is not None:
                    out["compared"].append(list(chain))
                    out["byte_fail"].append({"chain": list(chain), "what": f"restart chain {name(chains[0])} completes; a run of the restart chain "
                                                                           f"{name(chain)} dies inside the program with {died}"})
                continue
            if status != "done" or len(recs) != len(chain) + 1:
                out["harness"].append(f"chain {chain} ended with {status} after {len(recs)} processes")
                if ci == 0:
                    return out
                continue
            # moves cut by the random length bound (statuses FTL / BTL; FTX / BTX are the hard maxlength)
            first_new = recs[1].traj_num0          # paths with a number >= this were generated after the first restart
            for si, rec in enumerate(recs):
                for (cstep, st, ens, pn_old, marks) in rec.moves:
                    if ci == 0:
                        out["moves"] += 1
                        if st in out["cuts"]:
                            out["cuts"][st] += 1
                    # a cut that depends on the marker of a re-loaded path generated between two restarts
                    if si >= 2 and si == len(recs) - 1 and st in ("FTL", "BTL") and len(pn_old) == 1 \
                            and pn_old[0] in rec.loaded and pn_old[0] >= first_new:
                        out["sensitive_cuts"] += 1
            got = all_files(wd)
            if ci == 0:
                ref = got
                continue
            out["compared"].append(list(chain))
            if ref is None:
                if ref_died and not out["byte_fail"]:
                    out["byte_fail"].append({"chain": list(chain), "what": f"a run of the restart chain {name(chains[0])} dies inside the program with {ref_died}; "
                                                                           f"restart chain {name(chain)} completes"})
                continue
            d = describe_diff(ref, got)
            if d:
                out["byte_fail"].append({"chain": list(chain), "what": f"restart chain {name(chains[0])} and restart chain {name(chain)} differ in: " + "; ".join(d)})
        finally:
            shutil.rmtree(wd, ignore_errors=True)
    if ref_died and not out["byte_fail"]:
        out["all_died"] = f"every restart chain of the group died inside the program ({ref_died})"
    return out


def reach(kind, n):
    """initial paths for n interfaces: how far the path of ensemble slot i reaches (see sysharness.initial_orders)"""
    if kind == "low1":       # the path of [0+] reaches the top: it can be drawn for every ensemble
        return [0, n] + list(range(2, n))
    if kind == "low2":
        return [0, n, n] + list(range(3, n))
    if kind == "half":
        return [0] + [n if i % 2 else i for i in range(1, n)]
    if kind == "all":
        return [0] + [n] * (n - 1)
    return None


def round6_cases(quick, rng):
    rcases, ccases = [], []
    # (a) re-sorting set-ups: many ensembles, low slots holding far-reaching paths (picks that displace a path into a slot
    #     where its weight is zero), sh-only and wire fencing; allowmaxlength = true (one go vs split is in scope)
    if quick:
        plan = [(7, "wf", "low1", (0, 1, 4, 5)), (7, "sh", "low2", (0, 3, 5)), (7, "sh", "low1", (4, 7)), (6, "sh", "half", (2, 5)), (6, "wf", "half", (4,))]
        N = 12
    else:
        plan = [(n, mv, kind, tuple(range(8))) for n in (5, 6, 7, 8) for mv in ("sh", "wf") for kind in ("low1", "low2", "half")]
        N = 16
    for n, mv, kind, seeds in plan:
        moves = ["sh"] * n if mv == "sh" else ["sh", "sh"] + ["wf"] * (n - 2)
        for seed in seeds:
            kw = dict(n_intf=n, moves=moves, workers=1, steps=N, seed=seed, allowmaxlength=True, init_reach=reach(kind, n))
            rcases.append((f"{mv}{n}-{kind}", kw, "all"))
    # (b) restart chains with allowmaxlength = false
    N = 36 if quick else 48
    setups = [("sh3", dict(n_intf=3, moves=["sh"] * 3)),
              ("sh5-all", dict(n_intf=5, moves=["sh"] * 5, init_reach=reach("all", 5))),
              ("mix5", dict(n_intf=5, moves=["sh", "sh", "wf", "sh", "wf"], init_reach=reach("half", 5))),
              ("mix4-cap", dict(n_intf=4, moves=["sh", "wf", "wf", "sh"], cap=2.75))]
    for label, s in setups:
        for seed in ((0, 1, 5) if quick else (0, 1, 2, 3, 5, 7)):
            k1 = 2 + seed % 3
            if quick:
                k2s = sorted({k1 + 2, 10, 14, 19, 25})
                triples = [(k1, 9, 17), (k1, 13, 24)]
            else:
                k2s = list(range(k1 + 1, N - 2))
                triples = [(k1, a, b) for a, b in ((k1 + 1, k1 + 2), (9, 17), (13, 24), (20, 30), (27, 40), (k1 + 3, N - 2))]
                triples += [tuple([k1] + sorted(rng.sample(range(k1 + 1, N - 1), 2))) for _ in range(3)]
            chains = [(k1,)] + [(k1, k2) for k2 in k2s] + triples
            kw = dict(s, workers=1, steps=N, seed=seed, allowmaxlength=False)
            ccases.append((label, kw, chains))
    return rcases, ccases


def round6_stage(ctx, quick, rng):
    rcases, ccases = round6_cases(quick, rng)
    # longest groups first (the chain groups), all in one pool
    results = H.run_many(_dispatch6, [("c", c) for c in ccases] + [("r", c) for c in rcases], jobs=14, timeout=1200)
    results = results[len(ccases):] + results[:len(ccases)]
    rres, cres = results[:len(rcases)], results[len(rcases):]
    tot = {"resort_groups": len(rcases), "resort_splits_compared": 0, "steps_in_which_sort_trajstate_moved_trajectories": 0,
           "resort_groups_with_such_a_step": 0, "picks_with_P_recomputed": 0, "stale_P": 0,
           "chain_groups": len(ccases), "chains_compared": 0, "chain_moves": 0, "moves_cut_by_random_length_bound": {"FTL": 0, "BTL": 0},
           "cuts_after_2nd_or_later_restart_from_a_reloaded_path_generated_after_the_first": 0, "search_groups": 0}
    nviol = 0
    stale_seen = []       # (case, res)
    byte_confirmed = False
    for case, (tag, res) in zip(rcases, rres):
        label, kw, mode = case
        ctx.dist(f"resort:{label}")
        if tag != "ok":
            ctx.violation(f"harness failure on re-sorting case {label} seed {kw['seed']}: {res[:300]}", {"family": "resort", "case": case, "error": res}, found_input=False)
            continue
        for h in res["harness"][:1]:
            ctx.violation(f"harness problem in re-sorting case {label} seed {kw['seed']}: {h[:300]}", {"family": "resort", "case": case, "problems": res["harness"]}, found_input=False)
        if res.get("all_died"):
            ctx.violation(f"re-sorting case {label} seed {kw['seed']}: {res['all_died']}"[:390], {"family": "resort", "case": [label, kw, "all"], "split": None}, found_input=False)
        tot["resort_splits_compared"] += len(res["splits"])
        tot["steps_in_which_sort_trajstate_moved_trajectories"] += len(res["sort_moves"])
        tot["resort_groups_with_such_a_step"] += 1 if res["sort_moves"] else 0
        tot["picks_with_P_recomputed"] += res["npicks"]
        tot["stale_P"] += res.get("n_stale", 0)
        for k in res["splits"]:
            ctx.count(("resort", label, kw["seed"], k), nontrivial=True)
        ctx.count(("resort-P", label, kw["seed"]), nontrivial=True)
        if res["stale"]:
            stale_seen.append((case, res))
        for bf in res["byte_fail"][:1]:
            byte_confirmed = True
            if nviol < 4:
                nviol += 1
                ctx.violation(f"C06 statement fails on the implementation: {label}, seed {kw['seed']}, one worker: {bf['what']}"[:390],
                              {"family": "resort", "case": [label, kw, "all"], "split": bf["split"], "problems": res["byte_fail"][:4],
                               "stale_P": res["stale"][:2]}, found_input=True)
    # search stage: the P oracle saw a stale matrix but no compared split differed -> more seeds, split right behind the stale steps
    if stale_seen and not byte_confirmed:
        seen_labels, scases = [], []
        for case, res in stale_seen:
            if case[0] not in seen_labels and len(seen_labels) < 3:
                seen_labels.append(case[0])
                for seed in range(100, 108):
                    scases.append((case[0], dict(case[1], seed=seed), "stale"))
        tot["search_groups"] = len(scases)
        for case, (tag, res) in zip(scases, H.run_many(resort_group, scases, jobs=14, timeout=900)):
            if tag != "ok":
                continue
            for k in res["splits"]:
                ctx.count(("resort-search", case[0], case[1]["seed"], k), nontrivial=True)
            for bf in res["byte_fail"][:1]:
                byte_confirmed = True
                if nviol < 4:
                    nviol += 1
                    ctx.violation(f"C06 statement fails on the implementation: {case[0]}, seed {case[1]['seed']}, one worker: {bf['what']}"[:390],
                                  {"family": "resort", "case": [case[0], case[1], "stale"], "split": bf["split"], "problems": res["byte_fail"][:4],
                                   "stale_P": res["stale"][:2]}, found_input=True)
    for case, res in stale_seen[:2]:
        s = res["stale"][0]
        ctx.violation(f"C06: state that a restart does not reload: {case[0]}, seed {case[1]['seed']}: the pick after step {s['step']} of the uninterrupted run uses a "
                      f"probability matrix that differs from the one recomputed from the current state (what a run restarted at step {s['step']} uses)"
                      + ("; confirmed by the byte comparison of split runs" if byte_confirmed else "; no compared split run differed"),
                      {"family": "resort", "case": [case[0], case[1], "all"], "split": s["step"], "stale_P": res["stale"][:2]}, found_input=byte_confirmed)
    nviol = 0
    for case, (tag, res) in zip(ccases, cres):
        label, kw, chains = case
        ctx.dist(f"chain:{label}")
        if tag != "ok":
            ctx.violation(f"harness failure on restart-chain case {label} seed {kw['seed']}: {res[:300]}", {"family": "chain", "case": case, "error": res}, found_input=False)
            continue
        for h in res["harness"][:1]:
            ctx.violation(f"harness problem in restart-chain case {label} seed {kw['seed']}: {h[:300]}", {"family": "chain", "case": case, "problems": res["harness"]}, found_input=False)
        if res.get("all_died"):
            ctx.violation(f"restart-chain case {label} seed {kw['seed']}: {res['all_died']}"[:390],
                          {"family": "chain", "case": [label, kw, [list(c) for c in chains[:3]]]}, found_input=False)
        tot["chains_compared"] += len(res["compared"])
        tot["chain_moves"] += res["moves"]
        for st in ("FTL", "BTL"):
            tot["moves_cut_by_random_length_bound"][st] += res["cuts"][st]
        tot["cuts_after_2nd_or_later_restart_from_a_reloaded_path_generated_after_the_first"] += res["sensitive_cuts"]
        for ch in res["compared"]:
            ctx.count(("chain", label, kw["seed"], tuple(ch)), nontrivial=True)
        for bf in res["byte_fail"][:1]:
            if nviol < 4:
                nviol += 1
                ctx.violation(f"C06 statement fails on the implementation: {label}, seed {kw['seed']}, allowmaxlength = false, one worker: {bf['what']}"[:390],
                              {"family": "chain", "case": [label, kw, [list(chains[0]), bf["chain"]]], "problems": res["byte_fail"][:4]}, found_input=True)
    if rcases:
        ctx.sample({"family": "resort", "label": rcases[0][0], **rcases[0][1]})
    if ccases:
        ctx.sample({"family": "chain", "label": ccases[0][0], **ccases[0][1], "chains": [list(c) for c in ccases[0][2]]})
    ctx.cov["correspondence"]["round6"] = tot


def _replay_resort(arg):
    label, kw, k = arg
    return resort_group((label, kw, "all" if k is None else [k]))


def _dispatch6(arg):
    kind, case = arg
    return resort_group(case) if kind == "r" else chain_group(case)


def run(ctx):
    common.proof_stage(ctx, "C06", ["extract/c06.vo"])
    runner = common.runner_stage(ctx, "c06")
    if runner is None:
        return
    quick = ctx.tier == "quick"
    rng = ctx.rng
    cases = []
    seeds = (0, 7) if quick else (0, 1, 2, 3, 7, 11, 99, 1234, 4242, 90001)  # the model identifies streams by unary naturals: keep seeds small
    for seed in seeds:
        for N, moves, cap in ((6, ["sh", "sh", "sh"], None), (8, ["sh", "wf", "sh"], 1.75), (10, ["sh", "wf", "wf", "sh"], 2.75)) if quick else \
                ((6, ["sh", "sh", "sh"], None), (12, ["sh", "wf", "sh"], 1.75), (12, ["sh", "sh", "wf", "sh"], 2.75), (12, ["sh", "sh", "wf", "wf"], 3.25), (20, ["sh", "sh"], None)):
            n_intf = len(moves)
            for k in range(1, N):
                cases.append((seed, N, moves, cap, (k,), 1, n_intf))
            cases.append((seed, N, moves, cap, (2, 1), 1, n_intf))
            cases.append((seed, N, moves, cap, (1, 2, 1), 1, n_intf))
            if not quick:
                for _ in range(4):
                    parts, left = [], N - 1
                    while left > 0 and len(parts) < 4:
                        x = rng.randint(1, left)
                        parts.append(x)
                        left -= x
                    cases.append((seed, N, moves, cap, tuple(parts), 1, n_intf))
        # several workers: re-issued jobs and generator recovery
        for W in (2, 3) if quick else (2, 3, 4):
            N = W + 6
            for k in (1, 3, N - W):
                cases.append((seed, N, ["sh"] * (W + 1), None, (k,), W, W + 1))
            cases.append((seed, N, ["sh"] * (W + 1), None, (2, 1, 2), W, W + 1))
            if not quick:
                # wire fencing with a cap and several workers
                mv = ["sh"] + ["wf"] * (W - 1) + ["sh"]   # orders are integers: an effective cap needs a sh top ensemble
                for k in (2, 4, N - W):
                    cases.append((seed, N, mv, len(mv) - 1.25, (k,), W, len(mv)))
    results = H.run_many(case_run, cases, jobs=14, timeout=900)
    for c in cases[:3]:
        ctx.sample({"seed": c[0], "steps": c[1], "moves": c[2], "cap": c[3], "splits": c[4], "workers": c[5]})
    reqs, refs = [], []
    nbad = 0
    for case, (tag, res) in zip(cases, results):
        ctx.dist(f"W{case[5]}:seed{'0' if case[0] == 0 else 'n'}:splits{len(case[4])}")
        if tag != "ok":
            ctx.violation(f"harness failure on {case}: {res[:300]}", {"case": case, "error": res}, found_input=False)
            continue
        ctx.count(("c06", case), nontrivial=True)
        if res["problems"] and nbad < 6:
            nbad += 1
            crashed = any("crashed" in p for p in res["problems"])
            ctx.violation(("harness problem: " if crashed else "C06 statement fails on the implementation: ") + res["problems"][0][:300],
                          {"case": case, "problems": res["problems"]}, found_input=not crashed)
        for r in res["rng"]:
            reqs.append(f"rt {r['seed']} {r['cstep']} {r['nlocked']} {r['before'][0]} {r['before'][1]} 1")
            refs.append((case, r))
    for (case, r), out in zip(refs, runner.run(reqs)):
        ch, e, n = out.split("|")
        ctx.count(("rng", case, r["cstep"]), nontrivial=True)
        if (int(e), int(n)) != tuple(r["after"][:2]) and nbad < 8:
            nbad += 1
            ctx.violation(f"generator recovery differs from the model: implementation {r['after'][:2]}, model {(int(e), int(n))}",
                          {"case": case, "rng": r}, found_input=False)
    tres = H.run_many(turtle_case, [0, 5] if quick else [0, 5, 11, 12], jobs=4, timeout=900)
    for (tag, res) in tres:
        ctx.dist("turtlemd:same_seed")
        ctx.count(("turtle", repr(res)[:20]), nontrivial=True)
        if tag != "ok":
            ctx.violation(f"TurtleMD determinism run crashed: {res[:300]}", {"error": res}, found_input=False)
        elif res["problems"]:
            ctx.violation(f"C06 statement fails on the implementation: {res['problems'][0]}", {"turtle": res}, found_input=True)
    ctx.cov["rule"] = "one evaluation = one (seed, steps, moves, split chain, workers) experiment: straight run vs restarted run compared byte for byte (one worker) or re-issued jobs compared with the recorded ones (several workers), or one generator recovery compared with the model"
    ctx.cov["correspondence"] = {"cases": len(cases), "generator_recoveries": len(reqs)}
    round6_stage(ctx, quick, rng)
    ctx.cov["rule"] += ("; or one split point of a re-sorting set-up (straight run vs run restarted there, every step), one straight run with the "
                        "probability matrix recomputed at every pick, or one restart chain with allowmaxlength = false compared with the chain "
                        "that has only the first restart")
    ctx.cov["trusted_base"] += ["extraction + ocaml/c06_driver.ml", "py/sysharness.py", "py/plugins/engines.py lattice engine"]
    ctx.assumptions += ["order values are exactly representable at six decimals (lattice plug-in); TurtleMD only same-seed comparison",
                        "allowmaxlength = false: only restart chains sharing their first restart are compared (scope of the property)"]


def replay(doc):
    c = doc["replay"]["case"]
    fam = doc["replay"].get("family")
    if fam == "resort":
        kw = dict(c[1])
        # the stored split only (mode 'all' would redo every split point)
        (tag, res), = H.run_many(_replay_resort, [(c[0], kw, doc["replay"].get("split"))], jobs=1)
        print(tag, res if tag != "ok" else {"byte_fail": res["byte_fail"], "stale_P": res["stale"][:1], "harness": res["harness"]})
        return 1 if (tag != "ok" or res["byte_fail"] or res["stale"] or res["harness"]) else 0
    if fam == "chain":
        (tag, res), = H.run_many(chain_group, [(c[0], dict(c[1]), [tuple(x) for x in c[2]])], jobs=1)
        print(tag, res if tag != "ok" else {"byte_fail": res["byte_fail"], "harness": res["harness"], "cuts": res["cuts"]})
        return 1 if (tag != "ok" or res["byte_fail"] or res["harness"]) else 0
    (tag, res), = H.run_many(case_run, [(c[0], c[1], c[2], c[3], tuple(c[4]), c[5], c[6])], jobs=1)
    print(tag, res if tag != "ok" else res["problems"])
    return 1 if (tag != "ok" or res["problems"]) else 0
