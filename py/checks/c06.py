"""C06 — same seed, same run: determinism and restart equivalence.

Theorems: coq/theorems/C06.v (proofs coq/proofs/RestartP.v): a generic restart-chain
equivalence for deterministic systems with faithful recovery, exact recovery of the scheduler's
generator by the repaired set_rgen (the original one refuted), and exactness of re-issued jobs.
Tie: the real program.  For several seeds (0 and others), step counts, move sets and EVERY
split point k (and chains of two and three restarts) with one worker on the lattice plug-in,
infretis_data.txt and restart.toml of the restarted run are compared byte for byte with the
straight run (after dropping `restarted_from`, as the repository's own test does); two runs
with the same seed are compared with each other (lattice and TurtleMD); the generator
(entropy, spawn counter, bit-generator state) observed at the last write and after the restart
must be equal and match the extracted model's persisted image; with several workers the jobs
re-issued after a restart must be exactly the (ensemble, path) pairs recorded in restart.toml.
"""
import importlib.util  # noqa: F401
import os
import shutil

import common
import sysharness as H

META = {
    "id": "C06",
    "level": "proof",
    "technique": "Coq theorems (generic restart-chain equivalence by induction over the chain; exact recovery of the generator state; exactness of re-issued jobs from the REPEX invariant) + byte-for-byte comparison of straight and restarted runs of the real program at every split point",
    "text": "Unbounded theorems: for any deterministic step function whose persisted image is recovered up to an equivalence the step respects, every chain of stop/restart segments yields the same final state and exactly the same emitted rows as the straight run; the scheduler's generator (entropy = seed, spawn counter, bit-generator state) is recovered exactly by the repaired set_rgen from what write_toml stores for every seed, step and number of in-flight jobs (the original set_rgen is refuted for seed != 0 and for several workers); a job re-issued by pick_lock holds exactly the recorded ensembles and paths, sitting in those ensembles, and is re-entered in the lock list. Tie: infretis_data.txt and restart.toml of the real program compared byte for byte between straight runs and runs restarted at EVERY split point (and chains of 2-3 restarts) for several seeds, step counts and move sets; same-seed runs compared (lattice, TurtleMD); generator state observed before the stop and after the restart; multi-worker restarts re-issue exactly the recorded jobs.",
    "note": "Trusted: Coq kernel; extraction + OCaml driver; harness (a stop is a process-level stop between two completions: the in-process runner has already executed the next job, whose files stay in the worker directory, as after a real kill). The instance hypotheses of the generic theorem (the real step function is deterministic given the generator state; recovery restores every field the step reads: paths to six decimals on the lattice, weights, fractions, locks) are not proved in Coq: they are what the byte-for-byte comparison checks. Scope as in the property: order files carry six decimals (the lattice plug-in's values are exactly representable; with TurtleMD only same-seed runs are compared), the loss of the 'initial path' marker ('ld' -> 're') at a restart is kept out by allowmaxlength = true in every compared run (a false alarm of the first thorough run: seed 1, sh,sh,wf,wf, restart at step 1, without that setting). Bit-generator state round trip through TOML is checked, not proved.",
    "design_ref": "4/C06",
}
LEVEL = "proof"


def norm_restart(path):
    import tomli
    with open(path, "rb") as f:
        c = tomli.load(f)
    c["current"].pop("restarted_from", None)
    import tomli_w
    return tomli_w.dumps(c)


class GenRec(H.Recorder):
    """generator identity at attach time and after every write_toml"""

    def __init__(self):
        super().__init__(with_frac=False)
        self.at_start = None
        self.at_write = []
        self.preps = []

    @staticmethod
    def gen_view(state):
        ss = state.rgen.bit_generator._seed_seq
        st = state.rgen.bit_generator.state
        return (int(ss.entropy), int(ss.n_children_spawned), str(st["state"]["state"]), str(st["state"]["inc"]))

    def attach(self, state):
        super().attach(state)
        rec = self
        rec.at_start = rec.gen_view(state)
        inner = state.write_toml
        prep = state.prep_md_items

        def write_toml():
            out = inner()
            rec.at_write.append((rec.gen_view(state), state.cstep, len(state.locked)))
            return out

        def prep_md(md):
            out = prep(md)
            rec.preps.append(([int(e) for e in out["picked"]], [int(out["picked"][e]["pn_old"]) for e in out["picked"]]))
            return out

        state.write_toml = write_toml
        state.prep_md_items = prep_md


def files(wd):
    with open(os.path.join(wd, "infretis_data.txt"), "rb") as f:
        data = f.read()
    # the stored order / energy files of the live paths (traj.txt names files after the process id)
    import tomli
    with open(os.path.join(wd, "restart.toml"), "rb") as f:
        active = tomli.load(f)["current"]["active"]
    stored = []
    for pn in active:
        for txt in ("order.txt", "energy.txt"):
            p = os.path.join(wd, "load", str(pn), txt)
            stored.append((pn, txt, open(p, "rb").read() if os.path.exists(p) else None))
    return data, norm_restart(os.path.join(wd, "restart.toml")), stored


def case_run(case):
    """(seed, N, moves, cap, splits, workers) -> dict"""
    seed, N, moves, cap, splits, W, n_intf = case
    out = {"problems": [], "rng": [], "reissue": []}
    wd0 = H.scratch("infv_c06a_")
    wd1 = H.scratch("infv_c06b_")
    try:
        # scope of the property: the documented loss of the 'initial path' marker ('ld' -> 're') at a
        # restart is kept out by allowmaxlength = true
        kw = dict(n_intf=n_intf, moves=moves, workers=W, steps=N, seed=seed, cap=cap, allowmaxlength=True,
                  n_order=1 + (seed + N) % 3)      # 1-3 order-parameter values per frame
        H.write_setup(wd0, **kw)
        r0 = H.run_sim(wd0)
        if r0["status"] != "done":
            out["problems"].append(f"straight run ended with {r0['status']}")
            return out
        ref = files(wd0)
        # same seed again
        wd2 = H.scratch("infv_c06c_")
        try:
            H.write_setup(wd2, **kw)
            H.run_sim(wd2)
            if files(wd2) != ref:
                out["problems"].append("two straight runs with the same seed differ")
        finally:
            shutil.rmtree(wd2, ignore_errors=True)
        # restarted run
        H.write_setup(wd1, **kw)
        first = True
        last_write = None
        for k in list(splits) + [None]:
            rec = GenRec()
            res = H.run_sim(wd1, inp="infretis.toml" if first else "restart.toml", stop_after=k, recorder=rec)
            if res["status"] == "none":
                out["problems"].append("setup_config returned None on restart")
                return out
            if not first and last_write is not None:
                g, cstep, nl = last_write
                out["rng"].append({"seed": seed, "cstep": cstep, "nlocked": nl, "before": g, "after": rec.at_start})
                if rec.at_start != g:
                    out["problems"].append(f"generator after restart {rec.at_start[:2]} differs from the one at the last write {g[:2]} "
                                           f"(cstep {cstep}, {nl} in flight)")
                if W > 1:
                    import tomli
                    out["reissue"].append({"recorded": res.get("_locked0"), "preps": rec.preps[:W]})
            first = False
            if rec.at_write:
                last_write = rec.at_write[-1]
            if W > 1 and res["status"] == "stopped":
                import tomli
                with open(os.path.join(wd1, "restart.toml"), "rb") as f:
                    cur = tomli.load(f)["current"]
                out["_locked_next"] = [([int(e) - 1 for e in a], [int(p) for p in b]) for a, b in cur["locked"]]
            elif W > 1:
                out["_locked_next"] = None
            if not first and W > 1 and out.get("_locked_prev") is not None:
                want = out["_locked_prev"]
                got = rec.preps[:len(want)]
                if sorted(map(repr, got)) != sorted(map(repr, want)):
                    out["problems"].append(f"jobs re-issued after the restart {got} are not the recorded in-flight jobs {want}")
                out["reissue"].append((want, got))
            out["_locked_prev"] = out.get("_locked_next")
            if res["status"] == "done":
                break
        if W == 1:
            got = files(wd1)
            if got[0] != ref[0]:
                out["problems"].append(f"infretis_data.txt of the run restarted at {splits} differs from the straight run")
            if got[1] != ref[1]:
                out["problems"].append(f"restart.toml of the run restarted at {splits} differs from the straight run")
            if got[2] != ref[2]:
                bad = [(a[0], a[1]) for a, b in zip(got[2], ref[2]) if a != b]
                out["problems"].append(f"stored order/energy files of live paths {bad[:3]} of the run restarted at {splits} differ from the straight run")
    except Exception as e:  # noqa: BLE001
        import traceback
        tb = traceback.format_exc()
        frames = [ln for ln in tb.splitlines() if ln.strip().startswith("File ") and ("/infretis/" in ln or "/verif/py" in ln)]
        if frames and "/infretis/" in frames[-1]:
            # the program itself died (in a run that the straight run completed): the restart does not reproduce the run
            out["problems"].append(f"a run of the chain {splits} died inside the program with {e!r} ({frames[-1].strip()[:160]})")
        else:
            out["problems"].append(f"case crashed: {e!r} {tb[-800:]}")
    finally:
        shutil.rmtree(wd0, ignore_errors=True)
        shutil.rmtree(wd1, ignore_errors=True)
    out.pop("_locked_prev", None)
    out.pop("_locked_next", None)
    return out


def turtle_case(seed):
    """two TurtleMD runs with the same seed must be byte-identical"""
    import tomli
    import tomli_w
    src = os.path.join(common.REPO, "examples", "turtlemd", "double_well")
    outs = []
    for _ in range(2):
        wd = H.scratch("infv_c06t_")
        try:
            shutil.copytree(os.path.join(src, "load_copy"), os.path.join(wd, "load"))
            shutil.copy(os.path.join(src, "orderp.py"), wd)
            with open(os.path.join(common.REPO, "test", "simulations", "data", "wf.toml"), "rb") as f:
                cfg = tomli.load(f)
            cfg["simulation"]["steps"] = 8
            cfg["simulation"]["seed"] = seed
            with open(os.path.join(wd, "infretis.toml"), "wb") as f:
                tomli_w.dump(cfg, f)
            res = H.run_sim(wd)
            outs.append((res["status"],) + files(wd))
        finally:
            shutil.rmtree(wd, ignore_errors=True)
    return {"problems": [] if outs[0] == outs[1] else [f"two TurtleMD runs with seed {seed} differ"]}


def run(ctx):
    common.proof_stage(ctx, "C06", ["extract/c06.vo"])
    runner = common.runner_stage(ctx, "c06")
    if runner is None:
        return
    quick = ctx.tier == "quick"
    rng = ctx.rng
    cases = []
    seeds = (0, 7) if quick else (0, 1, 2, 3, 7, 11, 99, 1234, 4242, 90001)  # the model identifies streams by unary naturals: keep seeds small
    for seed in seeds:
        for N, moves, cap in ((6, ["sh", "sh", "sh"], None), (8, ["sh", "wf", "sh"], 1.75), (10, ["sh", "wf", "wf", "sh"], 2.75)) if quick else \
                ((6, ["sh", "sh", "sh"], None), (12, ["sh", "wf", "sh"], 1.75), (12, ["sh", "sh", "wf", "sh"], 2.75), (12, ["sh", "sh", "wf", "wf"], 3.25), (20, ["sh", "sh"], None)):
            n_intf = len(moves)
            for k in range(1, N):
                cases.append((seed, N, moves, cap, (k,), 1, n_intf))
            cases.append((seed, N, moves, cap, (2, 1), 1, n_intf))
            cases.append((seed, N, moves, cap, (1, 2, 1), 1, n_intf))
            if not quick:
                for _ in range(4):
                    parts, left = [], N - 1
                    while left > 0 and len(parts) < 4:
                        x = rng.randint(1, left)
                        parts.append(x)
                        left -= x
                    cases.append((seed, N, moves, cap, tuple(parts), 1, n_intf))
        # several workers: re-issued jobs and generator recovery
        for W in (2, 3) if quick else (2, 3, 4):
            N = W + 6
            for k in (1, 3, N - W):
                cases.append((seed, N, ["sh"] * (W + 1), None, (k,), W, W + 1))
            cases.append((seed, N, ["sh"] * (W + 1), None, (2, 1, 2), W, W + 1))
            if not quick:
                # wire fencing with a cap and several workers
                mv = ["sh"] + ["wf"] * (W - 1) + ["sh"]   # orders are integers: an effective cap needs a sh top ensemble
                for k in (2, 4, N - W):
                    cases.append((seed, N, mv, len(mv) - 1.25, (k,), W, len(mv)))
    results = H.run_many(case_run, cases, jobs=14, timeout=900)
    for c in cases[:3]:
        ctx.sample({"seed": c[0], "steps": c[1], "moves": c[2], "cap": c[3], "splits": c[4], "workers": c[5]})
    reqs, refs = [], []
    nbad = 0
    for case, (tag, res) in zip(cases, results):
        ctx.dist(f"W{case[5]}:seed{'0' if case[0] == 0 else 'n'}:splits{len(case[4])}")
        if tag != "ok":
            ctx.violation(f"harness failure on {case}: {res[:300]}", {"case": case, "error": res}, found_input=False)
            continue
        ctx.count(("c06", case), nontrivial=True)
        if res["problems"] and nbad < 6:
            nbad += 1
            crashed = any("crashed" in p for p in res["problems"])
            ctx.violation(("harness problem: " if crashed else "C06 statement fails on the implementation: ") + res["problems"][0][:300],
                          {"case": case, "problems": res["problems"]}, found_input=not crashed)
        for r in res["rng"]:
            reqs.append(f"rt {r['seed']} {r['cstep']} {r['nlocked']} {r['before'][0]} {r['before'][1]} 1")
            refs.append((case, r))
    for (case, r), out in zip(refs, runner.run(reqs)):
        ch, e, n = out.split("|")
        ctx.count(("rng", case, r["cstep"]), nontrivial=True)
        if (int(e), int(n)) != tuple(r["after"][:2]) and nbad < 8:
            nbad += 1
            ctx.violation(f"generator recovery differs from the model: implementation {r['after'][:2]}, model {(int(e), int(n))}",
                          {"case": case, "rng": r}, found_input=False)
    tres = H.run_many(turtle_case, [0, 5] if quick else [0, 5, 11, 12], jobs=4, timeout=900)
    for (tag, res) in tres:
        ctx.dist("turtlemd:same_seed")
        ctx.count(("turtle", repr(res)[:20]), nontrivial=True)
        if tag != "ok":
            ctx.violation(f"TurtleMD determinism run crashed: {res[:300]}", {"error": res}, found_input=False)
        elif res["problems"]:
            ctx.violation(f"C06 statement fails on the implementation: {res['problems'][0]}", {"turtle": res}, found_input=True)
    ctx.cov["rule"] = "one evaluation = one (seed, steps, moves, split chain, workers) experiment: straight run vs restarted run compared byte for byte (one worker) or re-issued jobs compared with the recorded ones (several workers), or one generator recovery compared with the model"
    ctx.cov["correspondence"] = {"cases": len(cases), "generator_recoveries": len(reqs)}
    ctx.cov["trusted_base"] += ["extraction + ocaml/c06_driver.ml", "py/sysharness.py", "py/plugins/engines.py lattice engine"]
    ctx.assumptions += ["order values are exactly representable at six decimals (lattice plug-in); TurtleMD only same-seed comparison"]


def replay(doc):
    c = doc["replay"]["case"]
    (tag, res), = H.run_many(case_run, [(c[0], c[1], c[2], c[3], tuple(c[4]), c[5], c[6])], jobs=1)
    print(tag, res if tag != "ok" else res["problems"])
    return 1 if (tag != "ok" or res["problems"]) else 0
