"""C17 — exactly the requested number of moves runs; each result is consumed once.

Theorems: coq/theorems/C17.v (model coq/model/SchedM.v, proofs coq/proofs/SchedP.v).
Tie: (a) the real scheduler() (real REPEX_state.initiate/loop/treat_output/write_toml, lattice
plug-in) under the in-process scheduled runner for all (workers, steps, stop point, completion
order) below the tier's bound: completion order of job ordinals, number of submissions, final
cstep, jobs left in flight and the cstep/locked entries of restart.toml must equal the extracted
model's; restarts continue from the persisted step, also with a raised step count;
(b) the real aiorunner + future_list with instrumented tasks of scripted durations / failures:
the observed event trace (submit, start, finish, deliver, stop) must be accepted by the extracted
protocol model and reproduce its delivered list.  Oracle: the statement itself (exactly
steps - start completions, restart counter = completed moves, nothing in flight, every unit
executed once, own result/exception delivered once, clean shutdown).
"""
import importlib.util  # noqa: F401
import itertools
import os
import shutil
import threading
import time

import common
import sysharness as H

META = {
    "id": "C17",
    "level": "proof",
    "technique": "Coq theorems (closed-form step count for every completion order by induction with a loop invariant; exactly-once invariant of the task-runner protocol over arbitrary event interleavings) + lock-step of the extracted scheduler model with the real scheduler() and trace validation of the real aiorunner/future_list",
    "text": "Unbounded theorems: for all worker counts W >= 1, start steps c0 and totals T with any restart point c0 <= T (also with fewer steps left than workers) and EVERY completion order, the scheduler loop submits exactly T - c0 jobs and completes exactly those, each once, ends with nothing in flight, cstep = T, and the restart file records cstep = T with an empty lock list; every completion rewrites the restart file with the current counter; for the task-runner protocol (queue, worker wrappers, futures, as_completed, stop) in every interleaving no unit is executed twice, no result delivered twice, a delivered outcome is the one stored in the unit's own future, a future is set once, and after a clean shutdown every submitted unit was executed and resolved. for a run stopped after ANY number n of consumed results and restarted from the file's counter with ANY worker count and completion order, the file's counter is c0 + n, no job is both consumed and in flight, and the results consumed by the two runs add up to exactly T - c0 (C17_stop_restart_exact; the stopped state is one the uninterrupted model passes through, C17_prefix_is_scheduler). Tie: all (workers<=3/4, steps<=W+4, stop point, completion order) runs of the real scheduler() compared with the model, the stopped state itself (consumed, submitted, in flight, counters in memory and in restart.toml) with the extracted main_prefix; the real aiorunner with scripted task durations/failures validated event by event by the extracted acceptor.",
    "note": "Trusted: Coq kernel; extraction + OCaml driver; harness. asyncio / threads / the process pool are runtime: only their observable protocol is checked (event order reconstructed from monotonic time stamps with task durations spaced 0.25 s apart); real-time races inside submit_work (asyncio.run on a queue owned by another loop) cannot be exhibited by the model. The model has both the original and the repaired initiate() (fix 49b84d7, never more jobs than steps left); the theorems are for the repaired rule, the original one is refuted by a witness.",
    "design_ref": "4/C17",
}
LEVEL = "proof"


class Rec17(H.Recorder):
    """records restart.toml's cstep/locked after every treat_output"""

    def __init__(self):
        super().__init__(with_frac=False)
        self.after = []

    def attach(self, state):
        super().attach(state)
        rec = self
        inner = state.treat_output

        def treat(md):
            out = inner(md)
            import tomli
            try:
                with open("restart.toml", "rb") as f:
                    c = tomli.load(f)["current"]
                rec.after.append((c["cstep"], len(c["locked"])))
            except (FileNotFoundError, KeyError, tomli.TOMLDecodeError):
                rec.after.append((-1, -1))          # no (readable) restart file after a completed move
            return out

        state.treat_output = treat


def read_restart(wd):
    import tomli
    try:
        with open(os.path.join(wd, "restart.toml"), "rb") as f:
            c = tomli.load(f)["current"]
    except (FileNotFoundError, KeyError, tomli.TOMLDecodeError):
        return -1, []
    return c["cstep"], [tuple(map(int, x[1])) for x in c["locked"]]


def sched_case(case):
    """(n_intf, W, T, schedule, stop_after or None, raise_steps) -> observations of the real program."""
    n_intf, W, T, sched, stop, raise_to = case
    wd = H.scratch("infv_c17_")
    out = {"segs": []}
    try:
        H.write_setup(wd, n_intf=n_intf, workers=W, steps=T, seed=len(sched) + T)
        rec = Rec17()
        res = H.run_sim(wd, schedule=list(sched), stop_after=stop, recorder=rec)
        rc, rl = read_restart(wd) if os.path.exists(os.path.join(wd, "restart.toml")) else (None, None)
        out["aliased"] = list(res.get("aliased_units") or [])
        out["segs"].append({"c0": 0, "T": T, "status": res["status"], "completed": res.get("completed"), "submitted": res.get("submitted"),
                            "cstep": res.get("cstep"), "in_flight": res.get("in_flight"), "restart_cstep": rc,
                            "restart_locked": len(rl) if rl is not None else None, "after": rec.after})
        used = len(res.get("completed") or [])
        if stop is not None and res["status"] == "stopped":
            rec = Rec17()
            res2 = H.run_sim(wd, inp="restart.toml", schedule=list(sched[used:]), recorder=rec)
            rc2, rl2 = read_restart(wd)
            out["segs"].append({"c0": rc, "T": T, "status": res2["status"], "completed": res2.get("completed"), "submitted": res2.get("submitted"),
                                "cstep": res2.get("cstep"), "in_flight": res2.get("in_flight"), "restart_cstep": rc2,
                                "restart_locked": len(rl2), "after": rec.after})
            used += len(res2.get("completed") or [])
        if raise_to:
            # finished run; restart once with unchanged steps (must not run anything), then raise the step count
            r0 = H.run_sim(wd, inp="restart.toml")
            out["same_steps_restart"] = r0["status"]
            if T > 1 and (T + len(sched)) % 2 == 0:
                # ... and once with FEWER steps than already done (a legal no-op that rewrites restart.toml)
                r1 = H.run_sim(wd, inp="restart.toml", steps=T - 1)
                out["fewer_steps_restart"] = (r1["status"], r1.get("completed"))
            rec = Rec17()
            res3 = H.run_sim(wd, inp="restart.toml", steps=raise_to, schedule=list(sched[used:]), recorder=rec)
            if res3["status"] == "none":
                out["segs"].append({"c0": T, "T": raise_to, "status": "none"})
            else:
                rc3, rl3 = read_restart(wd)
                out["segs"].append({"c0": T, "T": raise_to, "status": res3["status"], "completed": res3.get("completed"),
                                    "submitted": res3.get("submitted"), "cstep": res3.get("cstep"), "in_flight": res3.get("in_flight"),
                                    "restart_cstep": rc3, "restart_locked": len(rl3), "after": rec.after})
    finally:
        shutil.rmtree(wd, ignore_errors=True)
    return out


# ------------------------------------------------------------------ aiorunner traces


def runner_case(case):
    """case = (W, [(dur_units, fail)], submit_gaps) -> event trace of the real aiorunner."""
    import c17_tasks
    from infretis.asyncrunner import aiorunner, future_list
    W, units, _ = case
    wd = H.scratch("infv_c17r_")
    log = os.path.join(wd, "events.log")
    old = os.getcwd()
    os.chdir(wd)
    ev = []
    out = {"events": ev}
    try:
        runner = aiorunner({}, W)
        runner.set_task(c17_tasks.task)
        runner.start()
        futs = future_list()
        nthreads0 = threading.active_count()
        pendingf = {}
        for u, (dur, fail) in enumerate(units):
            ev.append((time.monotonic(), "S", u))
            f = runner.submit_work({"unit": u, "dur": 0.25 * dur + 0.12 * (u % 2), "fail": fail, "log": log})
            futs.add(f)
            pendingf[id(f)] = u
        delivered = []
        if case[2] == "late":
            # the consumer is busy until every unit has finished: several futures are done at the same poll
            t_end = time.monotonic() + 60
            while time.monotonic() < t_end and not all(f.done() for f in list(futs._futures)):
                time.sleep(0.05)
            time.sleep(0.1)
        if case[2] == "stopfirst":
            # stop() is called while units are still queued (more outstanding units than workers):
            # it has to let every submitted unit run and resolve its future before it returns
            t0 = time.monotonic()
            ev.append((t0, "X", -1))
            runner.stop()
            out["stop_s"] = time.monotonic() - t0
            out["thread_alive"] = runner._thread.is_alive()
            out["loop_running"] = runner._loop.is_running()
            for f in list(futs._futures):
                u = pendingf[id(f)]
                if not f.done():
                    delivered.append((u, "U", "future never resolved although stop() returned", None))
                    continue
                try:
                    r = f.result()
                    delivered.append((u, "R", r.get("unit"), r.get("result")))
                except Exception as e:  # noqa: BLE001
                    delivered.append((u, "E", str(e), None))
            out["extra_future"] = False
            out["delivered"] = delivered
            runner._executor.shutdown(wait=True)
            if os.path.exists(log):
                for line in open(log):
                    k, u, t, pid, *rest = line.split()
                    ev.append((float(t), "s" if k == "start" else "f", int(u), rest[0] if rest else ""))
            return out
        for _ in units:
            f = futs.as_completed()
            t = time.monotonic()
            if f is None:
                break
            u = pendingf[id(f)]
            try:
                r = f.result()
                delivered.append((u, "R", r.get("unit"), r.get("result")))
            except Exception as e:  # noqa: BLE001
                delivered.append((u, "E", str(e), None))
            ev.append((t, "D", u))
        extra = futs.as_completed()
        out["extra_future"] = extra is not None
        t0 = time.monotonic()
        ev.append((t0, "X", -1))
        runner.stop()
        out["stop_s"] = time.monotonic() - t0
        out["thread_alive"] = runner._thread.is_alive()
        out["loop_running"] = runner._loop.is_running()
        out["delivered"] = delivered
        runner._executor.shutdown(wait=True)
        for line in open(log):
            k, u, t, pid, *rest = line.split()
            ev.append((float(t), "s" if k == "start" else "f", int(u), rest[0] if rest else ""))
    finally:
        os.chdir(old)
        shutil.rmtree(wd, ignore_errors=True)
    return out


def trace_to_model(W, events):
    """Sort by time; map starts/finishes to wrappers (lowest idle wrapper; takes in FIFO order)."""
    events = sorted(events, key=lambda e: e[0])
    busy = [None] * W
    queue = []
    toks = []
    started = set()
    for e in events:
        kind, u = e[1], e[2]
        if kind == "S":
            toks.append("S")
            queue.append(u)
        elif kind == "s":
            if u in started:
                continue
            # wrappers take units in FIFO order: everything queued before u was taken before it
            while queue and u not in started:
                h = queue.pop(0)
                if None not in busy:
                    return None, f"unit {h} started while all {W} wrappers were busy"
                w = busy.index(None)
                busy[w] = h
                started.add(h)
                toks.append(f"T{w}")
        elif kind == "f":
            if u not in busy:
                # its start line was not seen yet (same instant): take it now
                return None, f"unit {u} finished without having started"
            w = busy.index(u)
            busy[w] = None
            toks.append(f"{'E' if e[3] == 'E' else 'R'}{w}:{u * 10 + 1 if e[3] != 'E' else u}")
        elif kind == "D":
            toks.append("D")
        elif kind == "X":
            toks.append("X")
    return toks, None


def run(ctx):
    common.proof_stage(ctx, "C17", ["extract/c17.vo"])
    runner = common.runner_stage(ctx, "c17")
    if runner is None:
        return
    rng = ctx.rng
    quick = ctx.tier == "quick"
    # ---------------- (a) scheduler
    cases = []
    for W in (1, 2, 3) if quick else (1, 2, 3, 4):
        n_intf = W + 1 if W > 1 else 2
        for T in range(W, W + (4 if quick else 7)):
            scheds = [tuple(s) for s in itertools.product(range(W), repeat=T)] if W > 1 else [tuple([0] * T)]
            cap = 12 if quick else 150
            if len(scheds) > cap:
                scheds = rng.sample(scheds, cap)
            for s in scheds:
                cases.append((n_intf, W, T, s, None, T + 3 if rng.random() < 0.3 else 0))
                k = rng.randint(1, T - 1) if T > 1 else None
                if k:
                    cases.append((n_intf, W, T, s, k, 0))
    results = H.run_many(sched_case, cases, jobs=14, timeout=600)
    for c in cases[:3]:
        ctx.sample({"n_intf": c[0], "workers": c[1], "steps": c[2], "schedule": c[3], "stop_after": c[4], "raise_steps_to": c[5]})
    reqs, refs = [], []
    for case, (tag, res) in zip(cases, results):
        if tag != "ok":
            ctx.violation(f"harness failure on scheduler case {case}: {res[:300]}", {"case": case, "error": res}, found_input=False)
            continue
        n_intf, W, T, sched, stop, raise_to = case
        if res.get("aliased"):
            ctx.violation(f"C17 statement fails on the implementation: the scheduler handed the SAME unit object to the task runner more than once "
                          f"(submissions {res['aliased']} with {W} workers, {T} steps): units still queued in the runner alias each other, so a unit can be "
                          f"executed with another unit's content and a submitted unit not at all", {"case": case, "aliased": res["aliased"]}, found_input=True)
        used = 0
        for si, seg in enumerate(res["segs"]):
            if seg["status"] == "none":
                refs.append((case, si, seg, None))
                reqs.append("sched 0 0 1 -")
                continue
            ch = ",".join(map(str, sched[used:])) or "-"
            reqs.append(f"sched {seg['c0']} {seg['T']} {W} {ch}")
            refs.append((case, si, seg, used))
            if seg["status"] == "stopped":
                # the stopped state itself: SchedCrashP.main_prefix after as many iterations as results were consumed
                reqs.append(f"prefix {seg['c0']} {seg['T']} {W} {len(seg['completed'])} {ch}")
                refs.append((case, si, seg, "prefix"))
            used += len(seg["completed"] or [])
    outs = runner.run(reqs)
    nbad = 0
    known = common.load_findings()["known"]
    for (case, si, seg, used), out in zip(refs, outs):
        n_intf, W, T, sched, stop, raise_to = case
        ctx.dist(f"sched:W{W}:{'stop' if stop else 'full'}")
        if seg["status"] == "none":
            if nbad < 6:
                nbad += 1
                ctx.violation(f"C17 statement fails on the implementation: restarting a finished run with a larger step count ({seg['T']}) does not continue (setup_config returned None)",
                              {"case": case, "segment": si}, found_input=True)
            continue
        if used == "prefix":
            ctx.dist(f"sched:W{W}:stopped-state")
            ctx.count(("prefix", case, si), nontrivial=True)
            m = out.split("|")
            ints = lambda t: [int(x) for x in t.split(",")] if t != "-" else []
            pp = []
            if out == "NONE":
                pp.append("the model's start-up phase does not end")
            else:
                if seg["completed"] != ints(m[0]):
                    pp.append(f"results consumed before the stop {seg['completed']}, model {ints(m[0])}")
                if seg["submitted"] != int(m[1]):
                    pp.append(f"{seg['submitted']} jobs submitted before the stop, model {m[1]}")
                if sorted(seg["in_flight"]) != sorted(ints(m[3])):
                    pp.append(f"jobs in flight at the stop {sorted(seg['in_flight'])}, model {sorted(ints(m[3]))}")
                # the stop is raised inside the next iteration, after loop() has advanced the in-memory counter
                if seg["cstep"] != int(m[2]) + 1:
                    pp.append(f"in-memory cstep at the stop {seg['cstep']}, model {int(m[2]) + 1}")
                if seg["restart_cstep"] is not None and seg["restart_cstep"] != int(m[4]):
                    pp.append(f"restart.toml cstep at the stop {seg['restart_cstep']}, model {m[4]}")
                if seg["restart_locked"] is not None and seg["restart_locked"] != len(ints(m[5])):
                    pp.append(f"restart.toml records {seg['restart_locked']} jobs in flight at the stop, model {len(ints(m[5]))}")
            # the statement (C17_stop_restart_exact): no ordinal both consumed and in flight, all submitted accounted for
            both = sorted(set(seg["completed"]) & set(seg["in_flight"]))
            acc = sorted(seg["completed"] + seg["in_flight"])
            if both and nbad < 6:
                nbad += 1
                ctx.violation(f"C17 statement fails on the implementation: job(s) {both} consumed and still in flight at the stop after "
                              f"{len(seg['completed'])} results ({W} workers, {seg['T']} steps)", {"case": case, "segment": si, "observed": seg}, found_input=True)
            elif acc != list(range(seg["submitted"])) and nbad < 6:
                nbad += 1
                ctx.violation(f"C17 statement fails on the implementation: at the stop after {len(seg['completed'])} results the {seg['submitted']} submitted jobs "
                              f"are not exactly the consumed {seg['completed']} plus the in-flight {seg['in_flight']}", {"case": case, "segment": si, "observed": seg}, found_input=True)
            elif pp and nbad < 6:
                nbad += 1
                ctx.violation(f"scheduler model and implementation disagree on the stopped state: {pp[0]}", {"case": case, "segment": si, "observed": seg, "model": out},
                              found_input=False)
            continue
        ctx.count(("sched", case, si), nontrivial=len(seg["completed"] or []) > 0)
        m = out.split("|")
        mc = [int(x) for x in m[0].split(",")] if m[0] != "-" else []
        msub, mcstep = int(m[1]), int(m[2])
        mpend = [int(x) for x in m[3].split(",")] if m[3] != "-" else []
        probs = []
        if seg["status"] == "stopped":
            k = len(seg["completed"])
            if seg["completed"] != mc[:k]:
                probs.append(f"completion order {seg['completed']} differs from the model's prefix {mc[:k]}")
            if seg["after"] and [a[0] for a in seg["after"]] != [seg["c0"] + i + 1 for i in range(k)]:
                probs.append(f"restart.toml cstep after each completion {[a[0] for a in seg['after']]} is not start + number of completed moves")
        else:
            if seg["completed"] != mc:
                probs.append(f"completion order {seg['completed']} differs from the model {mc}")
            if seg["submitted"] != msub:
                probs.append(f"{seg['submitted']} jobs submitted, model {msub}")
            if seg["cstep"] != mcstep:
                probs.append(f"final cstep {seg['cstep']}, model {mcstep}")
            if sorted(seg["in_flight"]) != sorted(mpend):
                probs.append(f"jobs left in flight {seg['in_flight']}, model {mpend}")
            if seg["restart_cstep"] != int(m[4]):
                probs.append(f"restart.toml cstep {seg['restart_cstep']}, model {m[4]}")
            nl = len(m[5].split(",")) if m[5] != "-" else 0
            if seg["restart_locked"] != nl:
                probs.append(f"restart.toml holds {seg['restart_locked']} locked jobs, model {nl}")
            if [a[0] for a in seg["after"]] != [seg["c0"] + i + 1 for i in range(len(seg["after"]))]:
                probs.append(f"restart.toml cstep after each completion {[a[0] for a in seg['after']]} is not start + number of completed moves")
        # the property itself: the step counter in the restart file equals the number of completed moves
        # (after every completion, in stopped and in finished segments), ...
        oracle = []
        want_after = [seg["c0"] + i + 1 for i in range(len(seg["after"]))]
        if [a[0] for a in seg["after"]] != want_after:
            got_after = ["no restart.toml" if a[0] == -1 else a[0] for a in seg["after"]]
            oracle.append(f"the step counter in restart.toml after each completed move is {got_after}, the number of completed moves is {want_after} "
                          f"(start {seg['c0']}, steps {seg['T']}, {W} workers)")
        # ... and on a finished segment
        if seg["status"] == "done":
            D = seg["T"] - seg["c0"]
            if len(seg["completed"]) != D or seg["cstep"] != seg["T"]:
                oracle.append(f"{len(seg['completed'])} moves completed from step {seg['c0']} with steps={seg['T']} (final cstep {seg['cstep']})")
            if seg["in_flight"] or seg["restart_locked"]:
                oracle.append(f"finished run leaves {len(seg['in_flight'])} job(s) in flight ({seg['restart_locked']} recorded in restart.toml): "
                              f"restart at step {seg['c0']} of {seg['T']} with {W} workers")
        if oracle:
            if nbad < 6:
                nbad += 1
                ctx.violation(f"C17 statement fails on the implementation: {oracle[0]}", {"case": case, "segment": si, "observed": seg, "model": out}, found_input=True)
        elif probs and nbad < 6:
            nbad += 1
            ctx.violation(f"scheduler model and implementation disagree: {probs[0]}", {"case": case, "segment": si, "observed": seg, "model": out},
                          found_input=False)
    # ---------------- (b) aiorunner
    rcases = []
    def separated(W, units):
        """simulate FIFO dispatch (submission every 0.06 s) and require all finishing times >= 0.2 s apart"""
        free = [0.0] * W
        ends = []
        for u, (dur, fail) in enumerate(units):
            w = min(range(W), key=lambda i: free[i])
            st = max(free[w], 0.06 * (u + 1))
            en = st + 0.25 * dur + 0.12 * (u % 2)
            free[w] = en
            ends.append(en)
        ends.sort()
        return all(b - a >= 0.2 for a, b in zip(ends, ends[1:]))

    shapes = [(1, [(1, 0), (1, 0), (1, 0)]), (2, [(3, 0), (1, 0), (1, 0)]), (1, [(1, 1)]), (2, [(2, 1), (4, 1)])]
    want = 8 if quick else 24
    tries = 0
    while len(shapes) < want and tries < 5000:
        tries += 1
        W = rng.randint(1, 4)
        units = [(rng.randint(1, 6), int(rng.random() < 0.25)) for _ in range(rng.randint(2, 6))]
        if separated(W, units):
            shapes.append((W, units))
    for W, units in shapes:
        rcases.append((W, units, None))
    # late consumers: all futures are done before the first as_completed()
    for W, units in [(3, [(2, 0), (1, 1), (3, 0), (1, 0)]), (2, [(1, 0), (2, 0), (1, 1)]), (1, [(1, 0), (1, 0)])] + ([] if quick else shapes[4:10]):
        rcases.append((W, units, "late"))
    # stop() with a backlog
    for W, units in [(2, [(1, 0)] * 4 + [(1, 1)] + [(1, 0)] * 2), (1, [(1, 0), (1, 1), (1, 0)])] + ([] if quick else [(3, [(1, 0)] * 10), (2, [(2, 1), (1, 0), (1, 0), (3, 0), (1, 1)])]):
        rcases.append((W, units, "stopfirst"))
    rres = H.run_many(runner_case, rcases, jobs=8, timeout=90)
    reqs, keep = [], []
    for case, (tag, res) in zip(rcases, rres):
        W, units, _ = case
        ctx.dist(f"runner:W{W}:n{len(units)}")
        if tag != "ok" and "timeout" in str(res):
            ctx.violation(f"C17 statement fails on the implementation (task runner): with {W} worker(s) and units (duration, fails) {units} "
                          f"[{case[2] or 'consumed as completed'}] the runner does not finish: results are never delivered or stop() never returns",
                          {"rcase": case, "error": res}, found_input=True)
            continue
        if tag != "ok":
            ctx.violation(f"harness failure on runner case {case}: {res[:300]}", {"rcase": case, "error": res}, found_input=False)
            continue
        ctx.count(("runner", case), nontrivial=True, n=len(res["events"]))
        # oracle on the implementation
        oracle = []
        starts = [e[2] for e in res["events"] if e[1] == "s"]
        for u in range(len(units)):
            if starts.count(u) != 1:
                oracle.append(f"unit {u} was executed {starts.count(u)} times")
        du = [d[0] for d in res["delivered"]]
        if sorted(du) != list(range(len(units))):
            oracle.append(f"delivered units {du} are not each submitted unit exactly once")
        for u, kind, a, b in res["delivered"]:
            fail = units[u][1]
            if fail and (kind != "E" or f"unit {u} failed" not in a):
                oracle.append(f"unit {u} raised but {kind}:{a} was delivered")
            if not fail and (kind != "R" or a != u or b != u * 10 + 1):
                oracle.append(f"unit {u} returned its result but {kind}:{a}:{b} was delivered")
        if res["extra_future"]:
            oracle.append("as_completed handed out a future after all were delivered")
        if res["thread_alive"] or res["loop_running"]:
            oracle.append("runner did not shut down (event loop thread still alive after stop())")
        if oracle:
            ctx.violation(f"C17 statement fails on the implementation (task runner): {oracle[0]}", {"rcase": case, "observed": res}, found_input=True)
            continue
        if case[2] == "stopfirst":
            ctx.dist("runner:stop_with_backlog")
            continue
        # the order of near-simultaneous events is not observable (a future is resolved in the event-loop
        # thread some time after the task logged its end): such traces are judged by the oracle only
        fin = sorted(e[0] for e in res["events"] if e[1] == "f")
        others = sorted(e[0] for e in res["events"] if e[1] == "S")
        gap = min([b - a for a, b in zip(fin, fin[1:])] + [abs(a - b) for a in fin for b in others] + [9.0])
        if gap < 0.08 and case[2] != "late":
            ctx.dist("runner:ambiguous_order_skipped")
            continue
        toks, err = trace_to_model(W, res["events"])
        if toks is None:
            ctx.violation(f"task-runner trace cannot be linearised: {err}", {"rcase": case, "observed": res}, found_input=False)
            continue
        reqs.append(f"runner {W} " + " ".join(toks))
        keep.append((case, res))
    for (case, res), out in zip(keep, runner.run(reqs)):
        if not out.startswith("ACCEPT"):
            ctx.violation(f"task-runner model rejects the observed trace: {out}", {"rcase": case, "observed": res, "model": out}, found_input=False)
            continue
        body = out.split(" ", 1)[1].split("|")
        md = [x.split("=") for x in body[1].split(",")] if body[1] != "-" else []
        want = [[str(u), ("E" + str(u)) if k == "E" else ("R" + str(u * 10 + 1))] for u, k, a, b in res["delivered"]]
        if md != want or body[3] != "1" or body[2] != "-":
            ctx.violation(f"task-runner model state differs from the implementation: model {body}, delivered {want}",
                          {"rcase": case, "observed": res, "model": out}, found_input=False)
    ctx.cov["rule"] = ("one evaluation = one run segment of the real scheduler() compared with the model (non-trivial when at least one job completed), "
                       "or one observed event of the real aiorunner accepted by the protocol model")
    ctx.cov["correspondence"] = {"scheduler_cases": len(cases), "runner_cases": len(rcases)}
    ctx.cov["trusted_base"] += ["extraction ExtrOcamlBasic + ocaml/c17_driver.ml", "py/sysharness.py in-process scheduled runner",
                                "time-stamp based reconstruction of the aiorunner event order"]
    ctx.assumptions += ["asyncio, threads and the process pool are observed through their protocol only"]


def replay(doc):
    rp = doc["replay"]
    if "case" in rp:
        c = rp["case"]
        (tag, res), = H.run_many(sched_case, [(c[0], c[1], c[2], tuple(c[3]), c[4], c[5])], jobs=1)
        print(tag, res)
        return 0 if tag == "ok" else 1
    c = rp["rcase"]
    (tag, res), = H.run_many(runner_case, [(c[0], [tuple(x) for x in c[1]], c[2])], jobs=1)
    print(tag, res)
    return 0 if tag == "ok" else 1
