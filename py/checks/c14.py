"""C14 — stored paths read back unchanged; live paths never lose files.

Theorems: coq/theorems/C14.v (model coq/model/StoreM.v, proofs coq/proofs/StoreP.v and
coq/proofs/StoreAgainP.v; the fixed-point print/parse lemmas of C19's coq/proofs/CodecP.v are reused).
Tie: (a) functional lock-step: the REAL PathStorage.output + load_path on generated Path objects
(several source files, repeated and colliding base names, reversed frames, index None, missing
energies, NaN, values at the width limit, ties of the sixth decimal, several order columns,
keep_traj_fnames, pre-existing destinations) against the extracted model: the three text files
byte for byte, the whole directory tree, the returned configs and the loaded path;
(b) trace validation: the real scheduler()/REPEX_state on the lattice plug-in engine
(py/sysharness.py) with delete_old / delete_old_all on and off, 1-3 workers, 2-4 ensembles,
restarts in the middle, keep_traj_fnames: after EVERY treat_output the directory tree under
load/, pn_olds, the live paths, traj_num and restart.toml's active list must be what the
extracted deletion machine predicts;
(c) (round 6) a directory load/<n>/ that is stored into a SECOND time: functionally (path A stored with the
real PathStorage.output, then a different path B into the same directory, same or other step number;
model = store on the disk A left: "write = replace") and by the real program (the run dies right after
pstore.output / before restart.toml is rewritten, is continued and does the step again with the same
path number; a simulation started again in the folder of an earlier run);
(d) (round 6) real runs with [output] data_dir other than the run directory (relative, nested,
absolute), with and without delete_old / delete_old_all / keep_traj_fnames, stops and restarts.
Oracle: the statement itself evaluated on the implementation (no model involved): same length,
same (base name, index, direction), |order - original| <= 5e-7, energies where present, every
referenced file exists under load/<n>/accepted/ with the content of its source; no removal of a
file of a live path or of a path listed in restart.toml, none in an initial path, a replaced
path loses files only after n-1 later replacements, path numbers are never used twice; and after
EVERY treat_output of every real run: each live path as the program holds it in memory against
load_path() of its own directory <run directory>/load/<n>/ (what a restart reads): it exists there,
same length, same (base name, index, direction), orders / present energies to the written decimals,
every frame refers to an existing file under load/<n>/accepted/; a stopped run can be continued
from restart.toml (every path it lists is in load/).
"""
import importlib.util  # noqa: F401
import hashlib
import itertools
import json
import math
import os
import shutil
import tempfile
import traceback
from fractions import Fraction

import common
import sysharness as H

META = {
    "id": "C14",
    "level": "proof",
    "technique": "Coq theorems over an executable byte-level model of the three text files, read_some_lines, _generate_file_names/_move_path on a finite-map disk and load_path (round trip by induction over the frames, reusing the fixed-point print/parse lemmas of C19), and over a state machine of treat_output's pn_olds queue (invariants over arbitrary accept/reject/restart histories) + functional lock-step of the extracted model with the real PathStorage/load_path and trace validation of the directory tree of real runs",
    "text": "Unbounded theorems: for every path (any number of frames, order columns, optional energies, NaN, any source files, index None, any step/move text) whose file base names are non-empty and free of white space and whose frames have the same number of order columns, load(store p) succeeds and returns frame by frame the same (base name re-rooted under load/<n>/accepted/, index (None -> 0), direction), every order and energy rounded to the written six decimals (half a unit of the sixth decimal at most, whatever the field width), absent energies as NaN; every file the loaded path refers to is a destination of the move into the path's own directory and exists; under the explicit hypothesis that distinct source files have distinct base names each referenced file has the content of its source (refuted without it). For every history of accepted ensembles, step ends and restarts, every n and every combination of delete_old / delete_old_all: a deleted path is not live, is not in the restart record on disk at that moment nor in the one written at the end of the step, has a number above n-2 (initial paths are never deleted), was replaced at least n-1 replacements earlier, new path numbers are never used twice, and every live path and every path of the restart record keeps its text and trajectory files. Storing is 'write = replace' (C14_txt_written_not_appended, C14_store_again_replaces, C14_store_again_files_exist): the round trip holds for EVERY disk, in particular when the directory already holds a path stored earlier (a step redone after a crash between the store and the rewrite of restart.toml re-uses the path number; a run started again in an old folder): what is read back is the path stored last. Tie: see the module doc string (round 6: directories stored into twice, functionally and by crashed-and-continued / restarted-from-scratch real runs; real runs with a data_dir other than the run directory, judged after every step by load_path of every live path from <run directory>/load/<n>/).",
    "note": "PathStorage.output clears its target directory first (fix 5456497); the model has both variants (store_gen false: everything is removed, also a file the path being stored refers to - refuted by C14_inplace_refuted, found by this check and repaired in /repo as 32e0fd0; store_gen true: files the path refers to are spared); py/params_c14.py reads from the source which variant /repo is, C14_store_is_repaired pins the repaired one, and the correspondence runs against the variant found. Trusted: Coq kernel; extraction + ocaml/c14_driver.ml; py/params_c14.py (AST reader for formats, labels, file names, the three comparisons with n - 2; fails closed); the harness (py/sysharness.py, generators, os.remove/rmdir and PathStorage.output wrappers that log the order of effects). Python's format()/float() are trusted to be correctly rounded (checked per value against exact rationals). Assumed and evaluated on every case: base names non-empty and without white space, a uniform number of order columns, a non-empty path, the move text without line breaks, no moved file is one of the three text files, keep_traj_fnames extensions without '/'. Not modelled: directories, inf, '\\r' translation, unicode. Observation O2 (outside the statement): delete_old_all together with keep_traj_fnames ends in os.rmdir of a non-empty directory (OSError inside treat_output); the model reproduces it (C14_O2_rmdir_nonempty) and the check confirms it on the real program and reports it in the evidence, not as a violation. A crash in the middle of treat_output is C08's subject; restarts here are at step boundaries, except family (c): two crash points (right after pstore.output returned; when the step is about to rewrite restart.toml) chosen because they make the continued run store into a directory a second time - judged by the oracle only (the deletion machine has no crash operation; py/crash_harness.py's Crash/referenced_files are reused read-only). The location of the stored paths (os.getcwd()/load_dir, not data_dir) is not part of the Coq model (the model's home directory is an input): it is checked by the oracle on real runs with data_dir = 'results', 'out/data/' and an absolute directory; in those runs the check also confirms that the data file is in data_dir and nowhere else (scenario sanity, reported as obligation/correspondence if it fails). The unmodified program runs, stops and restarts correctly with such a data_dir.",
    "design_ref": "4/C14",
}
LEVEL = "proof"

TXTS = ("order.txt", "energy.txt", "traj.txt")


# =========================================================================== encoding


def hx(s):
    return s.encode("ascii").hex() if s else "-"


def unhx(h):
    return "" if h == "-" else bytes.fromhex(h).decode("ascii")


def f2j(x):
    """float/None -> JSON-able exact form"""
    if x is None:
        return None
    x = float(x)
    return "nan" if math.isnan(x) else x.hex()


def j2f(s):
    if s is None:
        return None
    return float("nan") if s == "nan" else float.fromhex(s)


def enc_fval(x):
    if x is None or math.isnan(x):
        return "n"
    nz = 1 if (x == 0 and math.copysign(1.0, x) < 0) else 0
    return f"{nz}:{common.qstr(float(x))}"


def enc_frame(fr, root):
    orders = ",".join(enc_fval(j2f(o)) for o in fr["orders"]) or "-"
    idx = "N" if fr["idx"] is None else str(fr["idx"])
    return "|".join([orders, enc_fval(j2f(fr["vpot"])), enc_fval(j2f(fr["ekin"])), hx(absname(root, fr["file"])), idx, "1" if fr["rev"] else "0"])


def absname(root, rel):
    return rel if rel.startswith("/") else os.path.join(root, rel)


def snapshot_files(root):
    out = {}
    for dp, _, fns in os.walk(root):
        for fn in fns:
            p = os.path.join(dp, fn)
            with open(p, "rb") as f:
                out[p] = f.read().decode("ascii", "replace")
    return out


# =========================================================================== (a) functional


def build_path(case, root):
    from infretis.classes.path import Path
    from infretis.classes.system import System
    p = Path()
    for fr in case["frames"]:
        s = System()
        s.order = [j2f(o) for o in fr["orders"]]
        s.vpot = j2f(fr["vpot"])
        s.ekin = j2f(fr["ekin"])
        s.config = (absname(root, fr["file"]), fr["idx"])
        s.vel_rev = bool(fr["rev"])
        p.phasepoints.append(s)
    p.path_number = case["pn"]
    p.generated = tuple(case["gen"]) if isinstance(case["gen"], list) else case["gen"]
    p.status = "ACC"
    return p


def hypotheses(case, root, exist=None):
    """the hypotheses of the round-trip theorems, evaluated on the input; list of those that fail
    (exist: the files on the disk right before the store under test; default: the files of the case)"""
    bad = []
    frs = case["frames"]
    if not frs:
        bad.append("empty-path")
    if len({len(fr["orders"]) for fr in frs}) > 1:
        bad.append("ragged-order-columns")
    for fr in frs:
        b = os.path.basename(fr["file"])
        if b == "" or any(c.isspace() for c in b):
            bad.append("bad-basename")
            break
    arch = os.path.join(root, "load", str(case["pn"]))
    srcs = []
    for fr in frs:
        a = absname(root, fr["file"])
        if a not in srcs:
            srcs.append(a)
    if any(os.path.dirname(a) == arch and os.path.basename(a) in TXTS for a in srcs):
        bad.append("text-file-moved")
    if any("/" in e for e in case["keep"]):
        bad.append("slash-in-extension")
    if exist is None:
        exist = {absname(root, k) for k in case["files"]}
    if any(a not in exist for a in srcs):
        bad.append("missing-source")
    bases = [os.path.basename(a) for a in srcs]
    collide = len(set(bases)) != len(bases)
    return bad, collide, srcs


def run_func_case(case, keeproot=None):
    """store + load with the REAL code; returns (request line for the model, impl result, oracle problems)"""
    from infretis.classes.formatter import PathStorage
    from infretis.classes.path import load_path
    root = keeproot or tempfile.mkdtemp(prefix="infv_c14f_")
    try:
        for rel, content in case["files"].items():
            a = absname(root, rel)
            os.makedirs(os.path.dirname(a), exist_ok=True)
            with open(a, "w") as f:
                f.write(content)
        home = os.path.join(root, "load")
        os.makedirs(home, exist_ok=True)
        # earlier stores into the SAME directory load/<pn>/ (a step redone after a crash between the store and
        # the rewrite of restart.toml, a run started again in a folder that still holds load/<pn>/): done with
        # the real PathStorage.output; the store under test then starts from the disk they leave
        prior_exc = None
        for pr in case.get("prior") or []:
            pcase = dict(case, frames=pr["frames"], step=pr["step"], gen=pr["gen"], keep=pr["keep"])
            try:
                PathStorage(keep_traj_fnames=list(pr["keep"])).output(pr["step"], {"path": build_path(pcase, root), "dir": home})
            except Exception as e:  # noqa: BLE001
                prior_exc = repr(e)
                break
        before = snapshot_files(root)
        hyp_bad, collide, srcs = hypotheses(case, root, exist=set(before))
        path = build_path(case, root)
        move = str(path.generated)
        disk = ",".join(f"{hx(k)}={hx(v)}" for k, v in sorted(before.items())) or "-"
        req = " ".join(["sl", disk, str(case["step"]), hx(move), hx(home), str(case["pn"]),
                        ",".join(hx(e) for e in case["keep"]) or "-", ";".join(enc_frame(fr, root) for fr in case["frames"]) or "-"])
        impl = {"root": root}
        problems = []
        if prior_exc is not None:
            impl["store"] = "FAIL"
            impl["store_exc"] = "while storing the EARLIER path of the case: " + prior_exc
            return req, impl, problems, (hyp_bad + ["earlier-store-failed"], collide)
        try:
            out = PathStorage(keep_traj_fnames=list(case["keep"])).output(case["step"], {"path": path, "dir": home})
            impl["store"] = "OK"
            impl["cfgs"] = [(pp.config[0], pp.config[1]) for pp in out.phasepoints]
        except Exception as e:  # noqa: BLE001
            impl["store"] = "FAIL"
            impl["store_exc"] = repr(e)
            return req, impl, problems, (hyp_bad, collide)
        after = snapshot_files(root)
        impl["disk"] = after
        arch = os.path.join(home, str(case["pn"]))
        try:
            lp = load_path(arch)
            impl["load"] = [{"orders": [float(x) for x in pp.order], "vpot": None if pp.vpot is None else float(pp.vpot),
                             "ekin": None if pp.ekin is None else float(pp.ekin), "file": pp.config[0], "idx": int(pp.config[1]),
                             "rev": bool(pp.vel_rev)} for pp in lp.phasepoints]
        except Exception as e:  # noqa: BLE001
            impl["load"] = None
            impl["load_exc"] = repr(e)
        # ---------------- the statement itself, on the implementation
        if not hyp_bad:
            L = impl["load"]
            frs = case["frames"]
            if L is None:
                problems.append(f"the stored path cannot be loaded again: load_path raises {impl.get('load_exc')}" + why_unloadable(arch))
            elif len(L) != len(frs):
                problems.append(f"stored {len(frs)} frames, loaded {len(L)}")
            else:
                acc = os.path.join(arch, "accepted")
                for i, (fr, lf) in enumerate(zip(frs, L)):
                    want = (os.path.basename(fr["file"]), 0 if fr["idx"] is None else fr["idx"], bool(fr["rev"]))
                    got = (os.path.basename(lf["file"]), lf["idx"], lf["rev"])
                    if got != want:
                        problems.append(f"frame {i}: stored (file, index, reversed) = {want}, loaded {got}")
                        break
                    if os.path.dirname(lf["file"]) != acc:
                        problems.append(f"frame {i}: loaded file {lf['file']} is not under {acc}")
                        break
                    if not os.path.isfile(lf["file"]):
                        problems.append(f"frame {i}: referenced file {lf['file']} does not exist")
                        break
                    if not collide and after.get(lf["file"]) != before.get(absname(root, fr["file"])):
                        problems.append(f"frame {i}: {lf['file']} does not hold the content of its source {fr['file']}")
                        break
                    if len(lf["orders"]) != len(fr["orders"]):
                        problems.append(f"frame {i}: {len(fr['orders'])} order values stored, {len(lf['orders'])} loaded")
                        break
                    bad = None
                    for o, lo in zip([j2f(x) for x in fr["orders"]] + [j2f(fr["vpot"]), j2f(fr["ekin"])],
                                     lf["orders"] + [lf["vpot"], lf["ekin"]]):
                        if o is None or math.isnan(o):
                            if lo is None or not math.isnan(lo):
                                bad = f"absent/NaN value read back as {lo}"
                        elif lo is None or math.isnan(lo):
                            bad = f"value {o!r} read back as {lo}"
                        else:
                            tol = Fraction(5, 10 ** 7) + Fraction(abs(lo)) / 2 ** 52
                            if abs(Fraction(lo) - Fraction(o)) > tol:
                                bad = f"value {o!r} read back as {lo!r}: differs by more than half a unit of the sixth decimal"
                        if bad:
                            break
                    if bad:
                        problems.append(f"frame {i}: {bad}")
                        break
        return req, impl, problems, (hyp_bad, collide)
    finally:
        if keeproot is None:
            shutil.rmtree(root, ignore_errors=True)


def compare_func(case, req, impl, mo, hyp):
    """model answer vs implementation; list of differences"""
    diffs = []
    toks = mo.split(" ")
    if toks[0] == "ERR":
        return [f"model runner error: {mo[:200]}"]
    if toks[0] == "FAIL":
        if impl["store"] != "FAIL":
            diffs.append("model: the store fails (a source is missing), implementation stored the path")
        return diffs
    if impl["store"] == "FAIL":
        return [f"implementation raised {impl.get('store_exc')}, model stored the path"]
    _, mdisk, mcfgs, mmoves, lstat = toks[:5]
    rest = toks[5:]
    md = {}
    for e in (mdisk.split(",") if mdisk != "-" else []):
        k, v = e.split("=")
        md[unhx(k)] = unhx(v)
    idisk = impl["disk"]
    if md != idisk:
        only_m = sorted(set(md) - set(idisk))
        only_i = sorted(set(idisk) - set(md))
        diff_c = sorted(k for k in set(md) & set(idisk) if md[k] != idisk[k])
        diffs.append(f"directory tree differs: only model {only_m[:3]}, only implementation {only_i[:3]}, different content {diff_c[:3]}"
                     + (f" (model {md[diff_c[0]]!r} / implementation {idisk[diff_c[0]]!r})" if diff_c else ""))
    mc = []
    for e in (mcfgs.split(";") if mcfgs != "-" else []):
        f, i = e.split(":")
        mc.append((unhx(f), None if i == "N" else int(i)))
    if mc != [tuple(x) for x in impl["cfgs"]]:
        diffs.append(f"configs of the returned path differ: model {mc[:3]}, implementation {impl['cfgs'][:3]}")
    if lstat == "FAIL":
        if impl["load"] is not None:
            diffs.append("model: load_path fails, implementation loaded the path")
        flag = rest[0] if rest else "0"
    else:
        body, flag = rest[0], rest[1]
        ml = []
        for e in (body.split(";") if body != "-" else []):
            o, vp, ek, f, i, r = e.split("|")
            ml.append({"orders": [] if o == "-" else o.split(","), "vpot": vp, "ekin": ek, "file": unhx(f), "idx": int(i), "rev": r == "1"})
        il = impl["load"]
        if il is None:
            diffs.append(f"implementation cannot load the path ({impl.get('load_exc')}), the model can")
        elif len(ml) != len(il):
            diffs.append(f"loaded lengths differ: model {len(ml)}, implementation {len(il)}")
        else:
            def same(mv, iv):
                if mv == "P":
                    return iv is None
                if iv is None:
                    return False
                if mv == "n":
                    return math.isnan(iv)
                q = common.parse_q(mv)
                return (not math.isnan(iv)) and float(q) == iv
            for i, (a, b) in enumerate(zip(ml, il)):
                if (a["file"], a["idx"], a["rev"]) != (b["file"], b["idx"], b["rev"]) or len(a["orders"]) != len(b["orders"]) \
                        or not all(same(x, y) for x, y in zip(a["orders"], b["orders"])) or not same(a["vpot"], b["vpot"]) or not same(a["ekin"], b["ekin"]):
                    diffs.append(f"loaded frame {i} differs: model {a}, implementation {b}")
                    break
    hyp_bad, _ = hyp
    if not hyp_bad and flag != "1":
        diffs.append("the model's load(store p) differs from the frame-wise prediction of theorem C14_store_load_roundtrip although its hypotheses hold")
    return diffs


SPECIAL = [0.0, -0.0, 1.0, -1.0, 0.5, 1.25, 1.234567, 1.2345675, 1.2345665, 1 / 128, 3 / 128, -5 / 128, 0.0000005, 0.00000049, -0.0000005, -0.00000051,
           1e-9, -1e-9, 99999.999999, 99999.9999994, 99999.9999996, 100000.0, -9999.999999, -9999.9999996, -10000.0, 123456.7890125,
           1e15, -1e15, 2.0 ** 60, 1 / 3, -2 / 3, 0.1, 0.2, 0.3, 9.9999995, 9.99999949, 0.9999995, 4503599627370497.0, 1e-320, float("nan")]


def gen_func_cases(rng, tier, seed=0):
    cases = []

    def files_for(frames, extra=None):
        fs = {}
        for fr in frames:
            fs.setdefault(fr["file"], "content of " + fr["file"])
        fs.update(extra or {})
        return fs

    def frame(file="w0/a.lat", idx=0, rev=False, orders=(0.5,), vpot=None, ekin=None):
        return {"orders": [f2j(o) for o in orders], "vpot": f2j(vpot), "ekin": f2j(ekin), "file": file, "idx": idx, "rev": rev}

    def add(cls, frames, files=None, step=7, gen=("sh", 0.5, 1, 2), pn=3, keep=(), prior=None):
        cases.append({"kind": "func", "class": cls, "frames": frames, "files": files if files is not None else files_for(frames),
                      "step": step, "gen": list(gen) if isinstance(gen, tuple) else gen, "pn": pn, "keep": list(keep)})
        if prior:
            cases[-1]["prior"] = prior

    def earlier(frames, step=7, gen=("sh", 0.5, 1, 2), keep=()):
        return {"frames": frames, "step": step, "gen": list(gen) if isinstance(gen, tuple) else gen, "keep": list(keep)}

    # ---- exhaustive small scope: every assignment of (file, index, direction) to <= L frames
    pool = ["w0/a.lat", "w0/b.lat", "w1/a.lat"]
    per = [(f, i, r) for f in pool for i in (None, 0, 2) for r in (False, True)]
    L = 2 if tier == "quick" else 3
    for n in range(1, L + 1):
        for combo in itertools.product(per, repeat=n):
            add("struct", [frame(f, i, r, orders=(k + 0.5,), vpot=None if k % 2 else -1.5 * k, ekin=0.25 * k if k else None)
                           for k, (f, i, r) in enumerate(combo)])
    if tier == "quick":
        for combo in rng.sample(list(itertools.product(per, repeat=3)), 400):
            add("struct", [frame(f, i, r, orders=(k + 0.5,), vpot=None if k % 2 else -1.5 * k, ekin=0.25 * k if k else None)
                           for k, (f, i, r) in enumerate(combo)])
    # ---- every special value as order, second order column, vpot, ekin
    for v in SPECIAL:
        add("value", [frame(orders=(v,), vpot=v, ekin=None), frame(idx=1, orders=(1.0,), vpot=None, ekin=v)])
        add("value", [frame(orders=(2.0, v, -v if not math.isnan(v) else 0.0), vpot=1.0, ekin=2.0)])
    # ---- column counts, empty path, ragged columns (outside the hypotheses: correspondence only)
    add("columns", [frame(orders=()), frame(idx=1, orders=())])
    add("columns", [frame(orders=(1.0, 2.0, 3.0, 4.0, 5.0)), frame(idx=1, orders=(-1.0, -2.0, -3.0, -4.0, -5.5))])
    add("outside", [])
    add("outside", [frame(orders=(1.0,)), frame(idx=1, orders=(1.0, 2.0)), frame(idx=2, orders=(3.0,))])
    add("outside", [frame(orders=(1.0, 2.0)), frame(idx=1, orders=(1.0,)), frame(idx=2, orders=(3.0, 4.0))])
    add("outside", [frame(file="w0/missing.lat")], files={})
    add("outside", [frame(file="w0/a b.lat")])
    # ---- names: dots, long names, hidden files, the file already in place, pre-existing destination
    for nm in ("w0/.hidden", "w0/a.b.c.lat", "w0/noext", "w0/" + "x" * 30 + ".lat", "w0/deep/er/t.lat", "w0/a.", "w0/..a.lat"):
        add("names", [frame(nm, 0), frame("w0/z.lat", 1, True), frame(nm, 2)])
    add("names", [frame("load/3/accepted/a.lat", 0), frame("w0/b.lat", 1)])          # src == dest
    add("names", [frame("w0/a.lat", 0)], files={"w0/a.lat": "new", "load/3/accepted/a.lat": "old", "load/3/order.txt": "stale"})
    add("names", [frame("load/3/accepted/a.lat", 0), frame("w1/a.lat", 1)])          # collision with a file in place
    # ---- a path stored again in its own directory (after load_path its frames refer to load/<pn>/accepted):
    # several files in place, every order of first use, with and without a leftover of a crashed attempt
    for perm3 in itertools.permutations(("a", "b", "c")):
        frs = [frame(f"load/3/accepted/{x}.lat", k, rev=bool(k % 2)) for k, x in enumerate(perm3)] + [frame(f"load/3/accepted/{perm3[0]}.lat", 5)]
        add("inplace", frs)
        add("inplace", frs, files=files_for(frs, {"load/3/accepted/stale.lat": "left by a crashed attempt", "load/3/order.txt": "stale"}))
        add("inplace", frs[:2] + [frame("w0/new.lat", 0)] + frs[2:])
    # ---- keep_traj_fnames
    aux = {"w0/a.aux": "aux a", "w0/a.log": "log a", "w0/b.aux": "aux b", "w1/a.aux": "aux a1", "w0/a.lat.aux": "no"}
    for keep in ([".aux"], [".aux", ".log"], [".lat"], [".none"], ["", ".aux"]):
        add("keep", [frame("w0/a.lat", 0), frame("w0/b.lat", 1), frame("w0/a.lat", 2)],
            files=files_for([frame("w0/a.lat"), frame("w0/b.lat")], aux), keep=keep)
        add("keep", [frame("w0/a.lat", 0), frame("w1/a.lat", 1)], files=files_for([frame("w0/a.lat"), frame("w1/a.lat")], aux), keep=keep)
    # ---- step / move texts / path numbers
    for step, gen, pn in ((0, None, 0), (123456, ("ld", float("nan"), 0, 0), 12), (-1, "re", 100), (5, ("wf", 9.5, 12, 3), 7)):
        add("header", [frame(), frame(idx=1, rev=True)], step=step, gen=gen, pn=pn)
    # ---- seeded random
    nrand = 500 if tier == "quick" else 6000
    names = ["w0/a.lat", "w0/b.lat", "w0/c.xyz", "w1/a.lat", "w1/d.lat", "w2/sub/e.trr", "w0/.f", "w0/g.h.i"]
    for _ in range(nrand):
        n = rng.choice([1, 2, 3, 5, 8, 13, 30])
        ncol = rng.choice([1, 1, 1, 2, 3])
        use = rng.sample(names, rng.randint(1, 4))
        frs = []
        for k in range(n):
            def val():
                r = rng.random()
                if r < 0.15:
                    return rng.choice(SPECIAL)
                if r < 0.5:
                    return rng.randrange(-2 ** 20, 2 ** 20) / 2 ** rng.randrange(0, 24)
                return rng.uniform(-10, 10) * 10 ** rng.randrange(-6, 5)
            frs.append(frame(rng.choice(use), rng.choice([None, 0, k, rng.randrange(0, 10 ** 6)]), rng.random() < 0.5,
                             orders=tuple(val() for _ in range(ncol)),
                             vpot=None if rng.random() < 0.3 else val(), ekin=None if rng.random() < 0.3 else val()))
        extra = {}
        keep = []
        if rng.random() < 0.25:
            keep = rng.sample([".aux", ".log", ".lat", ".edr"], rng.randint(1, 2))
            for u in use:
                for e in keep:
                    if rng.random() < 0.6:
                        extra[os.path.splitext(u)[0] + e] = "kept " + u + e
        if rng.random() < 0.1:
            extra["load/%d/accepted/%s" % (3, os.path.basename(use[0]))] = "already there"
        add("random", frs, files=files_for(frs, extra), step=rng.randrange(0, 10 ** 6), gen=rng.choice([("sh", 0.5, 1, 2), "ld", None, ("s+", 0, 0, 0)]),
            pn=3, keep=keep)
    # ---- a directory that is stored into a SECOND time (round 6): path A is stored into load/3/ with the real
    # PathStorage.output, then a DIFFERENT path B (other length, values, file names) into the same directory with
    # the same step number (a step done again after the run died between pstore.output and write_toml re-uses
    # the path number) or another one (a run started again in a folder that still holds load/<n>/ of an earlier
    # run); load_path must return B.  Own random stream: the cases above and the schedules of (b) stay as they were.
    inpl = "load/3/accepted/"
    A3 = [frame("w0/a.lat", 0, orders=(0.5,), vpot=-1.0, ekin=0.25), frame("w0/b.lat", 1, True, orders=(1.5,), vpot=-2.0, ekin=0.5),
          frame("w0/a.lat", 2, orders=(2.5,), vpot=None, ekin=None)]
    B5 = [frame("w1/c.lat", k, bool(k % 2), orders=(10.25 + k,), vpot=-3.0 - k, ekin=1.0 + 0.5 * k) for k in range(3)] + \
         [frame("w1/d.lat", k, False, orders=(20.125 - k,), vpot=None, ekin=None) for k in range(2)]
    Bvariants = {
        "longer": B5,
        "shorter": [frame("w1/c.lat", 4, True, orders=(7.75,), vpot=-9.0, ekin=3.0)],
        "same-length-other-files": [frame("w1/c.lat", 3, True, orders=(4.5,), vpot=-7.0, ekin=1.25), frame("w1/c.lat", 4, True, orders=(5.5,), vpot=-8.0, ekin=None),
                                    frame("w1/d.lat", 0, False, orders=(6.5,), vpot=None, ekin=2.25)],
        # the engine used the same file names again (no pid / counter in them): only the content of the files and the values differ
        "same-names-other-values": [frame("w1/a.lat", 0, orders=(0.75,), vpot=-1.5, ekin=0.125), frame("w1/b.lat", 1, True, orders=(1.75,), vpot=-2.5, ekin=0.375),
                                    frame("w1/a.lat", 2, orders=(2.75,), vpot=None, ekin=None)],
        "only-energies-differ": [frame("w1/a.lat", 0, orders=(0.5,), vpot=-1.25, ekin=0.25), frame("w1/b.lat", 1, True, orders=(1.5,), vpot=-2.0, ekin=0.75),
                                 frame("w1/a.lat", 2, orders=(2.5,), vpot=None, ekin=None)],
        "only-orders-differ": [frame("w1/a.lat", 0, orders=(0.5,), vpot=-1.0, ekin=0.25), frame("w1/b.lat", 1, True, orders=(1.625,), vpot=-2.0, ekin=0.5),
                               frame("w1/a.lat", 2, orders=(2.5,), vpot=None, ekin=None)],
        "only-directions-differ": [frame("w1/a.lat", 0, True, orders=(0.5,), vpot=-1.0, ekin=0.25), frame("w1/b.lat", 1, False, orders=(1.5,), vpot=-2.0, ekin=0.5),
                                   frame("w1/a.lat", 2, True, orders=(2.5,), vpot=None, ekin=None)],
        "no-energies": [frame("w1/c.lat", 0, orders=(3.5,)), frame("w1/c.lat", 1, orders=(4.5,))],
        # B re-uses a file A left in the directory (a reloaded path extended by a new segment) / is A itself, reloaded
        "keeps-a-file-of-A": [frame(inpl + "a.lat", 2, True, orders=(2.5,), vpot=-4.0, ekin=0.5), frame(inpl + "a.lat", 0, True, orders=(0.5,), vpot=-1.0, ekin=0.25),
                              frame("w1/c.lat", 0, False, orders=(8.5,), vpot=-5.0, ekin=0.75), frame("w1/c.lat", 1, False, orders=(9.5,), vpot=None, ekin=None)],
        "A-reloaded-and-reversed": [frame(inpl + os.path.basename(fr["file"]), fr["idx"], not fr["rev"], orders=(3.0 - j2f(fr["orders"][0]),),
                                          vpot=j2f(fr["vpot"]), ekin=j2f(fr["ekin"])) for fr in reversed(A3)],
    }
    for nm, B in Bvariants.items():
        fs = files_for(A3 + [fr for fr in B if not fr["file"].startswith(inpl)])
        add("restore:" + nm, B, files=fs, prior=[earlier(A3)])
        add("restore:" + nm, B, files=fs, step=9, gen=("sh", 0.25, 2, 1), prior=[earlier(A3, step=3, gen=("wf", 0.5, 4, 2))])
    add("restore:three-stores", B5, files=files_for(A3 + Bvariants["same-names-other-values"] + B5),
        prior=[earlier(A3), earlier(Bvariants["same-names-other-values"])])
    add("restore:two-columns", [frame("w1/c.lat", k, orders=(1.5 * k, -0.25 * k), vpot=0.5 * k, ekin=None) for k in range(4)],
        files=files_for(A3 + [frame("w1/c.lat")]), prior=[earlier(A3)])
    add("restore:one-column-after-two", A3, files=files_for(A3 + [frame("w1/c.lat")]),
        prior=[earlier([frame("w1/c.lat", k, orders=(1.5 * k, -0.25 * k), vpot=0.5 * k, ekin=None) for k in range(4)])])
    kaux = {"w0/a.aux": "aux a", "w0/b.aux": "aux b", "w1/c.aux": "aux c", "w1/d.log": "log d"}
    for keepA, keepB in (([".aux"], [".aux"]), ([".aux"], []), ([], [".aux", ".log"])):
        add("restore:keep", B5, files=files_for(A3 + B5, kaux), keep=keepB, prior=[earlier(A3, keep=keepA)])
    import random as _random
    rng2 = _random.Random(f"C14-stored-again-{seed}")
    namesA = ["w0/a.lat", "w0/b.lat", "w0/c.xyz", "w0/.f"]
    namesB = ["w1/a.lat", "w1/d.lat", "w2/sub/e.trr", "w1/g.h.i", "w2/c.xyz"]

    def rand_frames(use, n, ncol):
        def val():
            r = rng2.random()
            if r < 0.1:
                return rng2.choice(SPECIAL)
            return rng2.randrange(-2 ** 20, 2 ** 20) / 2 ** rng2.randrange(0, 24)
        return [frame(rng2.choice(use), rng2.choice([None, 0, k, rng2.randrange(0, 10 ** 6)]), rng2.random() < 0.5, orders=tuple(val() for _ in range(ncol)),
                      vpot=None if rng2.random() < 0.3 else val(), ekin=None if rng2.random() < 0.3 else val()) for k in range(n)]
    for _ in range(120 if tier == "quick" else 1500):
        ncol = rng2.choice([1, 1, 2])
        fa = rand_frames(rng2.sample(namesA, rng2.randint(1, 3)), rng2.choice([1, 2, 3, 5, 8]), ncol)
        useB = rng2.sample(namesB, rng2.randint(1, 3))
        if rng2.random() < 0.3:      # B also refers to a file A left in place
            useB.append(inpl + os.path.basename(fa[0]["file"]))
        fb = rand_frames(useB, rng2.choice([1, 2, 3, 5, 8, 13]), rng2.choice([ncol, ncol, 1, 2]))
        same_step = rng2.random() < 0.6
        stepB = rng2.randrange(0, 10 ** 4)
        add("restore:random", fb, files=files_for(fa + [fr for fr in fb if not fr["file"].startswith(inpl)]), step=stepB,
            gen=rng2.choice([("sh", 0.5, 1, 2), "ld", ("s+", 0, 0, 0)]),
            prior=[earlier(fa, step=stepB if same_step else rng2.randrange(0, 10 ** 4), gen=rng2.choice([("sh", 0.5, 1, 2), "re", None]))])
    return cases


def why_unloadable(pdir):
    """what the first block of traj.txt (the one load_path reads) refers to that is not under accepted/"""
    try:
        refs, nblocks = [], 0
        with open(os.path.join(pdir, "traj.txt")) as f:
            for ln in f:
                if ln.startswith("# Cycle"):
                    nblocks += 1
                elif nblocks <= 1 and ln.strip() and not ln.startswith("#") and ln.split()[1] not in refs:
                    refs.append(ln.split()[1])
        accd = os.path.join(pdir, "accepted")
        acc = sorted(os.listdir(accd)) if os.path.isdir(accd) else []
        miss = [r for r in refs if r not in acc]
        return (f" (traj.txt holds {nblocks} block(s); the first one refers to {miss[:4]} which do(es) not exist under "
                f"{os.path.basename(pdir)}/accepted, present: {acc[:6]})") if miss or nblocks != 1 else ""
    except Exception:  # noqa: BLE001
        return ""


# =========================================================================== (b) real runs


def tree_of(wd):
    """load/<pn>/: text files present, listing of accepted/, base names referenced by traj.txt"""
    out = {}
    load = os.path.join(wd, "load")
    for pn in os.listdir(load):
        if not pn.isdigit():
            continue
        d = os.path.join(load, pn)
        txt = sorted(f for f in os.listdir(d) if os.path.isfile(os.path.join(d, f)))
        accd = os.path.join(d, "accepted")
        acc = sorted(os.listdir(accd)) if os.path.isdir(accd) else None
        refs = None
        tp = os.path.join(d, "traj.txt")
        if os.path.isfile(tp):
            refs = sorted({ln.split()[1] for ln in open(tp) if ln.strip() and not ln.startswith("#")})
        out[int(pn)] = {"txt": txt, "acc": acc, "refs": refs}
    return out


def hash_dir(d):
    h = hashlib.sha1()
    for dp, dns, fns in sorted(os.walk(d)):
        for fn in sorted(fns):
            p = os.path.join(dp, fn)
            h.update(os.path.relpath(p, d).encode())
            with open(p, "rb") as f:
                h.update(f.read())
    return h.hexdigest()


def read_active(wd):
    import tomli
    p = os.path.join(wd, "restart.toml")
    if not os.path.exists(p):
        return None
    with open(p, "rb") as f:
        return list(tomli.load(f)["current"]["active"])


def live_roundtrip(state, wd, load_dir="load"):
    """The first half of the statement on the RUNNING program (no model): every live path, as the program holds it
    in memory, against load_path() of its own directory <run directory>/<load_dir>/<n> - what a restart would read.
    Returns (number of paths compared, problems)."""
    from infretis.classes.path import load_path
    probs, nchk = [], 0
    for traj in state._trajs[:-1]:
        if isinstance(traj, str) or traj is None or getattr(traj, "path_number", None) is None:
            continue
        pn = int(traj.path_number)
        rel = os.path.join(load_dir, str(pn))
        pdir = os.path.join(wd, rel)
        own = os.path.realpath(os.path.join(pdir, "accepted"))
        nchk += 1
        pps = list(traj.phasepoints)

        def full(pp):
            f = pp.config[0]
            return f if os.path.isabs(f) else os.path.join(wd, f)
        if not os.path.isfile(os.path.join(pdir, "traj.txt")):
            probs.append(f"live path {pn} cannot be read back: {rel}/traj.txt does not exist in the run directory"
                         + (f" (its frame 0 refers to {full(pps[0])})" if pps else ""))
            continue
        try:
            lp = load_path(pdir)
        except Exception as e:  # noqa: BLE001
            probs.append(f"live path {pn}: load_path({rel}) raises {e!r}" + why_unloadable(pdir))
            continue
        lps = list(lp.phasepoints)
        if len(lps) != len(pps):
            probs.append(f"live path {pn} has {len(pps)} frames, load_path({rel}) gives {len(lps)}" + why_unloadable(pdir))
            continue
        for i, (a, b) in enumerate(zip(pps, lps)):
            ra = (os.path.basename(a.config[0]), int(a.config[1] or 0), bool(a.vel_rev))
            rb = (os.path.basename(b.config[0]), int(b.config[1]), bool(b.vel_rev))
            bad = None
            if ra != rb:
                bad = f"(file, index, reversed) = {ra}, load_path({rel}) gives {rb}"
            elif os.path.realpath(os.path.dirname(full(a))) != own:
                bad = f"refers to {full(a)}, which is not under the path's own directory {rel}/accepted"
            elif not os.path.isfile(full(a)):
                bad = f"refers to {full(a)}, which does not exist"
            else:
                oa = [] if a.order is None else [float(x) for x in (a.order if hasattr(a.order, "__len__") else [a.order])]
                ob = [] if b.order is None else [float(x) for x in (b.order if hasattr(b.order, "__len__") else [b.order])]
                if len(oa) != len(ob):
                    bad = f"{len(oa)} order value(s), load_path({rel}) gives {len(ob)}"
                else:
                    vals = list(zip(oa, ob, ["order"] * len(oa)))
                    for key in ("vpot", "ekin"):
                        va = getattr(a, key, None)
                        if va is not None and not math.isnan(float(va)):      # energies where present
                            vb = getattr(b, key, None)
                            vals.append((float(va), float("nan") if vb is None else float(vb), key))
                    for va, vb, key in vals:
                        if math.isnan(va) and math.isnan(vb):
                            continue
                        if math.isnan(va) or math.isnan(vb) or abs(Fraction(va) - Fraction(vb)) > Fraction(5, 10 ** 7) + Fraction(abs(vb)) / 2 ** 52:
                            bad = f"{key} {va!r}, load_path({rel}) gives {vb!r}"
                            break
            if bad:
                probs.append(f"live path {pn} frame {i}: {bad}" + why_unloadable(pdir))
                break
    return nchk, probs


def apply_data_dir(wd, ddir):
    """[output] data_dir of the infretis.toml that sysharness.write_setup produced := ddir (a legal setting: the
    directory infretis_data.txt is written to).  "@abs": an absolute directory next to the run directory."""
    if ddir is None:
        return None
    import tomli
    import tomli_w
    real = wd.rstrip("/") + "_data" if ddir == "@abs" else ddir
    p = os.path.join(wd, "infretis.toml")
    with open(p, "rb") as f:
        cfg = tomli.load(f)
    cfg["output"]["data_dir"] = real
    with open(p, "wb") as f:
        tomli_w.dump(cfg, f)
    os.makedirs(real if os.path.isabs(real) else os.path.join(wd, real), exist_ok=True)
    return real


def data_file_state(wd, real):
    """where the data file is (as recorded in restart.toml) against where it was configured"""
    import tomli
    rp = os.path.join(wd, "restart.toml")
    if not os.path.isfile(rp):
        return None
    with open(rp, "rb") as f:
        cfg = tomli.load(f)
    df = cfg["output"].get("data_file")
    want = real if os.path.isabs(real) else os.path.join(wd, real)
    st = {"configured": real, "recorded_data_dir": cfg["output"].get("data_dir"), "recorded": df, "exists": False, "in_data_dir": False, "rows": 0, "stray": []}
    if df:
        adf = df if os.path.isabs(df) else os.path.join(wd, df)
        st["exists"] = os.path.isfile(adf)
        st["in_data_dir"] = os.path.realpath(os.path.dirname(adf)) == os.path.realpath(want)
        if st["exists"]:
            st["rows"] = sum(1 for ln in open(adf) if ln.strip() and not ln.startswith("#"))
    if os.path.realpath(want) != os.path.realpath(wd):
        st["stray"] = sorted(f for f in os.listdir(wd) if f.startswith("infretis_data"))
    return st


def unreadable_active(wd, load_dir="load"):
    """paths listed as active in restart.toml whose traj.txt is not in <run directory>/<load_dir>/<n>/"""
    act = read_active(wd) or []
    return [pn for pn in act if not os.path.isfile(os.path.join(wd, load_dir, str(pn), "traj.txt"))]


def del_case(arg):
    """Run the real program (segments separated by stops/restarts); record every treat_output."""
    setup, sched, stops, aux = dict(arg["setup"]), arg.get("schedule") or [], list(arg.get("stops") or []), arg.get("aux", False)
    ddir = setup.pop("data_dir", None)      # not a parameter of sysharness.write_setup: applied to its infretis.toml below
    wd = H.scratch("infv_c14d_")
    n_init = setup.get("n_intf", 3)
    out = {"records": [], "segments": [], "n_init": n_init, "data": []}
    try:
        H.write_setup(wd, **setup)
        real_ddir = apply_data_dir(wd, ddir)
        out["init_tree"] = tree_of(wd)
        out["init_hash"] = {pn: hash_dir(os.path.join(wd, "load", str(pn))) for pn in range(n_init)}
        loadreal = os.path.realpath(os.path.join(wd, "load"))
        events = []

        class R(H.Recorder):
            def attach(self, state):
                super().attach(state)
                inner = state.treat_output
                pst = state.pstore      # a class attribute: shared by the segments of one process
                if not getattr(pst, "_c14_logged", False):
                    orig_out = pst.output

                    def logged_output(step, data):
                        res = orig_out(step, data)
                        events.append(("S", int(res.path_number)))
                        return res
                    pst.output = logged_output
                    pst._c14_logged = True

                def treat(md):
                    if aux:
                        for e in md["picked"]:
                            t = md["picked"][e]["traj"]
                            if t.path_number is None:
                                for a in t.adress:
                                    with open(os.path.splitext(a)[0] + ".aux", "w") as f:
                                        f.write("kept")
                    del events[:]
                    rec = {"status": md["status"], "pn_old": [int(md["picked"][e]["pn_old"]) for e in md["picked"]],
                           "new_numbered": [md["picked"][e]["traj"].path_number is None for e in md["picked"]],
                           "traj_num_before": int(state.config["current"]["traj_num"]), "active_before": read_active(wd),
                           "live_before": [int(x) for x in state.live_paths()]}
                    orig_remove, orig_rmdir = os.remove, os.rmdir

                    def where(p):
                        rp = os.path.realpath(os.path.join(os.getcwd(), p))
                        if rp.startswith(loadreal + os.sep):
                            parts = rp[len(loadreal) + 1:].split(os.sep)
                            if parts[0].isdigit():
                                return int(parts[0]), "/".join(parts[1:])
                        return None

                    def remove(p, *a, **k):
                        w = where(p)
                        if w:
                            events.append(("D", w[0], w[1], [int(x) for x in state.live_paths()]))
                        return orig_remove(p, *a, **k)

                    def rmdir(p, *a, **k):
                        w = where(p)
                        if w:
                            events.append(("RD", w[0], w[1]))
                        return orig_rmdir(p, *a, **k)
                    os.remove, os.rmdir = remove, rmdir
                    try:
                        res = inner(md)
                        os.remove, os.rmdir = orig_remove, orig_rmdir
                        try:
                            rec["reloaded"], rec["roundtrip"] = live_roundtrip(state, wd)
                        except Exception as e:  # noqa: BLE001
                            rec["roundtrip_error"] = repr(e)
                    except BaseException as e:  # noqa: BLE001
                        rec["exception"] = repr(e)
                        raise
                    finally:
                        os.remove, os.rmdir = orig_remove, orig_rmdir
                        rec.update({"events": list(events), "live": [int(x) for x in state.live_paths()],
                                    "pn_olds": [int(k) for k in state.pn_olds.keys()],
                                    "pn_olds_adress": {int(k): sorted(os.path.basename(a) for a in v["adress"]) for k, v in state.pn_olds.items()},
                                    "traj_num": int(state.config["current"]["traj_num"]), "tree": tree_of(wd), "active": read_active(wd),
                                    "init_hash": {pn: hash_dir(os.path.join(wd, "load", str(pn))) for pn in range(n_init)
                                                  if os.path.isdir(os.path.join(wd, "load", str(pn)))}})
                        out["records"].append(rec)
                    return res
                state.treat_output = treat

        first = True
        used = 0
        while True:
            stop = stops.pop(0) if stops else None
            out["segments"].append(len(out["records"]))
            try:
                res = H.run_sim(wd, inp="infretis.toml" if first else "restart.toml", schedule=list(sched[used:]), stop_after=stop, recorder=R(with_frac=False))
            except Exception as e:  # noqa: BLE001
                out["raised"] = repr(e)
                break
            if real_ddir is not None:
                out["data"].append(data_file_state(wd, real_ddir))
            if res["status"] == "none" and not first:
                # setup_config refused to continue (it returns None when a path of restart.toml is not in load_dir)
                out["restart_refused"] = {"segment": len(out["segments"]) - 1, "active": read_active(wd), "not_in_load_dir": unreadable_active(wd)}
            first = False
            if res["status"] != "stopped":
                out["final"] = res["status"]
                break
            used += len(res.get("completed") or [])
            if not os.path.exists(os.path.join(wd, "restart.toml")):
                out["final"] = "stopped-before-first-completion"
                break
        out["final_tree"] = tree_of(wd)
        return out
    finally:
        shutil.rmtree(wd, ignore_errors=True)
        shutil.rmtree(wd.rstrip("/") + "_data", ignore_errors=True)


def redo_case(arg):
    """A directory load/<n>/ that the real program stores into twice.
    mode "crash": the run dies (BaseException, nothing of the program runs afterwards) inside treat_output right after
    the k-th pstore.output returned ("after-store") or when that step is about to rewrite restart.toml ("before-toml");
    it is continued from the restart file on disk (or from infretis.toml when none was written yet); the step is
    done again and re-uses the path number.  mode "again": a run is stopped or finishes, then the simulation is
    started again from infretis.toml in the same folder (path numbers start again at the number of ensembles).
    After EVERY treat_output of the continued / second run: live_roundtrip."""
    import crash_harness as CH
    setup, sched = dict(arg["setup"]), list(arg.get("schedule") or [])
    ddir = setup.pop("data_dir", None)
    mode, k, point = arg["mode"], arg.get("k", 0), arg.get("point", "after-store")
    wd = H.scratch("infv_c14r_")
    out = {"problems": [], "steps_checked": 0, "reloaded": 0, "stored_first": [], "stored_again": [], "segments": []}
    stage = {"n": 1, "stores": 0, "in_treat": False, "hit": False}
    try:
        H.write_setup(wd, **setup)
        apply_data_dir(wd, ddir)

        class R(H.Recorder):
            def attach(self, state):
                super().attach(state)
                pst = state.pstore      # a class attribute: patched once per process, `stage` tells the segments apart
                if not getattr(pst, "_c14_redo", False):
                    orig_out = pst.output

                    def logged_output(step, data):
                        res = orig_out(step, data)
                        pn = int(res.path_number)
                        if stage["n"] == 1:
                            out["stored_first"].append(pn)
                            stage["stores"] += 1
                            if mode == "crash" and stage["stores"] == k + 1:
                                stage["hit"] = True
                                out["crash"] = {"path": pn, "step": int(step), "point": point}
                                if point == "after-store":
                                    raise CH.Crash(f"crash right after load/{pn}/ was stored")
                        elif pn in out["stored_first"] and pn not in out["stored_again"]:
                            out["stored_again"].append(pn)
                        return res
                    pst.output = logged_output
                    pst._c14_redo = True
                inner_toml = state.write_toml

                def write_toml():
                    if stage["n"] == 1 and stage["hit"] and stage["in_treat"] and point == "before-toml":
                        raise CH.Crash(f"crash before restart.toml is rewritten (load/{out['crash']['path']}/ is stored)")
                    return inner_toml()
                state.write_toml = write_toml
                inner = state.treat_output

                def treat(md):
                    if arg.get("aux"):
                        for e in md["picked"]:
                            t = md["picked"][e]["traj"]
                            if t.path_number is None:
                                for a in t.adress:
                                    with open(os.path.splitext(a)[0] + ".aux", "w") as f:
                                        f.write("kept")
                    stage["in_treat"] = True
                    try:
                        res = inner(md)
                    finally:
                        stage["in_treat"] = False
                    if stage["n"] >= 2:
                        nchk, probs = live_roundtrip(state, wd)
                        out["steps_checked"] += 1
                        out["reloaded"] += nchk
                        if probs and len(out["problems"]) < 6:
                            what = "continued after the crash" if mode == "crash" else "second run in the same folder"
                            out["problems"] += [f"{what}, cstep {state.cstep}: {p}" for p in probs]
                    return res
                state.treat_output = treat

        # ---- first run
        try:
            res = H.run_sim(wd, inp="infretis.toml", schedule=list(sched), stop_after=arg.get("stop1"), recorder=R(with_frac=False))
            out["segments"].append(res["status"])
        except CH.Crash as c:
            out["segments"].append("crash: " + str(c))
        if mode == "crash" and not stage["hit"]:
            out["not_reached"] = True
            return out
        stage["n"] = 2
        have_restart = os.path.exists(os.path.join(wd, "restart.toml"))
        out["restart_file_after_first_run"] = {"active": read_active(wd)} if have_restart else None
        inp = "restart.toml" if (mode == "crash" and have_restart) else "infretis.toml"
        # ---- continued / second run, optionally stopped and continued once more
        for stop in ([arg["stop2"], None] if arg.get("stop2") else [None]):
            try:
                res = H.run_sim(wd, inp=inp, schedule=[], stop_after=stop, recorder=R(with_frac=False))
            except CH.Crash as c:      # cannot happen in stage 2
                out["raised"] = "Crash " + str(c)
                break
            except Exception as e:  # noqa: BLE001
                out["raised"] = repr(e) + " :: " + traceback.format_exc()[-700:]
                out["raised_in"] = inp
                break
            out["segments"].append(res["status"])
            if res["status"] == "none":
                out["refused"] = {"inp": inp, "active": read_active(wd), "not_in_load_dir": unreadable_active(wd)}
                break
            if res["status"] != "stopped":
                break
            inp = "restart.toml"
        ok, active, missing = CH.referenced_files(wd)
        out["end"] = {"restart_parses": ok, "active": active, "missing": {int(a): b for a, b in missing.items()} if ok else missing}
        return out
    finally:
        shutil.rmtree(wd, ignore_errors=True)
        shutil.rmtree(wd.rstrip("/") + "_data", ignore_errors=True)


def sys_case(arg):
    return redo_case(arg) if arg.get("kind") == "redo" else del_case(arg)


def dir_summary(t):
    """tree entry -> (txt present?, referenced files present?, number of referenced files present, extras)"""
    acc = t["acc"] or []
    refs = t["refs"]
    if refs is None:
        return (False, False, 0, len(acc))
    present = [r for r in refs if r in acc]
    return (all(x in t["txt"] for x in TXTS), len(present) == len(refs) and len(refs) > 0, len(present), len(acc) - len(present))


def model_request(arg, obs):
    """micro operations of the model for the recorded run + the model's initial state"""
    setup = arg["setup"]
    n = setup.get("n_intf", 3) + 1
    ops, marks = [], []      # marks: index into ops of the MEnd of every record (or of the crash)
    segs = set(obs["segments"][1:])
    for ri, r in enumerate(obs["records"]):
        if ri in segs:
            ops.append("R")
        stored = [e[1] for e in r["events"] if e[0] == "S"]
        news = [r["traj_num_before"] + i for i in range(len(stored))]
        k = 0
        for old, isnew in zip(r["pn_old"], r["new_numbered"]):
            if r["status"] == "ACC" or isnew:
                # files of the new path: read off the tree after the step (or what the store left)
                pn = r["traj_num_before"] + k
                t = r["tree"].get(pn)
                if t is not None and t["refs"] is not None:
                    nref = len(t["refs"])
                    nextra = len(t["acc"] or []) - len([x for x in t["refs"] if x in (t["acc"] or [])])
                else:      # already deleted again within the same step (capacity < 2) - not expected
                    nref, nextra = 0, 0
                ops.append(f"I:{old}:{nref}:{nextra}")
                k += 1
        if "exception" in r:
            marks.append((ri, len(ops) - 1, True))
        else:
            ops.append("E")
            marks.append((ri, len(ops) - 1, False))
        if stored != news[:len(stored)] and "exception" not in r:
            marks[-1] = (ri, len(ops) - 1, "numbering")
    init = obs["init_tree"]
    ds = ",".join(f"{pn}:1:1:{len(t['refs'] or [])}:0" for pn, t in sorted(init.items())) or "-"
    live0 = ",".join(str(i) for i in range(n - 1))
    req = " ".join(["del", "1" if setup.get("delete_old") else "0", "1" if setup.get("delete_old_all") else "0", str(n), live0, str(n - 1), ds,
                    ",".join(ops) or "-"])
    return req, marks, n


def compare_del(arg, obs, mo, marks, n):
    diffs = []
    if mo.startswith("ERR"):
        return [f"model runner error: {mo[:200]}"]
    states = mo.split(" ") if mo != "-" else []
    for ri, oi, flag in marks:
        r = obs["records"][ri]
        if oi < 0 or oi >= len(states):
            continue
        live, queue, nxt, ds, rec, cnt, dead, ev = states[oi].split("/")
        mlive = sorted(int(x) for x in live.split(",")) if live != "-" else []
        mq = [int(x) for x in queue.split(",")] if queue != "-" else []
        mdirs = {}
        for e in (ds.split(",") if ds != "-" else []):
            pn, t, tr, nt, nx = e.split(":")
            mdirs[int(pn)] = (t == "1", tr == "1", int(nt), int(nx))
        rdirs = {pn: dir_summary(t) for pn, t in r["tree"].items()}
        if flag == "numbering":
            diffs.append(f"step {ri}: new paths were numbered {[e[1] for e in r['events'] if e[0] == 'S']}, expected consecutive numbers from {r['traj_num_before']}")
        if flag is True:
            if dead != "1":
                diffs.append(f"step {ri}: treat_output raised {r['exception']}, the model does not")
            elif mdirs != rdirs:
                diffs.append(f"step {ri} (crashed): directory tree {rdirs}, model {mdirs}")
            continue
        if dead == "1":
            diffs.append(f"step {ri}: the model predicts an exception inside treat_output, the implementation completed the step")
            continue
        if mlive != sorted(r["live"]):
            diffs.append(f"step {ri}: live paths {sorted(r['live'])}, model {mlive}")
        if mq != r["pn_olds"]:
            diffs.append(f"step {ri}: pn_olds {r['pn_olds']}, model {mq}")
        if int(nxt) != r["traj_num"]:
            diffs.append(f"step {ri}: traj_num {r['traj_num']}, model {nxt}")
        if mdirs != rdirs:
            bad = sorted(pn for pn in set(mdirs) | set(rdirs) if mdirs.get(pn) != rdirs.get(pn))
            diffs.append(f"step {ri}: directory tree differs for paths {bad}: implementation {[rdirs.get(p) for p in bad]}, model {[mdirs.get(p) for p in bad]} "
                         "(text files present, referenced files present, their number, other files in accepted/)")
        mrec = sorted(int(x) for x in rec.split(",")) if rec != "-" else []
        if r["active"] is None or mrec != sorted(r["active"]):
            diffs.append(f"step {ri}: restart.toml lists {r['active']}, model {mrec}")
        if diffs:
            break
    return diffs


def oracle_del(arg, obs):
    """the deletion part of the statement on the recorded real run (no model)"""
    setup = arg["setup"]
    n = setup.get("n_intf", 3) + 1
    probs = []
    replaced_at = {}      # path -> number of stores done when it was replaced (including its replacement)
    nstores = 0
    seen_numbers = set(obs["init_tree"].keys())
    segs = set(obs["segments"][1:])
    for ri, r in enumerate(obs["records"]):
        if ri in segs:
            pass   # a restart: pn_olds is empty again, older replaced paths are simply kept
        olds = [o for o, isnew in zip(r["pn_old"], r["new_numbered"]) if r["status"] == "ACC" or isnew]
        si = 0
        deleted_here = []
        for ev in r["events"]:
            if ev[0] == "S":
                nstores += 1
                new = ev[1]
                if new in seen_numbers:
                    probs.append(f"step {ri}: path number {new} is used a second time")
                seen_numbers.add(new)
                if si < len(olds):
                    replaced_at[olds[si]] = nstores
                si += 1
            elif ev[0] in ("D", "RD"):
                pn = ev[1]
                if pn <= n - 2:
                    probs.append(f"step {ri}: {'file' if ev[0] == 'D' else 'directory'} {ev[2]!r} of the initial path {pn} removed")
                if ev[0] == "D":
                    live_now = ev[3]
                    if pn in live_now:
                        probs.append(f"step {ri}: file {ev[2]!r} of the live path {pn} removed")
                    if r["active_before"] is not None and pn in r["active_before"]:
                        probs.append(f"step {ri}: file {ev[2]!r} of path {pn} removed while restart.toml on disk lists it as active")
                    if pn in r["live"]:
                        probs.append(f"step {ri}: file {ev[2]!r} of path {pn} removed; the path is live at the end of the step")
                    if pn not in deleted_here:
                        deleted_here.append(pn)
                        if pn not in replaced_at:
                            if pn > n - 2 and pn not in r["live_before"]:
                                pass   # replaced before a restart: cannot be in pn_olds; reported below
                            probs.append(f"step {ri}: files of path {pn} removed although it was not replaced in this run segment")
                        elif nstores - replaced_at[pn] < n - 1:
                            probs.append(f"step {ri}: files of path {pn} removed after {nstores - replaced_at[pn]} later replacement(s); the lag is n-1 = {n - 1}")
        if ri in segs or ri == 0:
            pass
        # live paths and the paths of restart.toml keep all their files
        need = set(r["live"]) | set(r["active"] or [])
        for pn in sorted(need):
            t = r["tree"].get(pn)
            if t is None:
                probs.append(f"step {ri}: directory of live path {pn} is gone")
                continue
            miss = [x for x in TXTS[::2] if x not in t["txt"]]
            if t["refs"] is not None:
                miss += [x for x in t["refs"] if x not in (t["acc"] or [])]
            if miss:
                probs.append(f"step {ri}: live path {pn} lacks {miss}")
        for pn, h in obs["init_hash"].items():
            if r["init_hash"].get(pn) != h:
                probs.append(f"step {ri}: the directory of initial path {pn} changed")
        if ri + 1 in segs:
            replaced_at = {}      # the next segment starts with an empty pn_olds
        if probs:
            break
    return probs


def gen_del_cases(rng, tier):
    cases = []
    quick = tier == "quick"

    def add(cls, setup, schedule=None, stops=None, aux=False):
        cases.append({"kind": "del", "class": cls, "setup": setup, "schedule": schedule or [], "stops": stops or [], "aux": aux})

    flags = [(True, False), (True, True), (False, False), (False, True)]
    seeds = [1, 2] if quick else [1, 2, 3, 4, 5, 6]
    for n_intf in (2, 3, 4):
        for W in (1, 2, 3):
            if W >= n_intf:
                continue
            for dold, dall in flags:
                for seed in (seeds if dold else seeds[:1]):
                    steps = 10 + 6 * n_intf
                    sched = [rng.randrange(0, 3) for _ in range(steps)] if W > 1 else []
                    base = dict(n_intf=n_intf, workers=W, steps=steps, seed=seed, delete_old=dold, delete_old_all=dall)
                    add(f"run:n{n_intf}:W{W}:{int(dold)}{int(dall)}", dict(base), sched)
                    if dold and (not quick or seed == seeds[0]):
                        k1 = rng.randrange(3, steps - 4)
                        add(f"restart1:n{n_intf}:W{W}:{int(dold)}{int(dall)}", dict(base), sched, [k1])
                        if not quick:
                            k2 = rng.randrange(2, max(3, steps - k1 - 2))
                            add(f"restart2:n{n_intf}:W{W}:{int(dold)}{int(dall)}", dict(base), sched, [k1, k2])
    # wire fencing / capped runs produce other path shapes
    for seed in seeds[:2]:
        add("run:wf", dict(n_intf=3, workers=2, steps=24, seed=seed, moves=["sh", "sh", "wf"], cap=2.5, delete_old=True, delete_old_all=bool(seed % 2)),
            [rng.randrange(0, 2) for _ in range(24)])
    # keep_traj_fnames: extra files follow the path; with delete_old_all this is observation O2
    add("keep:delete_old", dict(n_intf=3, workers=1, steps=16, seed=1, delete_old=True, keep_traj_fnames=[".aux"]), aux=True)
    add("keep:O2", dict(n_intf=3, workers=1, steps=16, seed=1, delete_old=True, delete_old_all=True, keep_traj_fnames=[".aux"]), aux=True)
    if not quick:
        add("keep:O2", dict(n_intf=2, workers=2, steps=16, seed=2, delete_old=True, delete_old_all=True, keep_traj_fnames=[".aux"]), [1, 0, 1, 0], aux=True)
        add("keep:delete_old", dict(n_intf=4, workers=2, steps=24, seed=3, delete_old=True, keep_traj_fnames=[".aux"]), [1, 0, 1, 1], [9], aux=True)
    # [output] data_dir other than the run directory (legal: write_header / write_to_pathens honour it; every shipped
    # input has "./"): the stored paths must still be where load_path, the restart check and delete_old look for
    # them - <run directory>/<load_dir>/<n>/.  Relative, nested and absolute ("@abs") data_dir; fixed schedules.
    dd = [("results", 3, 1, (False, False), []), ("results", 3, 1, (True, False), [7]), ("results", 3, 2, (True, True), [9]),
          ("results", 4, 2, (True, False), [6, 7]), ("results", 2, 1, (True, True), []), ("out/data/", 3, 1, (True, True), [5]),
          ("@abs", 3, 1, (True, False), [6]), ("@abs", 3, 2, (True, True), []), ("@abs", 4, 3, (False, False), [9])]
    for i, (ddir, n_intf, W, (dold, dall), stops) in enumerate(dd):
        for seed in ([1] if quick else [1, 2, 3]):
            steps = 10 + 4 * n_intf
            add(f"datadir:{'abs' if ddir == '@abs' else 'rel'}:n{n_intf}:W{W}:{int(dold)}{int(dall)}",
                dict(n_intf=n_intf, workers=W, steps=steps, seed=seed, delete_old=dold, delete_old_all=dall, data_dir=ddir),
                [(3 * k + i + seed) % 3 for k in range(steps)] if W > 1 else [], stops)
    add("datadir:rel:keep", dict(n_intf=3, workers=1, steps=16, seed=1, delete_old=True, keep_traj_fnames=[".aux"], data_dir="results"), [], [8], aux=True)
    add("datadir:abs:keep", dict(n_intf=3, workers=1, steps=16, seed=2, delete_old=True, keep_traj_fnames=[".aux"], data_dir="@abs"), aux=True)
    add("datadir:rel:wf", dict(n_intf=3, workers=2, steps=20, seed=1, moves=["sh", "sh", "wf"], cap=2.5, delete_old=True, delete_old_all=True, data_dir="results"),
        [k % 2 for k in range(20)], [9])
    return cases


def gen_redo_cases(tier):
    """load/<n>/ stored into twice by the real program (fixed cases: no random stream is consumed)"""
    quick = tier == "quick"
    cases = []

    def add(cls, setup, mode, **kw):
        cases.append(dict({"kind": "redo", "class": cls, "setup": setup, "mode": mode}, **kw))
    base = dict(n_intf=3, workers=1, steps=14, seed=1)
    for i, (dold, dall) in enumerate([(False, False), (True, False), (True, True)]):
        for j, (k, point) in enumerate([(0, "after-store"), (1, "before-toml"), (3, "after-store"), (4, "before-toml")] if quick else
                                       [(k, pt) for k in range(7) for pt in ("after-store", "before-toml")]):
            if quick and (i + j) % 2 and dold:
                continue
            add(f"redo:crash:{point}:{int(dold)}{int(dall)}", dict(base, seed=1 + (i + j) % 3, delete_old=dold, delete_old_all=dall), "crash", k=k, point=point,
                stop2=(5 if j % 2 else None))
    add("redo:crash:after-store:W2", dict(n_intf=3, workers=2, steps=14, seed=2, delete_old=True), "crash", k=2, point="after-store", schedule=[1, 0, 1, 1, 0, 0, 1])
    add("redo:crash:before-toml:n4", dict(n_intf=4, workers=2, steps=18, seed=3, delete_old=True, delete_old_all=True), "crash", k=3, point="before-toml",
        schedule=[0, 1, 1, 0, 1], stop2=6)
    add("redo:crash:after-store:keep", dict(base, delete_old=True, keep_traj_fnames=[".aux"]), "crash", k=2, point="after-store", aux=True)
    add("redo:crash:before-toml:datadir", dict(base, delete_old=True, data_dir="results"), "crash", k=2, point="before-toml", stop2=4)
    for dold, dall, stop1 in [(False, False, None), (True, False, 8), (True, True, None)]:
        add(f"redo:again:{int(dold)}{int(dall)}", dict(base, steps=12, delete_old=dold, delete_old_all=dall), "again", stop1=stop1, stop2=(4 if dold and not dall else None))
    return cases


# =========================================================================== run / replay


def long_case():
    try:
        from infretis.classes.path import Path as _Path
        nlong = int(_Path().maxlen) + 3
    except Exception:  # noqa: BLE001
        return None, 0
    if not 0 < nlong <= 400000:
        return None, nlong
    lfiles = ["w0/a.lat", "w0/b.lat", "w1/c.lat"]
    lframes = [{"orders": [f2j(round(k * 1e-3, 3))], "vpot": f2j(None), "ekin": f2j(None), "file": lfiles[(3 * k) // nlong],
                "idx": k % 1000, "rev": k % 7 == 0} for k in range(nlong)]
    return {"kind": "func", "class": "longer-than-default-maxlen", "frames": lframes,
            "files": {f: "content of " + f for f in lfiles}, "step": 3, "gen": ["sh", 0.5, 1, 2], "pn": 5, "keep": []}, nlong


def run(ctx):
    common.proof_stage(ctx, "C14", ["extract/c14.vo"])
    runner = common.runner_stage(ctx, "c14")
    rng = ctx.rng
    quick = ctx.tier == "quick"
    nviol = {"func": 0, "func2": 0, "corr": 0, "del": 0, "redo": 0}

    # ---------------- (a) functional lock-step
    fcases = gen_func_cases(rng, ctx.tier, seed=ctx.seed)
    reqs, metas = [], []
    hyp_out = {}
    for case in fcases:
        req, impl, problems, hyp = run_func_case(case)
        ctx.dist("func:" + case["class"].split(":")[0] + (":collision" if hyp[1] else "") + (":outside" if hyp[0] else ""))
        for h in hyp[0]:
            hyp_out[h] = hyp_out.get(h, 0) + 1
        if hyp[1]:
            hyp_out["colliding-basenames"] = hyp_out.get("colliding-basenames", 0) + 1
        ctx.count(("func", req), nontrivial=bool(case["frames"]))
        if problems and nviol["func" if not case.get("prior") else "func2"] < (4 if not case.get("prior") else 2):
            nviol["func" if not case.get("prior") else "func2"] += 1
            pre = ""
            if case.get("prior"):
                pre = (f"a path of {len(case['frames'])} frame(s) stored (step {case['step']}) into load/{case['pn']}/, which already held a path of "
                       f"{len(case['prior'][-1]['frames'])} frame(s) stored by PathStorage.output (step {case['prior'][-1]['step']}), and loaded again: ")
            ctx.violation(f"C14 statement fails on the implementation: {pre}{problems[0]}", {"case": case, "problems": problems}, found_input=True)
        reqs.append(req)
        metas.append((case, impl, hyp))
    # a path longer than the default maximum length of a fresh Path object (legal whenever
    # tis_set.maxlength is larger): judged by the statement on the implementation only, the model
    # (whose theorems hold for every length) is not evaluated on it
    lcase, nlong = long_case()
    if lcase is not None:
        _, _, problems, hyp = run_func_case(lcase)
        ctx.dist("func:longer-than-default-maxlen")
        ctx.count(("func-long", nlong), nontrivial=True)
        if problems:
            ctx.violation(f"C14 statement fails on the implementation: a path of {nlong} frames in 3 files: {problems[0]}",
                          {"case": {k: v for k, v in lcase.items() if k != "frames"}, "frames": f"{nlong} frames, file k*3//n, index k%1000, reversed k%7==0",
                           "problems": problems}, found_input=True)
    if runner is not None:
        outs = runner.run(reqs)
        for (case, impl, hyp), req, mo in zip(metas, reqs, outs):
            diffs = compare_func(case, req, impl, mo, hyp)
            if diffs and nviol["corr"] < 3:
                nviol["corr"] += 1
                ctx.violation(f"correspondence model/implementation broken for PathStorage.output/load_path: {diffs[0][:300]}",
                              {"correspondence": "c14 runner (sl) vs infretis.classes.formatter.PathStorage / path.load_path", "case": case, "differences": diffs,
                               "model": mo[:2000]}, found_input=False)
        for k in (0, len(reqs) // 2, len(reqs) - 1):
            ctx.sample({"request": reqs[k][:600], "model": outs[k][:600]})

    # ---------------- (b) real runs
    dcases = gen_del_cases(rng, ctx.tier)
    rcases = gen_redo_cases(ctx.tier)
    res = H.run_many(sys_case, dcases + rcases, jobs=14, timeout=900)
    res, rres = res[:len(dcases)], res[len(dcases):]
    nreload = 0
    dreqs, dmeta = [], []
    o2_seen, o2_expected = 0, 0
    collisions_real = 0
    for case, (tag, obs) in zip(dcases, res):
        if tag != "ok":
            ctx.violation(f"harness failure in a real run {case['class']}: {str(obs)[:300]}", {"case": case, "error": str(obs)}, found_input=False)
            continue
        ctx.dist("del:" + case["class"].split(":")[0] + ":" + ("stops%d" % len(case["stops"])))
        nrec = len(obs["records"])
        ndel = sum(1 for r in obs["records"] for e in r["events"] if e[0] == "D")
        ctx.count(("del", json.dumps(case, sort_keys=True)), nontrivial=ndel > 0 or not case["setup"].get("delete_old"), n=nrec)
        ctx.dist("del:steps", nrec)
        ctx.dist("del:files-removed", ndel)
        # the round trip of every live path after every step (what a restart would read), then the deletion clauses
        probs = [f"step {ri}: {p}" for ri, r in enumerate(obs["records"]) for p in r.get("roundtrip") or []][:6]
        nreload += sum(r.get("reloaded", 0) for r in obs["records"])
        rr = obs.get("restart_refused")
        if rr and rr["not_in_load_dir"]:
            probs.append(f"the run cannot be continued: restart.toml lists the active paths {rr['active']}, of which {rr['not_in_load_dir']} are not in load/ "
                         "(setup_config returns None)")
        probs += oracle_del(case, obs)
        dd = case["setup"].get("data_dir")
        if probs and nviol["del"] < 4:
            nviol["del"] += 1
            ctx.violation(f"C14 statement fails on the implementation{f' (real run with [output] data_dir = {dd!r})' if dd else ''}: {probs[0]}",
                          {"case": case, "problems": probs}, found_input=True)
        oerr = [r["roundtrip_error"] for r in obs["records"] if "roundtrip_error" in r]
        if oerr:
            ctx.violation(f"harness failure: the round-trip oracle raised {oerr[0]} in scenario {case['class']}", {"case": case, "errors": oerr[:3]}, found_input=False)
        if rr and not rr["not_in_load_dir"]:
            ctx.violation(f"the real program refused to continue from restart.toml in scenario {case['class']} although every active path is in load/",
                          {"case": case, "restart_refused": rr}, found_input=False)
        if dd:
            # the scenario is what it claims to be: the data file is in data_dir (and only there) and is recorded in restart.toml
            ctx.dist("del:datadir:" + ("absolute" if dd == "@abs" else "relative"))
            for seg, st in enumerate(obs.get("data") or []):
                nacc = sum(1 for r in obs["records"] if r["status"] == "ACC" and "exception" not in r)
                if st is None or not (st["exists"] and st["in_data_dir"]) or st["stray"] or (nacc and not st["rows"]):
                    ctx.violation(f"scenario {case['class']}: with data_dir = {dd!r} the data file is not where it was configured after run segment {seg}: {st}",
                                  {"case": case, "data_file": st}, found_input=False)
                    break
        # base names of one stored path are distinct in real runs? (hypothesis of the content theorem)
        for r in obs["records"]:
            for pn, t in r["tree"].items():
                if t["refs"] is not None and t["acc"] is not None and pn in r["live"] and len(set(t["refs"])) > len(t["acc"]):
                    collisions_real += 1
        is_o2 = case["class"] == "keep:O2"
        raised = obs.get("raised")
        if is_o2:
            o2_expected += 1
            if raised and "Directory not empty" in raised:
                o2_seen += 1
        elif raised:
            ctx.violation(f"the real program raised {raised} in scenario {case['class']}", {"case": case, "raised": raised}, found_input=False)
        req, marks, n = model_request(case, obs)
        dreqs.append(req)
        dmeta.append((case, obs, marks, n))
    if runner is not None and dreqs:
        outs = runner.run(dreqs)
        for (case, obs, marks, n), mo in zip(dmeta, outs):
            diffs = compare_del(case, obs, mo, marks, n)
            if diffs and nviol["corr"] < 6:
                nviol["corr"] += 1
                ctx.violation(f"correspondence model/implementation broken for the deletion logic of treat_output: {diffs[0][:300]}",
                              {"correspondence": "c14 runner (del) vs REPEX_state.treat_output", "case": case, "differences": diffs}, found_input=False)
        if dreqs:
            ctx.sample({"request": dreqs[0][:400], "model": outs[0][:600]})
    # ---------------- (c) load/<n>/ stored into twice by the real program
    redo_stats = {"runs": 0, "crash-point-not-reached": 0, "directories-stored-again": 0, "steps-checked": 0, "live-paths-reloaded": 0}
    for case, (tag, obs) in zip(rcases, rres):
        if tag != "ok":
            ctx.violation(f"harness failure in a real run {case['class']}: {str(obs)[:300]}", {"case": case, "error": str(obs)}, found_input=False)
            continue
        redo_stats["runs"] += 1
        ctx.dist(":".join(case["class"].split(":")[:2]))
        if obs.get("not_reached"):
            redo_stats["crash-point-not-reached"] += 1
            ctx.count(("redo", json.dumps(case, sort_keys=True)), nontrivial=False)
            continue
        redo_stats["directories-stored-again"] += len(obs["stored_again"])
        redo_stats["steps-checked"] += obs["steps_checked"]
        redo_stats["live-paths-reloaded"] += obs["reloaded"]
        ctx.count(("redo", json.dumps(case, sort_keys=True)), nontrivial=bool(obs["stored_again"]), n=max(1, obs["steps_checked"]))
        probs = list(obs["problems"])
        if obs.get("refused") and obs["refused"]["not_in_load_dir"]:
            probs.append(f"the run cannot be continued from {obs['refused']['inp']}: it lists the active paths {obs['refused']['active']}, of which "
                         f"{obs['refused']['not_in_load_dir']} are not in load/")
        end = obs.get("end") or {}
        if end.get("restart_parses") and end.get("missing"):
            probs.append(f"at the end the paths listed in restart.toml lack files: {end['missing']}")
        how = (f"the run died {'right after pstore.output returned' if obs['crash']['point'] == 'after-store' else 'when the step was about to rewrite restart.toml'} "
               f"(load/{obs['crash']['path']}/ stored at step {obs['crash']['step']}, restart.toml not yet rewritten), "
               "was continued and the step was done again" if case["mode"] == "crash" else "the simulation was started again from infretis.toml in the folder of an earlier run")
        if probs and nviol["redo"] < 3:
            nviol["redo"] += 1
            ctx.violation(f"C14 statement fails on the implementation: {how}; directories stored into a second time: load/{obs['stored_again']}; {probs[0]}",
                          {"case": case, "problems": probs, "segments": obs["segments"], "stored_again": obs["stored_again"]}, found_input=True)
        elif not probs and (obs.get("raised") or (obs.get("refused") and not obs["refused"]["not_in_load_dir"])):
            ctx.violation(f"the real program failed in scenario {case['class']} ({how}): {obs.get('raised') or obs.get('refused')}",
                          {"case": case, "raised": obs.get("raised"), "refused": obs.get("refused"), "segments": obs["segments"]}, found_input=False)
    ctx.cov["stored_again_runs"] = redo_stats
    ctx.dist("del:live-paths-reloaded", nreload)
    ctx.cov["observations"] = {
        "O2": (f"confirmed on the real program in {o2_seen}/{o2_expected} scenario(s): delete_old_all with keep_traj_fnames -> "
               "OSError(39, 'Directory not empty') from os.rmdir(load/<pn>/accepted) inside treat_output at the first deletion; the model "
               "predicts the same (dead state); outside the statement of C14, reported here only") if o2_expected else "not exercised",
        "stored real paths whose distinct source files share a base name": collisions_real,
        "generated inputs outside the hypotheses (correspondence only)": hyp_out,
    }
    ctx.cov["rule"] = ("one evaluation = one generated path stored and loaded by the real code (compared with the model byte for byte and judged by the "
                       "oracle), or one treat_output of a real run (tree, pn_olds, live paths, traj_num, restart.toml compared with the model and "
                       "judged by the oracle); functional cases: all assignments of (3 files incl. a colliding base name) x (index None/0/2) x "
                       f"(direction) to paths of <= {2 if quick else 3} frames, every special value (width limit, ties, -0.0, NaN, tiny, huge) in every "
                       "column, names, keep_traj_fnames, headers, seeded random paths; runs: n_intf 2-4 x workers 1-3 x 4 flag combinations x seeds, "
                       "with 0-2 restarts; the same with [output] data_dir = 'results' / 'out/data/' / an absolute directory (after every step every live "
                       "path is loaded from <run directory>/load/<n>/ and compared with the path in memory); directories stored into twice: path A then a "
                       "different path B (longer, shorter, same names, only energies/orders/directions differ, B re-using A's files, keep_traj_fnames, three "
                       "stores, seeded random pairs) and real runs that die right after pstore.output / before write_toml, are continued and redo the step, "
                       "or are started again from scratch in the same folder (one evaluation = one treat_output of the continued run); "
                       "non-trivial = a non-empty path / a run in which files were removed (or deletion is off) / a run in which a directory was stored again")
    ctx.cov["correspondence"] = {"functional_cases": len(fcases), "functional_cases_into_a_used_directory": sum(1 for c in fcases if c.get("prior")),
                                 "real_runs": len(dcases), "real_runs_data_dir": sum(1 for c in dcases if c["setup"].get("data_dir")),
                                 "real_runs_stored_again": len(rcases), "live_paths_reloaded": nreload + redo_stats["live-paths-reloaded"], "treat_output_calls": sum(len(o["records"]) for _, o, _, _ in dmeta),
                                 "model_used": runner is not None}
    ctx.cov["trusted_base"] += ["extraction: ExtrOcamlBasic only; ocaml/util.ml + ocaml/c14_driver.ml", "py/params_c14.py", "py/sysharness.py, py/plugins/engines.py",
                                "py/crash_harness.py (Crash, referenced_files)", "py/checks/c14.py generators, recorders and oracles"]
    ctx.assumptions += ["base names non-empty, no white space; uniform number of order columns; non-empty path (evaluated per case)",
                        "finite or NaN values (inf not generated)", "restarts at step boundaries (a crash inside treat_output is C08), except the two crash points of family (c)",
                        "data_dir exists before the run starts (the program does not create it)"]


def replay(doc):
    case = doc["replay"].get("case")
    print(json.dumps(doc.get("what"), indent=1))
    if not case:
        print(json.dumps(doc, indent=1)[:4000])
        return 0
    if case.get("class") == "longer-than-default-maxlen":
        case, _ = long_case()
        _, _, problems, _ = run_func_case(case)
        print("oracle problems:", problems)
        return 1 if problems else 0
    if case.get("kind") == "func":
        req, impl, problems, hyp = run_func_case(case)
        print("hypotheses failing:", hyp[0], "colliding base names:", hyp[1])
        print("store:", impl.get("store"), impl.get("store_exc", ""))
        print("loaded:", json.dumps(impl.get("load"), indent=1)[:3000], impl.get("load_exc", ""))
        print("oracle problems:", problems)
        try:
            r = common.Runner("c14")
            mo = r.run([req])[0]
            print("model/implementation differences:", compare_func(case, req, impl, mo, hyp))
        except Exception as e:  # noqa: BLE001
            print("model not available:", e)
        return 1 if problems else 0
    if case.get("kind") == "redo":
        (tag, obs), = H.run_many(redo_case, [case], jobs=1)
        print(tag, json.dumps(obs, indent=1, default=str)[:4000])
        return 1 if tag != "ok" or obs.get("problems") or obs.get("raised") or obs.get("refused") else 0
    (tag, obs), = H.run_many(del_case, [case], jobs=1)
    if tag != "ok":
        print(tag, obs)
        return 1
    for ri, r in enumerate(obs["records"]):
        print(ri, r["status"], "old", r["pn_old"], "events", [(e[0], e[1]) + ((e[2],) if len(e) > 2 else ()) for e in r["events"]], "live", r["live"],
              "pn_olds", r["pn_olds"], "active", r["active"], r.get("exception", ""))
    probs = [f"step {ri}: {p}" for ri, r in enumerate(obs["records"]) for p in r.get("roundtrip") or []][:6]
    if obs.get("restart_refused"):
        probs.append(f"restart refused: {obs['restart_refused']}")
    probs += oracle_del(case, obs)
    print("data file per run segment:", obs.get("data"))
    print("oracle problems:", probs)
    try:
        r = common.Runner("c14")
        req, marks, n = model_request(case, obs)
        print("model/implementation differences:", compare_del(case, obs, r.run([req])[0], marks, n))
    except Exception as e:  # noqa: BLE001
        print("model not available:", e)
    return 1 if probs else 0
