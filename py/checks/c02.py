"""C02 — swap probabilities equal the exact permanent ratios.

Theorems: coq/theorems/C02.v (spec coq/spec/PermS.v, model coq/model/PermM.v, proofs
coq/proofs/PermSpecP.v, PermP.v, PermQuickP.v, PermGlynnP.v, PermIdleP.v, PermTieP.v and the
bounded sweeps PermBound{A,B,C}P.v).  Tie: functional lock-step of the REAL
REPEX_state.inf_retis / quick_prob / find_blocks / permanent_prob / fast_glynn_perm and of the
`prob` property after real add_traj / swap / lock / unlock sequences against the extracted
model, and against the extracted specification Pspec; an independent Python permanent over
exact integers/Fractions is the third leg.  The property's own statement (P == Pspec on the
idle block, zero on busy rows/columns, rows and columns sum to 1, zero where W is zero,
unchanged when one path's weights are rescaled, fast / block-wise / permanent code paths
agree) is evaluated directly on the implementation's outputs.
"""
import importlib.util  # noqa: F401
import itertools
import json
from fractions import Fraction

import numpy as np

import common

META = {
    "id": "C02",
    "level": "proof",
    "technique": "Coq: permanent by first-row expansion as independent spec; Laplace expansion along any row/column, "
                 "multilinearity and transpose invariance proved for all sizes; executable Q model of inf_retis / quick_prob / "
                 "find_blocks / permanent_prob / fast_glynn_perm: structural theorems for all sizes (busy rows/columns zero, idle-block "
                 "reduction, quick_prob doubly stochastic) + refinement to the spec by exhaustive vm_compute sweeps (bound in the "
                 "statement) + Glynn = permanent on symbolic entries (n <= 7); exhaustive small-scope lock-step of the extracted model, "
                 "the extracted spec and the real REPEX_state methods on every run",
    "text": "Unbounded (every size): Pspec rows and columns sum to 1 when perm != 0 (Laplace expansion of the permanent along an "
            "arbitrary row and column, transpose invariance), zero weight gives zero probability, Pspec is unchanged and perm scales "
            "when one path's weights are rescaled, Pspec >= 0; in the model of inf_retis busy rows and columns are zero for every "
            "input and every argsort answer, and the result is the re-insertion of inf_retis on the idle sub-matrix alone; quick_prob "
            "(fast path) is doubly stochastic, non-negative and zero where the weight is zero for every n x n matrix whose column c "
            "has at most c zeros, in particular every matchable staircase of any size with any non-zero weights; the Qred "
            "normalisation inside the Glynn loop is immaterial. Bounded by computation, bound in the statement: inf_retis = Pspec on "
            "the idle block and zero elsewhere for ALL 0/1 staircases with 1..5 plus-ensembles x every row order x every busy set "
            "(234 k states), 6 plus-ensembles x every support multiset x every busy set (59 k), weighted staircases through "
            "find_blocks / permanent_prob / Glynn with up to 3 plus-ensembles (weights {1,2} x every busy set, weights {1,2,3} idle); "
            "independence of np.argsort's tie order (0/1 up to 4, weighted {1,2} up to 3 plus-ensembles); the Gray-code loop of "
            "fast_glynn_perm equals the permanent for every rational matrix of size <= 7 and the plain Glynn sum for size <= 5 (symbolic, field). "
            "The model and the spec are tied to /repo on every run: exhaustive 0/1 staircases x all lock subsets x row orders, random "
            "positive integer weights (block sizes 2..9), direct calls of each method, prob after real add_traj/swap/lock/unlock "
            "sequences, and the statement itself evaluated on the implementation's outputs against exact rational permanents.",
    "note": "Trusted: Coq kernel (vm_compute for the bounded sweeps); extraction (ExtrOcamlBasic) + ocaml/c02_driver.ml; this harness "
            "(generators, encoders, the Python integer permanent used as third oracle, tolerance 1e-12). Floating point is not "
            "modelled: the model computes in exact Q, inputs are small integers (all comparisons in the code are then exact) and "
            "results are compared within 1e-12. np.argsort's tie order is machine dependent (AVX-512 network, not stable): the model "
            "uses the stable order; independence from the tie order is a bounded theorem and is re-checked at run time with numpy's "
            "actual answers. random_prob (blocks > 12 paths, Monte Carlo) is a Section variable outside the exactness claim. Partial: "
            "general-size quick_prob = Pspec (only doubly-stochasticity is proved for all sizes; equality is bounded) and general-size "
            "Glynn = perm (n <= 7 symbolic; larger sizes checked by computation in the correspondence run) are not proved. "
            "Non-staircase zero patterns (observation O1) are outside the property and only reported as an observation.",
    "design_ref": "4/C02",
}
LEVEL = "proof"

TOL = 1e-12
EXPECTED_EXC = ("AssertionError", "ValueError", "TypeError", "KeyError", "IndexError", "ZeroDivisionError")


# --------------------------------------------------------------------------- exact oracle (Python ints / Fractions)

def perm_exact(M):
    n = len(M)
    dp = {0: 1}
    for r in range(n):
        nd = {}
        row = M[r]
        for mask, v in dp.items():
            for c in range(n):
                if not (mask >> c) & 1 and row[c]:
                    k = mask | (1 << c)
                    nd[k] = nd.get(k, 0) + v * row[c]
        dp = nd
    return dp.get((1 << n) - 1, 0)


_pspec_cache = {}


def pspec_exact(M):
    """(perm, table of W_ij * perm(minor ij) / perm) with Fractions; None table when perm == 0."""
    key = tuple(tuple(r) for r in M)
    if key in _pspec_cache:
        return _pspec_cache[key]
    n = len(M)
    full = (1 << n) - 1
    pre = [{0: 1}]
    for r in range(n):
        nd = {}
        for mask, v in pre[-1].items():
            for c in range(n):
                if not (mask >> c) & 1 and M[r][c]:
                    k = mask | (1 << c)
                    nd[k] = nd.get(k, 0) + v * M[r][c]
        pre.append(nd)
    suf = [None] * (n + 1)
    suf[n] = {0: 1}
    for r in range(n - 1, -1, -1):
        nd = {}
        for mask, v in suf[r + 1].items():
            for c in range(n):
                if not (mask >> c) & 1 and M[r][c]:
                    k = mask | (1 << c)
                    nd[k] = nd.get(k, 0) + v * M[r][c]
        suf[r] = nd
    d = pre[n].get(full, 0)
    if d == 0:
        res = (0, None)
    else:
        tab = []
        for i in range(n):
            row = []
            for j in range(n):
                if not M[i][j]:
                    row.append(Fraction(0))
                    continue
                tot = 0
                for mask, v in pre[i].items():
                    if (mask >> j) & 1:
                        continue
                    w = suf[i + 1].get(full & ~mask & ~(1 << j))
                    if w:
                        tot += v * w
                row.append(Fraction(M[i][j] * tot, 1) / d)
            tab.append(row)
        res = (d, tab)
    if len(_pspec_cache) < 400000:
        _pspec_cache[key] = res
    return res


# --------------------------------------------------------------------------- encoders

def enc_q(x):
    if isinstance(x, Fraction):
        return f"{x.numerator}/{x.denominator}" if x.denominator != 1 else str(x.numerator)
    if isinstance(x, (int, np.integer)):
        return str(int(x))
    return common.qstr(float(x))


def enc_mat(M):
    if len(M) == 0:
        return "-"
    return ";".join(",".join(enc_q(x) for x in r) if len(r) else "-" for r in M)


def enc_locks(l):
    return "".join("1" if int(x) else "0" for x in l)


def dec_mat(s):
    if s in ("-", ""):
        return []
    return [[common.parse_q(t) for t in r.split(",")] if r != "-" else [] for r in s.split(";")]


def impl_mat(a):
    """numpy (long)double matrix -> list of lists of python floats"""
    return [[float(x) for x in r] for r in np.asarray(a)]


def close(x, y):
    return abs(float(x) - float(y)) <= TOL * max(1.0, abs(float(y)))


def mats_close(A, B):
    if len(A) != len(B):
        return False
    for ra, rb in zip(A, B):
        if len(ra) != len(rb):
            return False
        for x, y in zip(ra, rb):
            if not close(x, y):
                return False
    return True


def max_err(A, B):
    e = 0.0
    for ra, rb in zip(A, B):
        for x, y in zip(ra, rb):
            e = max(e, abs(float(x) - float(y)))
    return e


# --------------------------------------------------------------------------- the implementation

def mk_state(n, off=1):
    from infretis.classes.repex import REPEX_state
    s = object.__new__(REPEX_state)
    s._offset = off
    s.n = n
    s._random_count = 0
    return s


def mk_full_state(n_plus_ghost):
    """A real REPEX_state built by its constructor: n = size + 1 (minus=True)."""
    from infretis.classes.repex import REPEX_state
    return REPEX_state({"current": {"size": n_plus_ghost}, "runner": {"workers": 1},
                        "simulation": {"seed": 0}, "output": {}}, minus=True)


def call(f, *a):
    """Run an implementation method; exceptions become ('N', type name)."""
    try:
        return f(*a), None
    except Exception as e:  # noqa: BLE001
        return None, type(e).__name__


def real_inf(st, W, locks):
    out, exc = call(st.inf_retis, np.array(W, dtype=float), np.array(locks, dtype=float))
    if exc:
        return None, exc
    if not np.all(np.isfinite(np.asarray(out, dtype=float))):
        return None, "nan"
    return impl_mat(out), None


# --------------------------------------------------------------------------- reachable family

def stair_matrix(ks, weights=None, minus_w=1):
    """n = m + 2: row/col 0 = [0-], m plus rows/cols, ghost row/col last.
    ks[r] = number of leading plus columns with non-zero weight for the path in slot r."""
    m = len(ks)
    n = m + 2
    W = [[0] * n for _ in range(n)]
    W[0][0] = minus_w
    for r, k in enumerate(ks):
        for c in range(k):
            W[r + 1][c + 1] = 1 if weights is None else weights[r][c]
    return W


def idle_block(W, locks):
    idx = [i for i, l in enumerate(locks) if not l]
    return idx, [[W[i][j] for j in idx] for i in idx]


def expected_full(W, locks):
    """The property's right-hand side: Pspec on the idle block, zero elsewhere; None if perm = 0."""
    idx, sub = idle_block(W, locks)
    if not idx:
        return None
    d, tab = pspec_exact(sub)
    if d == 0:
        return None
    n = len(W)
    out = [[Fraction(0)] * n for _ in range(n)]
    for a, i in enumerate(idx):
        for b, j in enumerate(idx):
            out[i][j] = tab[a][b]
    return out


def statement_errors(W, locks, P):
    """Evaluate the C02 statement on an implementation result P (list of lists of floats)."""
    exp = expected_full(W, locks)
    if exp is None:
        return None
    n = len(W)
    if len(P) != n or any(len(r) != n for r in P):
        return f"shape of P is not {n}x{n}"
    for i in range(n):
        for j in range(n):
            if (locks[i] or locks[j]) and P[i][j] != 0:
                return f"P[{i}][{j}] = {P[i][j]!r} on a busy row/column"
            if W[i][j] == 0 and P[i][j] != 0:
                return f"P[{i}][{j}] = {P[i][j]!r} where the weight is zero"
            if not close(P[i][j], exp[i][j]):
                return f"P[{i}][{j}] = {P[i][j]!r} but W_ij*perm(minor)/perm(W) = {exp[i][j]} ({float(exp[i][j])!r})"
    for i in range(n):
        if not locks[i]:
            if not close(sum(P[i]), 1):
                return f"row {i} of P sums to {sum(P[i])!r}"
            if not close(sum(P[r][i] for r in range(n)), 1):
                return f"column {i} of P sums to {sum(P[r][i] for r in range(n))!r}"
    return ""


# --------------------------------------------------------------------------- case generation helpers

def hall_ok(ks):
    m = len(ks)
    return all(sum(1 for k in ks if k > c) >= m - c for c in range(m))


def rand_ks(rng, m, blocks=None):
    """A matchable support vector (sorted), optionally with prescribed diagonal block sizes."""
    if blocks:
        ks = []
        start = 0
        for b in blocks:
            stop = start + b
            inner = sorted(rng.randrange(max(start + 1, 1), stop + 1) for _ in range(b))
            # make the block irreducible-ish and matchable: row t of the block reaches at least start+t+1
            inner = [max(k, start + t + 1) for t, k in enumerate(inner)]
            inner[-1] = stop
            ks += inner
            start = stop
        return ks
    while True:
        ks = [rng.randrange(1, m + 1) for _ in range(m)]
        if hall_ok(ks):
            return ks


def rand_weights(rng, ks, kind):
    m = len(ks)
    colkind = [rng.random() < 0.5 for _ in range(m)]  # True = wf column (mixed)
    W = []
    for r, k in enumerate(ks):
        row = []
        base = sorted((rng.randrange(1, 61) for _ in range(k)), reverse=rng.random() < 0.7)
        for c in range(k):
            if kind == "wf":
                w = base[c]
            elif kind == "doubled":
                w = 2 * rng.randrange(1, 31)
            elif kind == "mixed":
                w = base[c] if colkind[c] else 1
            elif kind == "rowconst":      # high-acceptance weight equal along the row: fast path with weights
                w = base[0]
            else:
                w = 1
            row.append(w)
        W.append(row)
    return W


class Batch:
    """Collects model requests with a callback that receives the model's answer."""

    def __init__(self):
        self.reqs = []
        self.cbs = []

    def add(self, req, cb):
        self.reqs.append(req)
        self.cbs.append(cb)

    def flush(self, runner):
        outs = runner.run(self.reqs)
        for req, out, cb in zip(self.reqs, outs, self.cbs):
            cb(req, out)
        n = len(self.reqs)
        self.reqs, self.cbs = [], []
        return n


# --------------------------------------------------------------------------- the check

def run(ctx):
    common.proof_stage(ctx, "C02", ["extract/c02.vo"])
    runner = common.runner_stage(ctx, "c02")
    if runner is None:
        return
    rng = ctx.rng
    quick = ctx.tier == "quick"
    B = Batch()
    stats = {"compared": 0, "disagreements": 0, "impl_raised_outside_domain": 0, "max_abs_err_vs_exact": 0.0,
             "tie_order_cases": 0, "tie_order_numpy_differs_from_stable": 0, "pspec_extracted_vs_python": 0}
    corr_budget = [3]

    def corr_fail(what, payload):
        stats["disagreements"] += 1
        if corr_budget[0] > 0:
            corr_budget[0] -= 1
            ctx.violation(f"correspondence model/implementation broken: {what}", payload, False)

    def stmt_fail(what, payload):
        ctx.violation(f"C02 statement fails on the implementation: {what}", payload, True)

    seen_sub = set()

    def check_pspec_extracted(sub):
        """extracted Coq Pspec == Python exact oracle (exact equality), once per distinct block"""
        key = tuple(tuple(r) for r in sub)
        if key in seen_sub or len(sub) > 7 or len(sub) == 0:
            return
        seen_sub.add(key)
        d, tab = pspec_exact(sub)
        if d == 0:
            return

        def cb(req, out, tab=tab, sub=sub):
            stats["pspec_extracted_vs_python"] += 1
            if dec_mat(out) != tab:
                corr_fail("extracted Pspec differs from the Python exact permanent oracle",
                          {"correspondence": "spec/PermS.v Pspec_table vs py oracle", "request": req, "model": out,
                           "python": enc_mat(tab)})
        B.add(f"pspec {len(sub)} {enc_mat(sub)}", cb)

    def inf_case(W, locks, desc, off=1, tie=False, compare_model=True):
        """One call of the real inf_retis: statement oracle + lock-step with the model."""
        st = mk_state(len(W), off)
        P, exc = real_inf(st, W, locks)
        idx, sub = idle_block(W, locks)
        exp = expected_full(W, locks)
        payload = {"case": desc, "offset": off, "W": W, "locks": list(locks), "kind": "inf_retis"}
        ctx.count(("inf", off, enc_mat(W), enc_locks(locks)), nontrivial=exp is not None)
        if exp is not None:
            if P is None:
                stmt_fail(f"inf_retis raised {exc} on a reachable matrix with non-zero permanent", payload)
            else:
                err = statement_errors(W, locks, P)
                if err:
                    stmt_fail(err, dict(payload, impl=P))
                else:
                    stats["max_abs_err_vs_exact"] = max(stats["max_abs_err_vs_exact"], max_err(P, exp))
            check_pspec_extracted(sub)
        else:
            if P is None:
                stats["impl_raised_outside_domain"] += 1
        if not compare_model or len(idx) > 7:
            return P
        req = f"inf {off} {enc_mat(W)} {enc_locks(locks)}"

        def cb(req, out, P=P, exc=exc, exp=exp, payload=payload):
            stats["compared"] += 1
            if exp is None:
                # perm = 0 or nothing idle: outside the property; only the error/no-error status of the
                # two sides is compared when the implementation's answer does not hinge on float residue
                if (out == "N") != (P is None) and exc != "nan":
                    stats["outside_domain_status_differs"] = stats.get("outside_domain_status_differs", 0) + 1
                return
            if out == "N" or out.startswith("ERR"):
                corr_fail("model returns None/ERR where the implementation returns a matrix",
                          dict(payload, request=req, model=out, impl=P))
                return
            Mo = dec_mat(out)
            if Mo != exp:
                corr_fail("extracted model differs from Pspec (exact)", dict(payload, request=req, model=out,
                                                                            expected=enc_mat(exp)))
            elif P is not None and not mats_close(P, Mo):
                corr_fail("implementation differs from the extracted model", dict(payload, request=req, model=out, impl=P))
        B.add(req, cb)
        if tie and exp is not None:
            def cbk(req, out, W=W, locks=locks, off=off, payload=payload):
                mk, pk = out.split(" ")
                mk = [] if mk == "-" else [int(x) for x in mk.split(",")]
                pk = [] if pk == "-" else [int(x) for x in pk.split(",")]
                mi = np.argsort(np.array(mk, dtype=np.int64)) if mk else []
                pi = np.argsort(np.array(pk, dtype=np.int64)) if pk else []
                stable = (list(mi) == sorted(range(len(mk)), key=lambda i: mk[i])
                          and list(pi) == sorted(range(len(pk)), key=lambda i: pk[i]))
                stats["tie_order_cases"] += 1
                if not stable:
                    stats["tie_order_numpy_differs_from_stable"] += 1
                tie_reqs.append((f"infw {off} {enc_mat(W)} {enc_locks(locks)} "
                                 f"{','.join(map(str, mi)) if len(mi) else '-'} {','.join(map(str, pi)) if len(pi) else '-'}",
                                 f"inf {off} {enc_mat(W)} {enc_locks(locks)}", payload))
            B.add(f"keys {off} {enc_mat(W)} {enc_locks(locks)}", cbk)
        return P

    tie_reqs = []

    # ------------------------------------------------------------------ A. exhaustive 0/1 staircases
    Nall = 4                      # every sequence of supports (= every row order) up to this many plus-ensembles
    Nmulti = 5 if quick else 6    # beyond: every support multiset x sampled row orders
    nperm = 2 if quick else 3
    for m in range(1, Nmulti + 1):
        if m <= Nall:
            seqs = list(itertools.product(range(1, m + 1), repeat=m))
        else:
            seqs = []
            for ms in itertools.combinations_with_replacement(range(1, m + 1), m):
                seqs.append(ms)
                for _ in range(nperm):
                    p = list(ms)
                    rng.shuffle(p)
                    seqs.append(tuple(p))
            seqs = sorted(set(seqs))
        for ks in seqs:
            W = stair_matrix(ks)
            for lk in itertools.product((0, 1), repeat=m + 1):
                locks = list(lk) + [1]
                inf_case(W, locks, {"family": "0/1 staircase", "ks": ks}, tie=(m <= 4 or rng.random() < 0.05))
                ctx.dist(f"staircase01_m{m}")
        B.flush(runner)

    # ------------------------------------------------------------------ B. weighted staircases (block / Glynn path)
    nw = 700 if quick else 6000
    for t in range(nw):
        kind = ("wf", "doubled", "mixed", "rowconst")[t % 4]
        if t % 3 == 0:
            # prescribed block sizes 2..9 (total <= 10 plus-ensembles)
            blocks = []
            while sum(blocks) < 2 or (rng.random() < 0.5 and sum(blocks) < 8):
                b = rng.choice((1, 2, 2, 3, 3, 4, 5, 6, 7, 8, 9))
                if sum(blocks) + b > (9 if quick else 10):
                    break
                blocks.append(b)
            if not blocks:
                blocks = [2]
            ks = rand_ks(rng, sum(blocks), blocks)
        else:
            ks = rand_ks(rng, rng.randrange(2, 8))
        m = len(ks)
        wts = rand_weights(rng, ks, kind)
        order = list(range(m))
        rng.shuffle(order)
        ks_p = [ks[i] for i in order]
        wts_p = [wts[i] for i in order]
        W = stair_matrix(ks_p, wts_p, minus_w=rng.choice((1, 1, 1, 2)))
        # lock subsets: none, and a few random ones
        lockss = [[0] * (m + 1) + [1]]
        for _ in range(2):
            lockss.append([int(rng.random() < 0.3) for _ in range(m + 1)] + [1])
        for locks in lockss:
            P = inf_case(W, locks, {"family": f"weighted {kind}", "ks": ks_p}, tie=(t % 5 == 0))
            ctx.dist(f"weighted_{kind}")
            if P is None or expected_full(W, locks) is None:
                continue
            # invariance under rescaling one path's weights (statement: unchanged)
            free = [i for i in range(1, m + 1) if not locks[i]]
            if free:
                i = rng.choice(free)
                c = rng.choice((2, 3, 5, 7, 10))
                W2 = [list(r) for r in W]
                W2[i] = [c * x for x in W2[i]]
                st = mk_state(len(W))
                P2, exc2 = real_inf(st, W2, locks)
                ctx.count(("scale", enc_mat(W), enc_locks(locks), i, c))
                if P2 is None:
                    stmt_fail(f"inf_retis raised {exc2} after rescaling row {i} by {c}",
                              {"kind": "inf_retis", "W": W2, "locks": locks, "offset": 1, "case": "rescaled row"})
                elif not mats_close(P2, P):
                    stmt_fail(f"P changes when the weights of path {i} are multiplied by {c}",
                              {"kind": "scale", "W": W, "locks": locks, "row": i, "factor": c, "offset": 1, "impl": P, "impl_scaled": P2})
                # ... also by very small / very large (dyadic, hence exact) factors, one row and all rows
                if t % 4 == 0:
                    for tag, factors in (("one tiny", {i: 2.0 ** -40}), ("one huge", {i: 2.0 ** 40}),
                                         ("all tiny", {r: 2.0 ** -(30 + r) for r in range(1, m + 1)}),
                                         ("all huge", {r: 2.0 ** (30 + r) for r in range(1, m + 1)})):
                        W3 = [[factors.get(r, 1) * x for x in row] for r, row in enumerate(W)]
                        P3, exc3 = real_inf(mk_state(len(W)), W3, locks)
                        ctx.count(("scale-extreme", enc_mat(W), enc_locks(locks), tag))
                        if P3 is None:
                            stmt_fail(f"inf_retis raised {exc3} after rescaling ({tag}) the weights of whole paths",
                                      {"kind": "inf_retis", "W": W3, "locks": locks, "offset": 1, "case": "rescaled rows " + tag})
                        elif not mats_close(P3, P):
                            stmt_fail(f"P changes when the weights of whole paths are rescaled ({tag}: factors {factors})",
                                      {"kind": "inf_retis", "W": W3, "locks": locks, "offset": 1, "case": "rescaled rows " + tag,
                                       "impl_unscaled": P, "impl_scaled": P3})
        if t % 200 == 199:
            B.flush(runner)
    B.flush(runner)

    # ------------------------------------------------------------------ C. each method directly + code paths agree
    def direct_cases():
        out = []
        # sorted idle blocks of staircases (what inf_retis hands to the helpers)
        for m in range(1, 5 if quick else 6):
            for ms in itertools.combinations_with_replacement(range(1, m + 1), m):
                if hall_ok(ms):
                    out.append((list(ms), None))
        for _ in range(150 if quick else 1200):
            ks = sorted(rand_ks(rng, rng.randrange(2, 7)))
            out.append((ks, rand_weights(rng, ks, rng.choice(("wf", "doubled", "mixed", "rowconst", "ones")))))
        return out

    st = mk_state(3)
    for ks, wts in direct_cases():
        m = len(ks)
        S = [[(1 if wts is None else wts[r][c]) if c < ks[r] else 0 for c in range(m)] for r in range(m)]
        d, tab = pspec_exact(S)
        A = np.array(S, dtype=float)
        desc = {"kind": "direct", "S": S}
        check_pspec_extracted(S)
        # quick_prob (valid as the answer only when every row's non-zero weights are equal)
        qp = impl_mat(st.quick_prob(A))
        rowconst = all(len({x for x in r if x}) <= 1 for r in S)
        ctx.count(("quick", enc_mat(S)))
        if rowconst and not mats_close(qp, tab):
            stmt_fail("quick_prob differs from W_ij*perm(minor)/perm(W) on an equal-weight staircase", dict(desc, impl=qp))

        def cb_q(req, out, qp=qp, desc=desc):
            stats["compared"] += 1
            if not mats_close(qp, dec_mat(out)):
                corr_fail("quick_prob: implementation differs from the model", dict(desc, request=req, model=out, impl=qp))
        B.add(f"quick {enc_mat(S)}", cb_q)
        # find_blocks, both offsets that occur
        for off, SS in ((0, S), (1, [[1] + [0] * m] + [[0] + r for r in S])):
            fb = st.find_blocks(np.array(SS, dtype=float), off)
            fbs = "S" if isinstance(fb, tuple) else (",".join(f"{a}:{b}:{c}" for a, b, c in fb) if fb else "-")
            ctx.count(("fb", off, enc_mat(SS)))

            def cb_f(req, out, fbs=fbs, desc=desc):
                stats["compared"] += 1
                if out != fbs:
                    corr_fail("find_blocks: implementation differs from the model", dict(desc, request=req, model=out, impl=fbs))
            B.add(f"fb {enc_mat(SS)} {off}", cb_f)
        if m >= 2:
            # permanent_prob on the whole matrix: the 'permanent' code path
            pp = impl_mat(st.permanent_prob(A))
            ctx.count(("pp", enc_mat(S)))
            if not mats_close(pp, tab):
                stmt_fail("permanent_prob differs from W_ij*perm(minor)/perm(W)", dict(desc, impl=pp))

            def cb_p(req, out, pp=pp, desc=desc, tab=tab):
                stats["compared"] += 1
                if out == "N" or dec_mat(out) != tab:
                    corr_fail("permanent_prob: model differs from Pspec", dict(desc, request=req, model=out))
                elif not mats_close(pp, dec_mat(out)):
                    corr_fail("permanent_prob: implementation differs from the model", dict(desc, request=req, model=out, impl=pp))
            if m <= 7:
                B.add(f"pp {enc_mat(S)}", cb_p)
            # the three code paths on the same matrix: inf_retis (fast or block-wise), block-wise by hand, permanent
            Wfull = [[0] * (m + 1) for _ in range(m + 1)]
            for r in range(m):
                for c in range(m):
                    Wfull[r][c] = S[r][c]
            Pi, exc = real_inf(mk_state(m + 1, 0), Wfull, [0] * m + [1])
            if Pi is None:
                stmt_fail(f"inf_retis raised {exc} on a matchable staircase", dict(desc, kind="inf_retis", W=Wfull, locks=[0] * m + [1], offset=0))
            else:
                Pi = [r[:m] for r in Pi[:m]]
                blocks = st.find_blocks(A, 0)
                Pb = [[0.0] * m for _ in range(m)]
                for a, b, _dir in blocks:
                    sub = A[a:b, a:b]
                    tmp = np.ones((1, 1)) if b - a == 1 else st.permanent_prob(sub)
                    for r in range(a, b):
                        for c in range(a, b):
                            Pb[r][c] = float(tmp[r - a][c - a])
                if not (mats_close(Pi, pp) and mats_close(Pb, pp)):
                    stmt_fail("fast / block-wise / permanent code paths disagree on the same matrix",
                              dict(desc, inf_retis=Pi, blockwise=Pb, permanent=pp))
        # fast_glynn_perm
        g = float(st.fast_glynn_perm(A))
        ctx.count(("glynn", enc_mat(S)))
        if abs(g - float(d)) > 1e-11 * max(1.0, abs(float(d))):
            stmt_fail(f"fast_glynn_perm = {g!r}, permanent = {d}", dict(desc, impl=g))

        def cb_g(req, out, g=g, d=d, desc=desc):
            stats["compared"] += 1
            if out == "N" or common.parse_q(out) != d:
                corr_fail("fast_glynn_perm: model differs from the permanent", dict(desc, request=req, model=out, perm=str(d)))
        if m <= 8:
            B.add(f"glynn {enc_mat(S)}", cb_g)
        ctx.dist("direct_method_calls")
    B.flush(runner)

    # ------------------------------------------------------------------ D. prob after real add_traj / swap / lock / unlock
    nseq = 60 if quick else 500
    for t in range(nseq):
        m = rng.randrange(1, 6)
        n = m + 2
        rs = mk_full_state(m + 1)
        assert rs.n == n and rs._offset == 1
        ops = []
        Wcur = [[0] * n for _ in range(n)]
        lk = [1] * n
        weighted = t % 2 == 1

        def new_row(e):
            """weights of a new path accepted in plus ensemble e (0-based): staircase reaching at least e"""
            k = rng.randrange(e + 1, m + 1)
            if weighted:
                return [rng.randrange(1, 61) for _ in range(k)] + [0] * (m - k) + [0]
            return [1] * k + [0] * (m - k) + [0]

        def do_prob(tag):
            P, exc = call(lambda: rs.prob)
            P = impl_mat(P) if P is not None else None
            exp = expected_full(Wcur, lk)
            payload = {"kind": "sequence", "ops": list(ops), "m": m, "W": [list(r) for r in Wcur], "locks": list(lk), "offset": 1}
            ctx.count(("seq", tuple(ops)), nontrivial=exp is not None)
            if exp is not None:
                if P is None:
                    stmt_fail(f"prob raised {exc} after {tag}", payload)
                else:
                    err = statement_errors(Wcur, lk, P)
                    if err:
                        stmt_fail(f"after {tag}: {err}", dict(payload, impl=P))
            return P

        results = []
        # initial loading (the order load_paths uses): every ensemble gets its path
        rs.add_traj(-1, "p-", (1.0,))
        ops.append("A:-1:1")
        Wcur[0] = [1] + [0] * (n - 1)
        lk[0] = 0
        results.append(do_prob("add_traj(-1)"))
        for e in range(m):
            v = new_row(e)
            rs.add_traj(e, f"p{e}", tuple(float(x) for x in v))
            ops.append(f"A:{e}:{','.join(map(str, v))}")
            Wcur[e + 1] = [0] + v
            lk[e + 1] = 0
            results.append(do_prob(f"add_traj({e})"))
        # steps of the sampler: pick = swap + lock ; completion = add_traj (row + unlock)
        busy = []
        for _ in range(rng.randrange(3, 12)):
            P = results[-1]
            idle = [i for i in range(n - 1) if not lk[i]]
            if idle and P is not None and (not busy or rng.random() < 0.6):
                cand = [(i, j) for i in idle for j in idle if P[i][j] > 0]
                if not cand:
                    break
                traj, ens = rng.choice(cand)
                rs.swap(traj, ens)
                ops.append(f"S:{traj}:{ens}")
                Wcur[traj], Wcur[ens] = Wcur[ens], Wcur[traj]
                if rng.random() < 0.15:
                    # prob between swap and lock returns the cached matrix (cache is not invalidated by swap)
                    Pc, _ = call(lambda: rs.prob)
                    ops.append("P")
                    results.append(impl_mat(Pc) if Pc is not None else None)
                rs.lock(ens)
                ops.append(f"L:{ens}")
                results.append("1")
                lk[ens] = 1
                busy.append(ens)
                ops.append("P")
                results.append(do_prob(f"pick({traj},{ens})"))
            elif busy:
                ens = busy.pop(rng.randrange(len(busy)))
                if ens == 0:
                    rs.add_traj(-1, "q-", (1.0,))
                    ops.append("A:-1:1")
                    Wcur[0] = [1] + [0] * (n - 1)
                else:
                    v = new_row(ens - 1)
                    rs.add_traj(ens - 1, "q", tuple(float(x) for x in v))
                    ops.append(f"A:{ens - 1}:{','.join(map(str, v))}")
                    Wcur[ens] = [0] + v
                lk[ens] = 0
                results.append(do_prob(f"add_traj({ens - 1})"))
        fin_state = enc_mat([[int(x) for x in r] for r in np.abs(rs.state)])
        fin_locks = enc_locks(rs._locks)
        req = f"seq 1 {n} " + " ".join(ops)

        def cb_s(req, out, results=results, ops=list(ops), fin_state=fin_state, fin_locks=fin_locks):
            stats["compared"] += 1
            parts = out.split("|")
            res_ops = [o for o in ops if not o.startswith("S:")]
            mres = [p for o, p in zip(ops, parts) if not o.startswith("S:")]
            payload = {"correspondence": "rx_* state machine vs REPEX_state", "request": req, "model": out}
            if len(parts) != len(ops) + 2 or parts[-2] != fin_state or parts[-1] != fin_locks:
                corr_fail("state/lock vector after the operation sequence differs", dict(payload, impl_state=fin_state, impl_locks=fin_locks))
                return
            for o, mo, io in zip(res_ops, mres, results):
                if o.startswith("L:") or o.startswith("U:"):
                    ok = mo == io
                elif io is None:
                    ok = mo == "N"
                else:
                    ok = mo != "N" and mats_close(io, dec_mat(mo))
                if not ok:
                    corr_fail(f"result of op {o} differs", dict(payload, op=o, impl=io, model_op=mo))
                    return
        B.add(req, cb_s)
        ctx.dist("state_sequences")
    B.flush(runner)

    # ------------------------------------------------------------------ tie-order independence with numpy's actual argsort answers
    if tie_reqs:
        outs = runner.run([r for rw, rs_, _ in tie_reqs for r in (rw, rs_)])
        for k, (rw, rs_, payload) in enumerate(tie_reqs):
            a, b = outs[2 * k], outs[2 * k + 1]
            stats["compared"] += 1
            if a != b:
                corr_fail("model result depends on the argsort tie order (numpy's answer vs stable order)",
                          dict(payload, request_numpy_order=rw, request_stable=rs_, model_numpy_order=a, model_stable=b))

    # ------------------------------------------------------------------ E: the largest blocks that must still be exact (11, 12)
    def perm_float(M):
        """Glynn's formula vectorised in float64 (accurate to ~1e-12 relative for these sizes)."""
        M = np.asarray(M, dtype=float)
        k = M.shape[0]
        if k == 0:
            return 1.0
        signs = np.array(list(itertools.product([1.0], *([[1.0, -1.0]] * (k - 1)))))
        return float(np.sum(np.prod(signs, axis=1) * np.prod(signs @ M, axis=1)) / 2 ** (k - 1))

    big_cases = 0
    for m in (11, 12):
        for rep in range(2 if quick else 4):
            n = m + 2
            W = [[0] * n for _ in range(n)]
            W[0][0] = 1
            for r in range(1, m + 1):
                for c in range(1, m + 1):
                    W[r][c] = rng.randint(1, 6)
            locks = [0] * (n - 1) + [1]
            P, exc = real_inf(mk_state(n), W, locks)
            big_cases += 1
            ctx.count(("big_block", m, rep), nontrivial=True)
            ctx.dist(f"big_block:{m}")
            if P is None:
                ctx.violation(f"C02 statement fails on the implementation: inf_retis raised {exc} on a full {m}x{m} weighted block",
                              {"kind": "inf_retis", "W": W, "locks": locks, "offset": 1}, True)
                continue
            sub = np.array([row[1:m + 1] for row in W[1:m + 1]], dtype=float)
            tot = perm_float(sub)
            worst = 0.0
            for a in range(m):
                for b in range(m):
                    minor = np.delete(np.delete(sub, a, axis=0), b, axis=1)
                    ref = sub[a, b] * perm_float(minor) / tot
                    worst = max(worst, abs(float(P[a + 1][b + 1]) - ref))
            if worst > 1e-6:
                ctx.violation(f"C02 statement fails on the implementation: a {m}x{m} weighted block differs from the permanent ratios by {worst:.2e} "
                              f"(blocks up to 12 must be computed exactly)", {"kind": "inf_retis", "W": W, "locks": locks, "offset": 1, "max_abs_err": worst}, True)
    stats["big_blocks_vs_float_glynn"] = big_cases

    # ------------------------------------------------------------------ E2: non-uniform blocks of more than 12 paths go to the
    # Monte-Carlo random_prob: outside the exactness claim, but the consequences the statement draws must still hold exactly
    # (doubly stochastic: every sampled state is an assignment; zero wherever the weight is zero: such assignments have
    # weight zero) and the estimate must be near the permanent ratios (loose statistical bound, 10 000 sweeps)
    mc_cases = 0
    for m in (13, 14):
        for rep in range(1 if quick else 3):
            n = m + 2
            ks = sorted(min(m, r + 2 + rng.randint(0, 3)) for r in range(m))
            ks[-1] = ks[-2] = m
            W = [[0] * n for _ in range(n)]
            W[0][0] = 1
            for r in range(1, m + 1):
                for c in range(1, ks[r - 1] + 1):
                    W[r][c] = rng.randint(1, 8)
            order = list(range(1, m + 1))
            rng.shuffle(order)
            W = [W[0]] + [W[i] for i in order] + [W[n - 1]]
            locks = [0] * (n - 1) + [1]
            st_mc = mk_state(n)
            st_mc.rgen = np.random.default_rng(rng.randrange(10 ** 6))     # random_prob draws from the scheduler's generator
            P, exc = real_inf(st_mc, W, locks)
            mc_cases += 1
            ctx.count(("mc_block", m, rep), nontrivial=True)
            ctx.dist(f"mc_block:{m}")
            payload = {"kind": "inf_retis", "W": W, "locks": locks, "offset": 1, "case": "Monte-Carlo block"}
            if P is None:
                ctx.violation(f"C02 statement fails on the implementation: inf_retis raised {exc} on a {m}x{m} weighted staircase block", payload, True)
                continue
            Pf = np.array([[float(x) for x in row] for row in P])
            Wf = np.array(W, dtype=float)
            bad0 = [(a, b, Pf[a][b]) for a in range(n) for b in range(n) if Wf[a][b] == 0 and Pf[a][b] != 0]
            if bad0:
                ctx.violation(f"C02 statement fails on the implementation: P is not zero where the weight is zero on a {m}x{m} block "
                              f"({len(bad0)} cells, e.g. P[{bad0[0][0]}][{bad0[0][1]}] = {bad0[0][2]:.4f})", dict(payload, cells=bad0[:10]), True)
                continue
            rs = np.abs(Pf[:n - 1, :n - 1].sum(axis=1) - 1).max()
            cs = np.abs(Pf[:n - 1, :n - 1].sum(axis=0) - 1).max()
            if rs > 1e-9 or cs > 1e-9 or Pf.min() < 0:
                ctx.violation(f"C02 statement fails on the implementation: P of a {m}x{m} block is not doubly stochastic "
                              f"(row error {rs:.2e}, column error {cs:.2e}, min {Pf.min():.2e})", payload, True)
                continue
            sub = Wf[1:m + 1, 1:m + 1]
            tot = perm_float(sub)
            worst = 0.0
            for a in range(m):
                for b in range(m):
                    if sub[a, b] == 0:
                        continue
                    minor = np.delete(np.delete(sub, a, axis=0), b, axis=1)
                    worst = max(worst, abs(Pf[a + 1][b + 1] - sub[a, b] * perm_float(minor) / tot))
            stats[f"mc_block_{m}_max_abs_err"] = max(stats.get(f"mc_block_{m}_max_abs_err", 0.0), round(worst, 4))
            if worst > 0.4:
                ctx.violation(f"C02 statement fails on the implementation: the Monte-Carlo estimate for a {m}x{m} block is {worst:.2f} away from the "
                              f"permanent ratios (10 000 sweeps give about 0.1)", dict(payload, max_abs_err=worst), True)
    stats["mc_blocks"] = mc_cases

    # ------------------------------------------------------------------ E3: an equal-weight block of MORE than 12 paths inside a W
    # that is not equal-weight as a whole (one small wire-fencing block next to it): the closed form (quick_prob) is exact for
    # any size (theorems C02_quick_prob_eq_Pspec_staircase / C02_Pspec_blocks), so P must equal the permanent ratios to rounding
    # and no Monte-Carlo draw may be involved.  Oracle: exact integer permanents of 0/1 staircases (product formula on the sorted
    # supports, minors are staircases again), independent of quick_prob's column sweep.
    from fractions import Fraction as Fr

    def stair_perm(ks):
        p = 1
        for i, k in enumerate(sorted(ks)):
            if k - i <= 0:
                return 0
            p *= k - i
        return p

    eq_cases = 0
    for m in (13, 14, 16):
        for rep in range(1 if quick else 4):
            small = 2 + rep % 2                       # the non-uniform block: 2 or 3 rows, full, random weights
            n = 1 + small + m + 1
            ks = sorted(min(m, r + 1 + rng.randint(0, 4)) for r in range(m))
            ks[-1] = m
            for i in range(m):
                ks[i] = min(m, max(ks[i], i + 2))         # no tight prefix: the m paths form ONE block
            mult = [rng.choice((1, 1, 2, 3)) for _ in range(m)]
            W = [[0] * n for _ in range(n)]
            W[0][0] = 1
            while True:
                for r in range(1, small + 1):
                    for c in range(1, small + 1):
                        W[r][c] = rng.randint(1, 9)
                if any(len(set(W[r][1:small + 1])) > 1 for r in range(1, small + 1)):
                    break
            for r in range(m):
                for c in range(1, small + ks[r] + 1):
                    W[1 + small + r][c] = mult[r]
            order = list(range(1, n - 1))
            rng.shuffle(order)
            Wsh = [W[0]] + [W[i] for i in order] + [W[n - 1]]
            locks = [0] * (n - 1) + [1]
            st_eq = mk_state(n)
            gen = np.random.default_rng(12345)
            st_eq.rgen = gen
            before = gen.bit_generator.state["state"]["state"]
            P, exc = real_inf(st_eq, Wsh, locks)
            eq_cases += 1
            ctx.count(("equal_block_in_mixed_W", m, rep), nontrivial=True)
            ctx.dist(f"equal_block_in_mixed_W:{m}")
            payload = {"kind": "inf_retis", "W": Wsh, "locks": locks, "offset": 1,
                       "case": f"equal-weight staircase block of {m} paths next to a non-uniform block of {small}"}
            if P is None:
                ctx.violation(f"C02 statement fails on the implementation: inf_retis raised {exc} on a W made of a non-uniform {small}x{small} "
                              f"block and an equal-weight {m}x{m} staircase block", payload, True)
                continue
            if gen.bit_generator.state["state"]["state"] != before:
                ctx.violation(f"C02 statement fails on the implementation: computing P for an equal-weight block of {m} paths (closed form, exact) "
                              "consumed random numbers of the scheduler's generator: the block went to the Monte-Carlo estimate", payload, True)
                continue
            tot = stair_perm(ks)
            worst, where = 0.0, None
            for a in range(m):
                ra = order.index(1 + small + a) + 1
                for b in range(m):
                    if b < ks[a]:
                        minor = [k - 1 if k > b else k for j, k in enumerate(ks) if j != a]
                        ref = Fr(stair_perm(minor), tot)
                    else:
                        ref = Fr(0)
                    err = abs(float(P[ra][1 + small + b]) - float(ref))
                    if err > worst:
                        worst, where = err, (ra, 1 + small + b, float(P[ra][1 + small + b]), float(ref))
            stats["equal_block_max_abs_err"] = max(stats.get("equal_block_max_abs_err", 0.0), worst)
            if worst > 1e-9:
                ctx.violation(f"C02 statement fails on the implementation: an equal-weight block of {m} paths differs from the permanent ratios by "
                              f"{worst:.2e} (P[{where[0]}][{where[1]}] = {where[2]:.6f}, exact {where[3]:.6f}); the closed form is exact for every size",
                              dict(payload, max_abs_err=worst), True)
    stats["equal_blocks_in_mixed_W"] = eq_cases

    # ------------------------------------------------------------------ F: the P every pick of the real scheduler uses (system level)
    import repex_runs as RR
    import sysharness as H
    sys_cases = [c for c in RR.gen_cases("quick", rng) if c["kind"] in ("single", "random")][: (24 if quick else 80)]
    nsys = 0
    for case, (tag, res) in zip(sys_cases, H.run_many(RR.run_case, sys_cases, jobs=14, timeout=900)):
        ctx.dist("system_runs")
        if tag != "ok":
            corr_fail(f"system harness failure: {str(res)[:200]}", {"case": case})
            continue
        nsys += res["stats"]["treats"]
        ctx.count(("system", repr(case)), nontrivial=res["stats"]["treats"] > 0, n=res["stats"]["treats"])
        if res["C02"]:
            ctx.violation(f"C02 statement fails on the implementation: {res['C02'][0][:300]}", {"case": case, "problems": res["C02"][:5]}, True)
            break
    stats["system_picks_checked_steps"] = nsys

    # ------------------------------------------------------------------ observation O1 (outside the property)
    o1 = []
    for Wn in ([[1, 0, 0, 0, 0], [0, 1, 0, 1, 0], [0, 1, 1, 1, 0], [0, 1, 1, 1, 0], [0, 0, 0, 0, 0]],
               [[1, 0, 0, 0, 0], [0, 3, 0, 2, 0], [0, 1, 1, 0, 0], [0, 2, 1, 5, 0], [0, 0, 0, 0, 0]]):
        P, exc = real_inf(mk_state(5), Wn, [0, 0, 0, 0, 1])
        exp = expected_full(Wn, [0, 0, 0, 0, 1])
        o1.append({"W": Wn, "impl": "raised " + exc if P is None else ("equals Pspec" if exp and mats_close(P, exp) else "differs from Pspec")})
    ctx.cov["observations"] = {"O1_non_staircase_rows (outside C02's quantifier, not a violation)": o1}

    for k in ("inf 1 1,0,0,0;0,1,1,0;0,1,1,0;0,0,0,0 0001", "pp 3,2,1;5,4,0;4,3,2"):
        ctx.sample({"request": k, "model": runner.run([k])[0]})
    stats["max_abs_err_vs_exact"] = float(stats["max_abs_err_vs_exact"])
    ctx.cov["rule"] = (
        f"A: every 0/1 staircase with up to {Nall} plus-ensembles in every row order, every support multiset with up to {Nmulti} "
        f"plus-ensembles x {nperm} sampled row orders, each x all 2^(m+1) lock subsets; B: {nw} seeded random positive integer "
        "weight matrices (1..60; wf-like, doubled, mixed sh/wf columns, row-constant) with prescribed block sizes 2..9 or random "
        "matchable supports, shuffled rows, 3 lock subsets each, plus one rescaled copy; C: every method called directly on sorted "
        "blocks; D: prob after real add_traj/swap/lock sequences. A case is distinct by (matrix, locks) / request line; it is "
        "non-trivial when the idle block has a non-zero permanent (the property's domain). Model comparisons only for idle blocks "
        "<= 7; larger ones use the exact Python permanent only. E3: equal-weight staircase blocks of 13, 14 and 16 paths next to a "
        "non-uniform block (W not equal-weight as a whole): exact product-formula permanents, tolerance 1e-9, and the scheduler's "
        "generator must not be touched.")
    ctx.cov["correspondence"] = stats
    ctx.cov["trusted_base"] += [
        "extraction: ExtrOcamlBasic only; ocaml/util.ml + ocaml/c02_driver.ml",
        "py/checks/c02.py generators, encoders, the exact integer permanent (third oracle), tolerance 1e-12",
        "random_prob (blocks > 12, Monte Carlo) is a Section variable of the model: outside the exactness claim",
        "Glynn's formula = permanent is proved for n <= 7 symbolically and checked by computation (model vs exact permanent, sizes <= 8) beyond; floating point not modelled",
    ]
    ctx.assumptions += [
        "weights are small positive integers so every ==/!= test of the code is exact; results compared within 1e-12",
        "reachable family: [0-] row has only column 0, plus rows are prefix staircases, ghost row/column zero and locked",
        "np.argsort tie order: model uses the stable order; independence is a bounded theorem (0/1 up to 4, weighted {1,2} up to 3 plus-ensembles) and is re-checked with numpy's actual answers in this run",
    ]


def replay(doc):
    print(json.dumps(doc, indent=1)[:4000])
    rp = doc.get("replay", {})
    kind = rp.get("kind")
    if kind in ("inf_retis", "scale", "sequence") and "W" in rp:
        W, locks, off = rp["W"], rp["locks"], rp.get("offset", 1)
        P, exc = real_inf(mk_state(len(W), off), W, locks)
        exp = expected_full(W, locks)
        print("implementation now:", "raised " + str(exc) if P is None else P)
        print("W_ij*perm(minor)/perm(W):", None if exp is None else [[str(x) for x in r] for r in exp])
        if exp is None:
            return 0
        if P is None:
            return 1
        err = statement_errors(W, locks, P)
        if kind == "scale" and not err:
            W2 = [list(r) for r in W]
            W2[rp["row"]] = [rp["factor"] * x for x in W2[rp["row"]]]
            P2, _ = real_inf(mk_state(len(W), off), W2, locks)
            if P2 is None or not mats_close(P2, P):
                err = "P changes under rescaling of one row"
        print("statement:", err or "holds")
        return 1 if err else 0
    req = rp.get("request")
    if req:
        print("model now answers:", common.Runner("c02").run([req]))
    return 0
