"""C12 — every engine returns the trajectory it actually ran.

Theorems: coq/theorems/C12.v (model coq/model/PollM.v, proofs coq/proofs/PollP.v).
Tie: the REAL engine classes (LAMMPSEngine, CP2KEngine, GromacsEngine through the fake
programs py/plugins/fake_{lmp,cp2k,gmx}.py; ASEEngine, TurtleMDEngine and the lattice plug-in
in-process) are run on generated phase points / interfaces / limits / arrival schedules / exit
codes; the outcome (returned / raised, success, every frame's order, config index, vel_rev,
whether the program had to be killed) is compared with the extracted model given the same
trajectory and schedule; the property's own statement is evaluated on what the implementation
returned (every frame's order parameter recomputed from the file + index it references with
the engine's own calculate_order, first frame, stop rule, success flag, retrace, no live
child, no live process of the external program — also when the configured command is a
launcher script that runs the program as its child —, raise on failure).
"""
import importlib.util  # noqa: F401
import itertools
import json
import math
import os
import re
import shutil

import common

ENGINES_EXT = ["lammps", "cp2k", "gromacs"]
ENGINES_IN = ["ase", "turtlemd", "plugin"]

META = {
    "id": "C12",
    "level": "proof",
    "technique": "Coq theorems over executable models of the engines' polling/pairing loops and of the add_to_path stop rule (all order streams, all arrival schedules) + lock-step of the extracted model against the real engine classes driven through fake MD programs under hand-shake-synchronised schedules (LAMMPS, CP2K, GROMACS; program started directly and through launcher scripts) and in-process (ASE, TurtleMD, plug-in) + direct oracle (recompute every frame's order parameter from the file it references)",
    "text": ("Unbounded theorems (any order function, interfaces, limit, trajectory, arrival schedule, exit code) about executable models of "
             "EngineBase.add_to_path/propagate (prefix until the first frame outside or the maxlen-th, success iff outside, first frame = given "
             "point), of the LAMMPS polling loop (any schedule gives the stop-rule prefix of the un-chunked trajectory, frame k paired with box k "
             "and config index k; refutation witness for the old pop() pairing), of the CP2K loop (two readers, min(len) pairing), of the GROMACS "
             "TRR polling state machine (any sequence of observed file sizes; refutation witness for the double velocity negation with "
             "reverse=True), of the ASE/TurtleMD/plug-in subcycle loop (also with the calculate_order call site and its fall-back to the configuration file spelled out), of 'non-zero exit without a stop never returns normally', of "
             "backward-retraces-forward for abstract reversible dynamics, and of process groups (killpg stops every process of the group, hence the "
             "program a launcher leading the group has started; signalling the leader alone does not: C12_signal_leader_only_refuted). The models are tied to /repo by running the real engine classes against "
             "fake lmp/cp2k/gmx executables (real file formats, synchronised arrival schedules incl. half-written frames, SIGTERM, exit codes, "
             "varying boxes) and in-process (ASE harmonic velocity Verlet, TurtleMD Langevin double well, lattice plug-in) and comparing with the "
             "extracted model; the statement itself is evaluated on every returned path. Clause 'the external program is stopped when "
             "propagation ends': for every external engine the configured command is, in part of the scenarios, a launcher (sh wrapper script "
             "that runs the fake program as ITS child, in the foreground or in the background + wait, without exec, and passes the exit status "
             "on), under hand-shake schedules, failing programs and as a free-running 120-frame program with an early crossing; after propagate "
             "has returned or raised, no process started for that propagation (direct child, launcher, program behind the launcher, re-parented "
             "or not) may be alive after a grace period of 3 s and nothing may write into the exe directory any more. Clause 'the k-th frame's stored "
             "order parameter equals the one recomputed from the k-th configuration it references': every stored frame is extracted from the file + "
             "index it references and its order parameter is recomputed twice, by the engine's own calculate_order on the extracted file and by "
             "the order function applied directly to that frame's positions, velocities (times -1 for vel_rev) and box (a frame whose file has no "
             "box entry has the engine's own box), i.e. also without EngineBase.calculate_order's 'an argument is None -> re-read system.config[0]' "
             "route. The phase point handed to propagate is, in part of the scenarios of every engine whose format allows it, a configuration file "
             "WITHOUT the optional entries: xyz comment line without 'Box:' (TurtleMD takes the box from [engine.box], CP2K from its input template), "
             "xyz lines without velocity columns, .g96 without VELOCITY block, ASE Atoms without momenta and/or without cell (velocities then read "
             "as zeros); exhaustively combined with direction, vel_rev of the given point, subcycles and the place of the crossing for the "
             "in-process engines, with every order function and both directions for CP2K and GROMACS. "
             "Clause 'an engine failure raises instead of returning a silently truncated path': the return code of the external program is SIGNED "
             "(subprocess reports -N for a program killed by signal N) and the failure test of the three engines is modelled explicitly "
             "(PollM.exit_failed: strict = `return_code != 0` / `poll != 0` as in /repo; the variant `> 0` is a model parameter): "
             "C12_failure_test_is_nonzero, C12_signal_death_is_failure, C12_failure_tests_agree_on_exit_statuses (the two tests agree on every "
             "exit status >= 0, which is why scenarios with positive exit codes cannot tell them apart), C12_{lammps,cp2k,gromacs}_failure_raises "
             "(any code <> 0), C12_signal_death_raises (any negative code, all three engines, any schedule, died before any output or later) and "
             "the refutations C12_{gromacs,lammps,cp2k}_signal_death_gt0_refuted (killed by SIGKILL after frames without a stop: the `> 0` variant "
             "returns that truncated path, the code as it is raises). On the implementation, for EVERY external engine the fake program dies in each "
             "of five ways - exit status 1, exit status 2, killed by SIGKILL, by SIGSEGV, by a SIGTERM infretis did not send (the fake kills itself "
             "with the signal's default disposition, so the engine's Popen sees -9 / -11 / -15 and no SIGTERM marker is left) - at each stage: "
             "before any output, after k = 0..5 complete frames (frames arriving one by one or at once), in the middle of frame k = 0..2 (CP2K: "
             "also with only one of its two files torn), directly and behind both launcher scripts (the shell turns the signal into status 128+N); "
             "oracle: whenever the stop rule does not fire among the complete frames, propagate must raise - returning a path that neither crossed "
             "an interface nor reached the length limit is a VIOLATION with the scenario as replay; the model is compared with the signed code. "
             "Quantifier 'timing of the external program's output relative to polling' at BYTE granularity (CP2K, whose two text files are read on "
             "the fly by engineparts.xyz_reader): the stand-in cp2k flushes <project>-pos-1.xyz and <project>-vel-1.xyz at ARBITRARY byte positions, "
             "independently for the two files (control key unit = 'bytes'), a poll of the real CP2KEngine.propagate sees the file ending there, the next "
             "poll sees the same state again (the program pauses longer than the polling interval), then the output is completed and the program ends "
             "normally: every byte offset of one whole frame for each of the two files in turn (2 atoms; the other file far ahead / one frame ahead / "
             "torn in the same frame), the file ending inside the LAST NUMBER of the last atom line (1, 2, 5, 8, 12 characters of the line missing, or "
             "only its newline) of every frame of the run with both files torn at different characters, seeded random byte increments of both files "
             "(1-3 atoms), the program dying (5 ways) while the last number of a frame is half written, and free-running programs (real sleeps, pause "
             "10 x the polling interval); thorough tier: every offset of frames 0-3 and systems of 1 and 3 atoms. All coordinates and velocities of "
             "these scenarios are odd multiples of 1/512 off a quarter: exact in binary, in the 10 decimals CP2K writes and in the 9 decimals of the "
             "engine's own trajectory file, with significant digits up to the 9th decimal, so a number parsed from a half-written line is a "
             "different number. Oracle (tolerance 0): the path returned by propagate is, frame by frame, exactly what the program wrote (positions, "
             "velocities, box), has the length up to the first crossing / the length limit the scripted dynamics implies, reports success iff it "
             "crossed, and a normally ending program makes propagate neither raise nor leave it running."),
    "note": ("Engines covered by the correspondence: LAMMPS, CP2K, GROMACS (real engine classes against fake lmp/cp2k/gmx executables), ASE, "
             "TurtleMD, plug-in (in-process); AMS is not covered. Engine failures: the fake programs die by exit status or by killing themselves "
             "with SIGKILL / SIGSEGV / SIGTERM (py/plugins/fakemd.py, control key exit_signal; RLIMIT_CORE 0); a death by signal behind a launcher "
             "script is seen by the engine as the shell's exit status 128+N (positive), directly as -N; which signal numbers the kernel maps to "
             "which negative code is subprocess' contract, observed, not proved; in-process engines have no external program (no failure scenarios). "
             "A stop among the frames that were completely written before the death makes a normal return legitimate (LAMMPS/CP2K read what is "
             "left after the exit; GROMACS raises at once): judged against the model only. Start files without optional entries: lammpstrj has none (box bounds and the "
             "vx vy vz columns are required by read_lammpstrj / read_dump), a .g96 start file keeps its BOX block (GROMACS needs it), the "
             "lattice plug-in's one-number format has none. In the polling models such a start file is just another initial state (zero "
             "velocities / the engine's box); what it can change is which data EngineBase.calculate_order uses, so that function's 'all three "
             "overrides or the file' rule is modelled (PollM.calculate_order_args; C12_calculate_order_overrides, "
             "C12_calculate_order_falls_back_to_file), the in-process loop is restated with its call site spelled out "
             "(inproc_loop_args; C12_inproc_call_site_own_state: with a box override that is never None every frame stores the order "
             "parameter of its own state for EVERY initial file; C12_inproc_box_from_initial_file_refuted: a box override read from an initial "
             "file without box entry stores the initial configuration's order parameter in every frame and misses the crossing), the ASE and "
             "TurtleMD scenarios are compared with inproc_loop_args (override = own box, file box absent in the no-box scenarios), and the real "
             "EngineBase.calculate_order is compared with calculate_order_args for all 8 subsets of overrides x vel_rev x file with/without "
             "box entry (coverage.calculate_order_probe). Trusted: Coq kernel; extraction + OCaml driver; the fake programs stand for "
             "the real ones (file format and timing contract only); kernel-level process/signal behaviour is observed (process table, SIGTERM "
             "marker), not proved. The processes of one propagation are identified by the control-file path in their environment "
             "(/proc/<pid>/environ: inherited through the launcher, independent of parent and process group), so a program that outlives "
             "its launcher is found; a survivor is a VIOLATION with the scenario as replay (and, the SIGTERM marker being absent, also a "
             "model/implementation disagreement on the model's PKilled state); survivors are killed by the check. Launchers that exec the "
             "program or forward signals themselves behave like the direct start and are not generated. Byte-level readers are C13's (a frame is visible or not): "
             "PollM has NO reader component, its polling loops take, per poll, the number of "
             "complete frames in each output file. The CP2K byte-cut family is therefore ORACLE-ONLY at the byte level (no theorem of C12 speaks about "
             "bytes; that xyz_reader returns exactly the frames wholly inside any byte cut is C13's theorem); the rule 'a line - hence a frame - is "
             "complete only when it is terminated by a newline' is applied by the harness when it turns the byte positions of a schedule into the frame "
             "counts handed to the model (c12_harness.frames_in: bytes // frame length, the frame layout of the stand-in restated in the harness and "
             "cross-checked against the lengths the program reports in <ctl dir>/layout), and with these counts the lock-step with PollM.cp2k_polls "
             "continues for every byte-cut scenario (hand-shake mode; free-running ones against the schedule-independent spec). GROMACS TRR and LAMMPS "
             "lammpstrj on-the-fly readers are exercised byte by byte by C13's check and are not duplicated here (their stand-ins keep half-frame units). "
             "The stop rule carried by the model is the current "
             "one (success kept when the crossing frame is also the maxlen-th, fix d6ed295); the shared EngineM.add_to_path is the older rule and "
             "is linked by C12_contract_old_rule_is_EngineM. Recorded leads are model parameters: fixL2 (LAMMPS pop(0), repaired in /repo), fixL3 "
             "(GROMACS double velocity negation) and fixL14 (GROMACS wait loop never polls the process); the variant /repo exhibits is detected by "
             "replaying the witness on the implementation, the correspondence runs against that variant, and a present defect is reported as a "
             "VIOLATION with the witness as replay (or as KNOWN-FINDING if known_findings.json registers 'property=C12 ... L3/L14'). GROMACS model "
             "outcome Hang is outside the *_any_schedule theorem (gres_ok is True for it). TurtleMD only works with the LangevinInertia "
             "integrator (the engine passes seed= to every integrator), so its dynamics is not reversible and no retrace is checked for it. "
             "A program that exits with code 0 before a stop makes every polling engine return (False, 'propagating ...') with the frames it "
             "got (model outcome Trunc): not an engine failure in the sense of the property, compared with the model only. All theorems print "
             "'Closed under the global context'."),
    "design_ref": "4/C12, leads L2 L3 (+ L14 found here)",
}
LEVEL = "proof"

DEFECTS = {
    "L3": {"text": ("GROMACS backward propagation (reverse=True) stores the order parameter of the UN-reversed file velocities: "
                    "_propagate_from negates data['v'] and calculate_order negates it again for vel_rev"),
           "witness": "file velocity +0.5, vel_rev=False, reverse=True, order=Velocity -> stored -0.5, recomputed from (trajB.trr, k) +0.5",
           "theorem": "C12_gromacs_double_negation_refuted", "fix": "proposed_fixes/C12_gromacs_velrev.diff"},
    "L14": {"text": ("GROMACS: when gmx ends after writing a TRR frame header but not its data (crash, full disk) and the header was read "
                     "while it was still running, get_gromacs_frames waits forever: the inner `while data is None` loop never polls the "
                     "process, so the failure neither raises nor returns"),
            "witness": "20 atoms, frame 0 complete, frame 1 header + half of its data, then exit code 1 -> propagate never returns",
            "theorem": "C12_gromacs_midframe_crash_refuted", "fix": "proposed_fixes/C12_gromacs_midframe_wait.diff"},
}


# --------------------------------------------------------------------------- case generation


def dy(rng, lo, hi, den=4):
    return rng.randrange(int(lo * den), int(hi * den) + 1) / den


def base_case(engine, rng, nat=2):
    return {
        "engine": engine,
        "pos": [[dy(rng, 1, 4), dy(rng, 0, 2), 0.5]] + [[dy(rng, 5, 8), 0.0, 0.5] for _ in range(nat - 1)],
        "vel": [[rng.choice([0.5, 1.0, -0.5, 0.25, -1.0]), 0.0, 0.0]]
               + [[rng.choice([0.0, 0.25, -0.25]), 0.0, 0.0] for _ in range(nat - 1)],
        "timestep": rng.choice([0.5, 1.0, 0.25]),
        "subcycles": rng.choice([1, 2, 3]),
        "accel": [rng.choice([0.0, 0.25, -0.25, 0.5, -0.5]), 0.0, 0.0],
        "mode": "sync",
    }


def make_box(engine, rng, vary, wide):
    """(box numbers in the engine's file representation, per-MD-step rates or None)"""
    if engine == "lammps":
        lo = [dy(rng, -1, 0), 0.0, -0.5]
        hi = [dy(rng, 20, 24), 20.0, 21.0]
        tilt = [0.25, 0.0, -0.5]
        box, rate = [], []
        for i in range(3):
            box += [lo[i], hi[i]] + ([tilt[i]] if wide else [])
            if vary and i == 0:
                rate += [rng.choice([0.25, -0.25, 0.5]), rng.choice([0.75, -0.5, 1.0])] + ([0.0] if wide else [])
            else:
                rate += [0.0, 0.0] + ([0.0] if wide else [])
        return box, (rate if vary else None)
    if engine == "cp2k":
        return [dy(rng, 20, 24), 20.0, 21.0], None          # NVT only (documented in cp2k.py)
    if engine == "gromacs":
        box = [dy(rng, 20, 24), 20.0, 21.0] + ([0.0, 0.0, 0.25, 0.0, -0.5, 0.5] if wide else [])
        rate = [rng.choice([0.25, -0.25, 0.5])] + [0.0] * (len(box) - 1)
        return box, (rate if vary else None)
    raise ValueError(engine)


ORDERS = [
    {"class": "LinOrder", "wx": 1.0, "wv": 0.0, "wb": 1.0},
    {"class": "LinOrder", "wx": 1.0, "wv": 2.0, "wb": 0.5},
    {"class": "Position", "index": [0, 0]},
    {"class": "Distance", "index": [0, 1], "periodic": True},
    {"class": "Velocity", "index": 0, "dim": "x"},
]
VEL_DEP = (1, 4)

# every way the external program can end by itself with a failure: an exit status, or death by a
# signal the engine did not send (Popen.returncode is then NEGATIVE: -9 SIGKILL from the OOM
# killer / a batch system, -11 SIGSEGV, -15 a SIGTERM from somebody else).  "exit_code" stays the
# conventional 128 + N (what a shell launcher passes on); "exit_signal" makes the fake program
# kill itself with that signal instead of exiting.
DEATHS = [
    ("exit-1", {"exit_code": 1}),
    ("exit-2", {"exit_code": 2}),
    ("SIGKILL", {"exit_code": 137, "exit_signal": 9}),
    ("SIGSEGV", {"exit_code": 139, "exit_signal": 11}),
    ("SIGTERM-not-from-infretis", {"exit_code": 143, "exit_signal": 15}),
]
DEATH_KW = [d for _, d in DEATHS]


def death_label(case):
    sig = case.get("exit_signal")
    if sig:
        return {9: "SIGKILL", 11: "SIGSEGV", 15: "SIGTERM-not-from-infretis"}.get(sig, f"signal-{sig}")
    return f"exit-{case.get('exit_code', 0)}"


def death_stage(case):
    if case.get("die_before_output") or (not case.get("schedule") and not case.get("frames")):
        return "before-any-output"
    if not case.get("write_rest", True):
        return "mid-frame"
    return "after-k-complete-frames"


def death_text(H, case):
    sig = case.get("exit_signal")
    rc = H.return_code(case)
    if sig:
        via = " (behind the launcher: exit status 128+N of the shell)" if case.get("launcher") else ""
        return f"was killed by signal {sig} ({death_label(case)}; return code {rc} as the engine's poll() sees it{via})"
    return f"exited with code {rc}"


def vel_dependent(order):
    return order["class"] == "Velocity" or (order["class"] == "LinOrder" and order.get("wv", 0.0) != 0.0)


def choose_interfaces(rng, orders, kc):
    """Interfaces such that the first frame outside is frame kc (None = never), if possible."""
    lo, hi = min(orders), max(orders)
    pad = 3.0
    if kc is None or kc >= len(orders) or kc == 0:
        return [lo - pad, hi + pad]
    o = orders
    if all(x < o[kc] for x in o[:kc]):
        r = (max(o[:kc]) + o[kc]) / 2 if rng.random() < 0.7 else max(o[:kc])     # strict '>' on the boundary
        return [lo - pad, r]
    if all(x > o[kc] for x in o[:kc]):
        l = (min(o[:kc]) + o[kc]) / 2 if rng.random() < 0.7 else min(o[:kc])
        return [l, hi + pad]
    return [lo - pad, hi + pad]


def schedules_small(n):
    """All ways the n frames can arrive in at most 3 bursts of whole frames (cumulative, in half frames)."""
    out = [[]]
    for parts in range(1, 4):
        for cuts in itertools.combinations(range(0, n + 1), parts):
            out.append([[2 * c] for c in cuts])
    return out


def schedules_half(n):
    """All cumulative schedules of at most 3 bursts in HALF-frame units for an n-frame run."""
    out = []
    for parts in range(1, 4):
        for cuts in itertools.combinations(range(0, 2 * n + 1), parts):
            out.append([[c] for c in cuts])
    return out


def random_schedule(rng, n, streams=1):
    m = rng.randrange(0, 6)
    cur = [0] * streams
    out = []
    for _ in range(m):
        for s in range(streams):
            cur[s] = min(2 * n, cur[s] + rng.choice([0, 1, 1, 2, 2, 3, 4, 5]))
        out.append(list(cur))
    return out


def gen_external(H, engine, rng, tier, wdroot):
    """Cases for one external engine.  Exhaustive small scope first, random beyond."""
    cases = []
    nstream = 2 if engine == "cp2k" else 1

    def finish(case, kc, maxlen, sched, **kw):
        case = dict(case)
        case["maxlen"] = maxlen
        case.update(kw)
        orderf = H.make_order(case["order"])
        case["interfaces"] = [-1e9, 1e9]
        probe = dict(case)
        probe["frames"] = None
        probe["write_rest"] = True
        own = H.model_inputs(probe, orderf)["own"]
        case["interfaces"] = choose_interfaces(rng, own, kc)
        sched = [list(e) for e in sched]
        if nstream == 2:
            sched = [(e if len(e) == 2 else [e[0], e[0]]) for e in sched]
        case["schedule"] = sched
        case["wd"] = os.path.join(wdroot, f"{engine}_{len(cases)}")
        cases.append(case)

    def mkbox(case, vary, wide):
        case["box"], case["box_rate"] = make_box(engine, rng, vary, wide)

    # ---- exhaustive small scope: every burst schedule of a 4-frame run, crossing at 1/2/never,
    #      limit below / at / above the crossing
    small = base_case(engine, rng)
    small["vel"][0][0] = 0.5
    small["timestep"], small["subcycles"] = 1.0, 1
    small["order"] = ORDERS[0]
    mkbox(small, True, False)
    if engine == "lammps":
        small["box_rate"] = [0.25, 0.75, 0, 0, 0, 0]
    combos = ((2, 3), (None, 3), (1, 3)) if tier == "quick" else ((2, 3), (None, 3), (1, 3), (2, 2), (1, 1))

    def second_stream(sched, si, n):
        if nstream != 2:
            return sched
        out = []
        for i, e in enumerate(sched):
            lag = (i + si) % 3
            out.append([e[0], max(0, e[0] - 2) if lag == 1 else (min(2 * n, e[0] + 2) if lag == 2 else e[0])])
        return out
    for si, sched in enumerate(schedules_small(4)):
        for kc, ml in combos:
            finish(small, kc, ml, second_stream(sched, si, 4), reverse=bool(si % 2), vel_rev_in=bool(si % 3 == 0))
    # every schedule of a 3-frame run in half-frame units (torn frames visible in between)
    for si, sched in enumerate(schedules_half(3)):
        for kc, ml in (((1, 2),) if tier == "quick" else ((1, 2), (None, 2), (2, 3))):
            finish(small, kc, ml, second_stream(sched, si, 3), reverse=bool(si % 2), cut=("midline" if si % 2 else "line"))
    # ---- limits hit exactly, all subcycles, all orders, both directions, retrace
    for sub in (1, 2, 3):
        for oi, order in enumerate(ORDERS):
            for reverse in (False, True):
                c = base_case(engine, rng, nat=(20 if engine == "gromacs" and (oi + sub) % 3 == 0 else 2))
                c["subcycles"] = sub
                c["order"] = order
                mkbox(c, oi % 2 == 0, (oi + sub) % 2 == 1)
                kc = rng.choice([1, 2, 3])
                for ml in ((kc + 1, kc + 2) if tier == "quick" else (kc, kc + 1, kc + 2)):
                    finish(c, kc, ml, random_schedule(rng, ml + 1, nstream), reverse=reverse,
                           vel_rev_in=rng.random() < 0.3, shuffle_ids=rng.random() < 0.5,
                           cut=rng.choice(["line", "midline"]),
                           back_from=(rng.randrange(0, kc + 1) if ml > kc else None))
    # ---- phase points whose configuration FILE lacks the optional entries of its format: no
    #      "Box:" in the comment line of an xyz file (CP2K then takes the box from its input
    #      template), no velocity columns (xyz) / no VELOCITY block (g96): such velocities read
    #      as zeros.  lammpstrj has no optional entries (box and the vx vy vz columns are
    #      required by read_lammpstrj / read_dump).  Every order function, both directions.
    for oi_, opt in enumerate(OPTIONAL.get(engine, [])):
        for sub in ((1, 2) if tier == "quick" else (1, 2, 3)):
            for oi, order in enumerate(ORDERS):
                for reverse in (False, True):
                    c = base_case(engine, rng)
                    c["subcycles"] = sub
                    c["order"] = order
                    c.update(opt)
                    if opt.get("omit_vel"):
                        c["vel"] = [[0.0, 0.0, 0.0] for _ in c["pos"]]
                        c["accel"] = [rng.choice([0.25, -0.25, 0.5, -0.5]), 0.0, 0.0]
                    mkbox(c, False, False)
                    kc = rng.choice([1, 2, 3])
                    for ml in (kc + 1, kc + 2):
                        finish(c, kc, ml, random_schedule(rng, ml + 1, nstream), reverse=reverse,
                               vel_rev_in=(oi + sub + oi_) % 3 == 0, cut=rng.choice(["line", "midline"]),
                               back_from=(rng.randrange(0, kc + 1) if (ml > kc and oi % 2 == 0) else None))
    # ---- failures: non-zero exit after W frames, before any output
    nfail = 30 if tier == "quick" else 200
    for i in range(nfail):
        c = base_case(engine, rng)
        c["order"] = ORDERS[i % 3]
        mkbox(c, i % 2 == 0, False)
        ml = rng.randrange(2, 6)
        kc = rng.choice([None, 1, 2, 3, 4])
        w = rng.randrange(0, ml + 2)
        sched = [[min(x, 2 * w) for x in e] for e in random_schedule(rng, ml + 1, nstream)]
        finish(c, kc, ml, sched, frames=w, **(DEATH_KW[i % len(DEATH_KW)] if i % 6 else {"exit_code": 134}))
    # ---- EVERY way of dying (exit status 1 / 2, killed by SIGKILL / SIGSEGV / a SIGTERM the engine
    #      did not send) x EVERY stage (before any output / after k complete frames, k = 0.. / in
    #      the middle of frame k): without a stop among the complete frames propagate must RAISE
    #      (oracle), never return a path that neither crossed an interface nor reached the limit
    for di, (_dname, death) in enumerate(DEATHS):
        c = base_case(engine, rng, nat=(12 if engine == "gromacs" and di % 2 else 2))
        c["order"] = ORDERS[di % 3]
        mkbox(c, di % 2 == 0, False)
        ml = 4
        finish(c, None, ml, [], die_before_output=True, frames=0, **death)
        for k in range(0, ml + 2):
            for sched in ([[2 * j] * nstream for j in range(1, k + 1)], [[2 * k] * nstream]):
                finish(c, None, ml, sched, frames=k, **death)
                if k < 2:
                    break           # both schedules are the same
        finish(c, 1, ml, [[2] * nstream, [6] * nstream], frames=3, **death)       # a crossing before the death
        for k in range(0, 3):
            tails = [[2 * k + 1] * nstream] + ([[2 * k + 1, 2 * k], [2 * k, 2 * k + 1]] if nstream == 2 else [])
            for ti, tail in enumerate(tails):
                pre = [[2 * j] * nstream for j in range(1, k + 1)] if ti % 2 == 0 else []
                finish(c, None, ml, pre + [tail], write_rest=False, cut=("midline" if (k + ti) % 2 else "line"), **death)
    # ---- crash in the middle of writing a frame: the torn frame stays on disk
    if True:
        for i in range(nfail // 2):
            c = base_case(engine, rng, nat=(rng.choice([2, 12, 20]) if engine == "gromacs" else 2))
            c["order"] = ORDERS[i % 3]
            mkbox(c, i % 2 == 0, False)
            ml = rng.randrange(2, 6)
            sched = random_schedule(rng, ml + 1, nstream) or [[1] * nstream]
            sched.append([min(2 * ml + 1, x + 1 + 2 * rng.randrange(0, 2)) | 1 for x in sched[-1]])
            finish(c, rng.choice([None, 1, 2, 3]), ml, sched, write_rest=False, cut=rng.choice(["line", "midline"]),
                   **DEATH_KW[i % len(DEATH_KW)])
    # ---- seeded random
    nrand = 300 if tier == "quick" else 4000
    for i in range(nrand):
        c = base_case(engine, rng, nat=rng.choice([2, 3, 3, 12] if engine == "gromacs" else [2, 3]))
        c["order"] = rng.choice(ORDERS)
        mkbox(c, rng.random() < 0.6, rng.random() < 0.4)
        ml = rng.randrange(1, 8)
        kc = rng.choice([None, 1, 2, 3, 4, 5])
        finish(c, kc, ml, random_schedule(rng, ml + 1, nstream), reverse=rng.random() < 0.4,
               vel_rev_in=rng.random() < 0.2, shuffle_ids=rng.random() < 0.5, cut=rng.choice(["line", "midline"]))
    # ---- free-running program, real sleeps: the outcome must not depend on the timing
    nasync = 10 if tier == "quick" else 60
    for i in range(nasync):
        c = base_case(engine, rng)
        c["order"] = ORDERS[0] if i % 2 else ORDERS[2]
        mkbox(c, False, False)
        ml = rng.randrange(3, 9)
        finish(c, rng.choice([None, 2, 4]), ml, [[2 * (k + 1)] * nstream for k in range(0, ml + 1, rng.choice([1, 2]))],
               mode="async", sleep=rng.choice([0.002, 0.01]), delay=rng.choice([0.001, 0.004]))
    # ---- the configured command is a LAUNCHER (wrapper sh script that runs the program as its
    #      child, without exec, and waits for it): "the external program is stopped when
    #      propagation ends" must hold for the program, not only for the engine's direct child
    kinds = list(H.LAUNCHERS)
    nl = [0]

    def kind():
        nl[0] += 1
        return kinds[nl[0] % len(kinds)]
    all_combos = ((2, 3), (None, 3), (1, 3), (2, 2), (1, 1))
    for si, sched in enumerate(schedules_small(4)):
        for kc, ml in ((all_combos[si % 3],) if tier == "quick" else all_combos):
            finish(small, kc, ml, second_stream(sched, si, 4), reverse=bool(si % 2), launcher=kind())
    for i in range(24 if tier == "quick" else 400):
        c = base_case(engine, rng, nat=rng.choice([2, 3, 12] if engine == "gromacs" else [2, 3]))
        c["order"] = rng.choice(ORDERS)
        mkbox(c, rng.random() < 0.6, rng.random() < 0.4)
        ml = rng.randrange(1, 8)
        finish(c, rng.choice([None, 1, 2, 3, 4, 5]), ml, random_schedule(rng, ml + 1, nstream), reverse=rng.random() < 0.4,
               vel_rev_in=rng.random() < 0.2, cut=rng.choice(["line", "midline"]), launcher=kind())
    for i in range(8 if tier == "quick" else 60):       # the program fails behind the launcher
        c = base_case(engine, rng)
        c["order"] = ORDERS[i % 3]
        mkbox(c, i % 2 == 0, False)
        ml = rng.randrange(2, 6)
        w = rng.randrange(0, ml + 2)
        sched = [[min(x, 2 * w) for x in e] for e in random_schedule(rng, ml + 1, nstream)]
        finish(c, rng.choice([None, 1, 2, 3, 4]), ml, sched, frames=w, launcher=kind(), **DEATH_KW[i % len(DEATH_KW)])
    for di, (_dname, death) in enumerate(DEATHS):       # ... and dies before any output / in the middle of a frame
        c = base_case(engine, rng)
        c["order"] = ORDERS[di % 3]
        mkbox(c, False, False)
        finish(c, None, 3, [], die_before_output=True, frames=0, launcher=kind(), **death)
        finish(c, None, 3, [[2] * nstream, [3] * nstream], write_rest=False, launcher=kind(), **death)
    # free-running program behind a launcher with a LONG run ahead of it (one frame per 50 ms,
    # 120 frames) and an early crossing: if the engine stops only the launcher, the program is
    # still computing and writing into the exe directory long after propagate has returned
    for i in range(4 if tier == "quick" else 12):
        c = base_case(engine, rng)
        c["accel"] = [0.0, 0.0, 0.0]            # monotone order parameter: the crossing is certain
        c["order"] = ORDERS[0] if i % 2 else ORDERS[2]
        mkbox(c, False, False)
        ml = 120
        finish(c, 2 + i % 2, ml, [[2 * (k + 1)] * nstream for k in range(ml + 1)], mode="async", sleep=0.01, delay=0.05,
               launcher=kind(), watch=True)
    if engine == "cp2k":
        gen_bytecut(H, rng, tier, finish, mkbox)
    return cases


# --------------------------------------------------------------------------- CP2K: flushes at arbitrary byte positions


def bytecut_base(rng, nat, certain=False):
    """Phase point for the byte-cut scenarios: every coordinate and velocity component is an odd
    multiple of 1/512 away from a quarter (exact in binary AND in the 10 decimals CP2K writes and the
    9 decimals the engine's own trajectory file keeps), so that every number of every line has
    significant digits up to its 9th decimal: a number read while only part of it is on disk is a
    different number.  Integer time step, so all frames stay on that grid."""
    def odd(n=64):
        return (2 * rng.randrange(0, n) + 1) / 512
    c = base_case("cp2k", rng, nat=nat)
    c["pos"] = [[x + odd() for x in p] for p in c["pos"]]
    c["vel"] = [[x + (odd() if d == 0 else odd(8)) for d, x in enumerate(v)] for v in c["vel"]]
    c["timestep"] = 1.0
    c["subcycles"] = rng.choice([1, 2])
    if certain:
        c["accel"] = [0.0, 0.0, 0.0]        # monotone order parameters: the crossing is certain
    c["unit"] = "bytes"
    return c


def gen_bytecut(H, rng, tier, finish, mkbox):
    """The stand-in cp2k flushes <project>-pos-1.xyz and <project>-vel-1.xyz at ARBITRARY byte positions,
    independently for the two files (control key unit = "bytes"): a poll of the engine sees a file
    that ends anywhere inside a frame - inside the atom count, the comment line, an atom line, inside
    the LAST NUMBER of the last atom line, just before the final newline - then sees the same state
    again (the program pauses longer than the polling interval: hand-shake schedules repeat the
    entry; free-running cases wait `delay` > `sleep`), then the rest arrives.  Oracle (the common
    one): the returned path is, frame by frame and exactly (all numbers are exact in the written
    precision), what the program wrote, with the length / success the dynamics implies."""
    thorough = tier != "quick"
    ml = 4
    nfull = ml + 1

    def orders_for(nat):
        return [o for o in ORDERS if not (nat < 2 and o["class"] == "Distance")]

    def sweep(nat, stream, f, offs, tag):
        flen = H.cp2k_frame_len(nat)
        for off in offs:
            c = bytecut_base(rng, nat, certain=(off % 3 != 2))
            c["order"] = orders_for(nat)[off % len(orders_for(nat))]
            mkbox(c, False, False)
            cut = f * flen + off
            other = [nfull * flen, (f + 1) * flen, f * flen + (off * 7) % flen][off % 3]       # far ahead / one frame ahead / torn as well
            ent = [cut, other] if stream == 0 else [other, cut]
            sched = [list(ent), list(ent)]                                  # two polls see the file end there
            if off % 2:
                nxt = [(f + 1) * flen, max(other, (f + 1) * flen)]             # then exactly that line is completed
                sched.append(nxt if stream == 0 else nxt[::-1])
            kc = 3 if off % 5 else None
            finish(c, kc, ml, sched, reverse=bool(off % 2), vel_rev_in=bool(off % 7 == 0), family=f"bytecut-{tag}")

    flen2 = H.cp2k_frame_len(2)
    # every byte offset of one frame, each file in turn (2 atoms)
    sweep(2, 0, 1, range(flen2), "sweep-pos")
    sweep(2, 1, 2, range(flen2), "sweep-vel")
    if thorough:
        for f in (0, 2, 3):
            sweep(2, 0, f, range(flen2), "sweep-pos")
        for f in (0, 1, 3):
            sweep(2, 1, f, range(flen2), "sweep-vel")
        for nat in (1, 3):
            for stream in (0, 1):
                sweep(nat, stream, 1, range(H.cp2k_frame_len(nat)), "sweep-pos" if stream == 0 else "sweep-vel")
    # the file ends inside the last number of the last line of frame f (1, 5, 8, 12 characters of the line
    # missing) or just before its newline, for EVERY frame of the run, both files at once at different places
    for f in range(nfull):
        for mi, missing in enumerate((1, 2, 5, 8, 12)):
            for nat in ((2,) if not thorough else (1, 2, 3)):
                flen = H.cp2k_frame_len(nat)
                c = bytecut_base(rng, nat, certain=True)
                c["order"] = orders_for(nat)[(f + mi) % len(orders_for(nat))]
                mkbox(c, False, False)
                a = (f + 1) * flen - missing
                b = (f + 1) * flen - (1, 2, 5, 8, 12)[(mi + 2) % 5]
                sched = [[f * flen, f * flen]] if f and mi % 2 else []
                sched += [[a, b], [a, b], [(f + 1) * flen, b], [(f + 1) * flen, (f + 1) * flen]]
                finish(c, (3 if (f + mi) % 4 else None), ml, sched, reverse=bool(mi % 2), family="bytecut-last-number")
    # seeded random: both files grow by random byte amounts
    for i in range(40 if not thorough else 800):
        nat = rng.choice([1, 2, 2, 3])
        flen = H.cp2k_frame_len(nat)
        c = bytecut_base(rng, nat, certain=rng.random() < 0.5)
        c["order"] = rng.choice(orders_for(nat))
        mkbox(c, False, False)
        m = rng.randrange(2, 7)
        n = m + 1
        cur, sched = [0, 0], []
        for _ in range(rng.randrange(1, 7)):
            for st in (0, 1):
                step = rng.choice([0, rng.randrange(1, flen), flen, flen + rng.randrange(1, flen), 2 * flen,
                                   ((cur[st] // flen) + 1) * flen - cur[st] - rng.randrange(1, 14)])     # ... or up to the last number
                cur[st] = min(n * flen, cur[st] + max(0, step))
            sched.append(list(cur))
        finish(c, rng.choice([None, 1, 2, 3, 4]), m, sched, reverse=rng.random() < 0.4, vel_rev_in=rng.random() < 0.2,
               family="bytecut-random")
    # the program DIES (each way) while the last number of frame k is half written: the torn frame stays
    for di, (_dname, death) in enumerate(DEATHS):
        for k in ((1, 2) if not thorough else (0, 1, 2, 3)):
            flen = flen2
            c = bytecut_base(rng, 2, certain=True)
            c["order"] = ORDERS[di % 3]
            mkbox(c, False, False)
            a = (k + 1) * flen - (3, 7, 1, 9, 5)[di]
            tail = [[a, a], [a, (k + 1) * flen], [(k + 1) * flen, a]][(di + k) % 3]
            finish(c, (None if (di + k) % 2 else 1), ml, [[k * flen, k * flen], tail], write_rest=False,
                   family="bytecut-death", **death)
    # free-running program, real sleeps: it flushes inside the last number, pauses for several polling
    # intervals of the engine (delay >> sleep), completes the line, goes on
    for i in range(6 if not thorough else 30):
        flen = flen2
        c = bytecut_base(rng, 2, certain=True)
        c["order"] = ORDERS[0] if i % 2 else ORDERS[2]
        mkbox(c, False, False)
        f = 1 + i % 3
        a = (f + 1) * flen - rng.choice([1, 3, 6, 9])
        full = (ml + 3) * flen
        ent = [[a, full], [full, a], [a, a - 2]][i % 3]
        sched = [[f * flen, f * flen], ent, [max(ent[0], (f + 1) * flen), max(ent[1], (f + 1) * flen)]]
        finish(c, 3, ml + 2, sched, mode="async", sleep=0.004, delay=0.04, family="bytecut-async")


def bytecut_text(H, case):
    """Where the flushes of a byte-unit schedule fall (for messages and the input distribution)."""
    nat = len(case["pos"])
    flen = H.cp2k_frame_len(nat)
    seen, out = set(), []
    for e in case.get("schedule") or []:
        for name, amount in zip(("pos", "vel"), e):
            k, off = divmod(int(amount), flen)
            w = H.cp2k_where(nat, off)
            if w != "frame-boundary" and (name, amount) not in seen:
                seen.add((name, amount))
                out.append((name, k, off, w))
    return flen, out


# optional entries of the start configuration's file format, per engine (see gen_external / gen_inproc)
OPTIONAL = {
    "cp2k": [{"omit_box": True}, {"omit_vel": True}, {"omit_box": True, "omit_vel": True}],
    "gromacs": [{"omit_vel": True}],
    "turtlemd": [{}, {"omit_box": True}, {"omit_vel": True}, {"omit_box": True, "omit_vel": True}],
    "ase": [{}, {"omit_vel": True}, {"no_cell": True}, {"omit_vel": True, "no_cell": True}],
    "plugin": [{}],
}


def start_file(case):
    """Label of the start configuration's file variant (input distribution)."""
    tags = [t for t, k in (("no-box", "omit_box"), ("no-velocities", "omit_vel"), ("no-cell", "no_cell")) if case.get(k)]
    return "+".join(tags) if tags else "complete"


def l3_witness(H, wdroot):
    """Lead L3 replayed on the implementation: GROMACS, reverse=True, order = velocity."""
    return {"engine": "gromacs", "pos": [[1.0, 0.0, 0.5], [5.0, 0.0, 0.5]], "vel": [[0.5, 0.0, 0.0], [0.0, 0.0, 0.0]],
            "timestep": 1.0, "subcycles": 1, "mode": "sync", "order": {"class": "Velocity", "index": 0, "dim": "x"},
            "box": [20.0, 20.0, 20.0], "box_rate": None, "maxlen": 2, "interfaces": [-5.0, 0.0], "reverse": True,
            "vel_rev_in": False, "schedule": [[6]], "wd": os.path.join(wdroot, "l3_witness"), "witness": "L3"}


def l14_witness(H, wdroot):
    """Lead L14 replayed on the implementation: gmx dies between a frame header and its data."""
    pos = [[1.0, 0.0, 0.5]] + [[5.0 + 0.125 * i, 0.0, 0.5] for i in range(19)]
    vel = [[0.5, 0.0, 0.0]] + [[0.0, 0.0, 0.0] for _ in range(19)]
    return {"engine": "gromacs", "pos": pos, "vel": vel, "timestep": 1.0, "subcycles": 1, "mode": "sync",
            "order": {"class": "Position", "index": [0, 0]}, "box": [20.0, 20.0, 20.0], "box_rate": None, "maxlen": 5,
            "interfaces": [-5.0, 50.0], "reverse": False, "vel_rev_in": False, "schedule": [[2], [3]], "write_rest": False,
            "exit_code": 1, "wd": os.path.join(wdroot, "l14_witness"), "witness": "L14"}


IN_ORDERS = {
    "ase": [{"class": "Position", "index": [0, 0]}, {"class": "Distance", "index": [0, 1], "periodic": False},
            {"class": "Velocity", "index": 0, "dim": "x"}, {"class": "LinOrder", "wx": 1.0, "wv": 8.0, "wb": 0.125}],
    "turtlemd": [{"class": "Position", "index": [0, 0]}, {"class": "Velocity", "index": 0, "dim": "x"},
                 {"class": "LinOrder", "wx": 1.0, "wv": 0.5, "wb": 0.0}],
    "plugin": [{"class": "IntOrder"}],
}


def reference(I, case):
    n = case["subcycles"] * case["maxlen"]
    return {"ase": I.ase_reference, "turtlemd": I.tmd_reference, "plugin": I.plugin_reference}[case["engine"]](case, n)


def inproc_inputs(H, case, ref):
    """Model inputs of an in-process case from the reference fine-grained trajectory."""
    orderf = H.make_order(case["order"])
    ent = {}
    for i, (pos, vel, box) in enumerate(ref):
        for sgn in (1, -1):
            ent[(i, sgn * (i + 1), 0)] = H.order_value(orderf, pos, [[sgn * x for x in v] for v in vel], box)
    left, right = case["interfaces"]
    q = H.quantiser(list(ent.values()) + [left, right])
    rv = bool(case.get("reverse", False))
    s = case["subcycles"]
    own = [ent[(i, (-(i + 1) if rv else (i + 1)), 0)] for i in range(0, len(ref), s)]
    return {"traj": [f"{i}:{i + 1}:0" for i in range(len(ref))], "ord": [f"{p}:{v}:{b}:{q(o)}" for (p, v, b), o in ent.items()],
            "q": q, "left": q(left), "right": q(right), "rv": int(rv), "own": own, "frames": [ref[i] for i in range(0, len(ref), s)]}


def gen_inproc(H, I, engine, rng, tier, wdroot):
    cases = []
    n = {"quick": 150, "thorough": 1200}[tier]
    variants = OPTIONAL[engine]
    plan = []
    # exhaustive small scope: every variant of the start configuration's file (complete / without
    # the "Box:" header entry / without velocities / neither; ASE: without momenta / without a
    # cell) x direction x vel_rev of the given point x subcycles x place of the crossing
    if len(variants) > 1:
        for opt in variants:
            for reverse in (False, True):
                for vri in (False, True):
                    for sub in (1, 2):
                        for kc in (1, 2, None):
                            plan.append((len(plan), opt, sub, 3, reverse, vri, kc))
    # seeded random: triples of consecutive cases share a file variant and cover the subcycles / orders
    for i in range(n):
        plan.append((i, variants[(i // 3) % len(variants)], None, None, None, None, "random"))
    for i, opt, sub, ml, reverse, vri, kc in plan:
        if kc == "random":
            sub = 1 + i % 3 if engine != "plugin" else 1
            ml = rng.randrange(1, 8)
            reverse, vri = rng.random() < 0.4, rng.random() < 0.25
        c = {"engine": engine, "subcycles": sub, "maxlen": ml, "order": IN_ORDERS[engine][i % len(IN_ORDERS[engine])],
             "reverse": reverse, "vel_rev_in": vri, "rseed": rng.randrange(1, 10 ** 6)}
        c.update(opt)
        if engine == "ase":
            c.update(pos=[[dy(rng, 1, 3), 0.0, 0.0], [dy(rng, 4, 6), dy(rng, 0, 1), 0.0]],
                     vel=[[rng.choice([0.0625, -0.0625, 0.03125, 0.125]), 0.0, 0.0], [rng.choice([0.0, -0.0625]), 0.0, 0.0]],
                     cell=[20.0, 20.0, 20.0], kspring=rng.choice([0.0, 0.25, 1.0]), timestep=rng.choice([0.5, 1.0, 2.0]))
            if c.get("no_cell"):
                c["cell"] = [0.0, 0.0, 0.0]         # Atoms without a cell: cell.diagonal() is all zeros
            if c.get("omit_vel"):
                c["vel"] = [[0.0, 0.0, 0.0], [0.0, 0.0, 0.0]]
                c["kspring"] = rng.choice([0.25, 1.0])       # at rest and force-free nothing would move
        elif engine == "turtlemd":
            c.update(pos=[[dy(rng, -1, 1, 8), 0.0, 0.0]], vel=[[dy(rng, -1, 1, 8), 0.0, 0.0]], a=1.0, b=2.0, c=0.0,
                     gamma=rng.choice([0.3, 1.0]), beta=rng.choice([4.0, 14.0]), timestep=rng.choice([0.025, 0.05]))
            if c.get("omit_vel"):
                c["vel"] = [[0.0, 0.0, 0.0]]
        else:
            c.update(x0=rng.randrange(-2, 5), wall=-4)
        c["interfaces"] = [-1e9, 1e9]
        ref = reference(I, c)
        own = inproc_inputs(H, c, ref)["own"]
        if kc == "random":
            kc = rng.choice([None, 1, 2, 3, 4, ml - 1, ml])
        c["interfaces"] = choose_interfaces(rng, own, kc)
        if engine == "plugin":
            lo = min(own) - 0.5 if kc is None else own[0] - rng.choice([0.5, 1.5, 2.5])
            c["interfaces"] = [lo, own[0] + rng.choice([0.5, 1.5, 2.5, 40.5])]
        if engine == "ase" and rng.random() < 0.5:
            c["back_from"] = rng.randrange(0, ml)
        c["wd"] = os.path.join(wdroot, f"{engine}_{len(cases)}")
        cases.append(c)
    return cases


# --------------------------------------------------------------------------- oracle


TOL = {"lammps": 0.0, "cp2k": 0.0, "gromacs": 0.0, "ase": 0.0, "plugin": 0.0, "turtlemd": 2e-9}
TOL_STATE = {"lammps": 0.0, "cp2k": 0.0, "gromacs": 0.0, "ase": 0.0, "plugin": 0.0, "turtlemd": 1e-9}
TOL_RETRACE = {"lammps": 0.0, "cp2k": 0.0, "gromacs": 0.0, "ase": 1e-9}


def close(a, b, tol):
    if tol == 0.0:
        return a == b
    return abs(a - b) <= tol * max(1.0, abs(a), abs(b))


def flat(a):
    return [float(x) for r in a for x in (r if isinstance(r, (list, tuple)) else [r])]


def same_arrays(a, b, tol=0.0):
    """Equal up to trailing zeros (3- vs 9-component boxes) and None == all zeros."""
    fa = [] if a is None else flat(a)
    fb = [] if b is None else flat(b)
    n = min(len(fa), len(fb))
    if any(x != 0 for x in fa[n:]) or any(x != 0 for x in fb[n:]):
        return False
    return all(close(x, y, tol) for x, y in zip(fa[:n], fb[:n]))


def neg(v):
    return [[-x for x in r] for r in v]


def expected_state(H, case, k, frames):
    """(pos, file vel, box) the engine must read back for frame k of the trajectory."""
    pos, vel, box = frames[k]
    if case["engine"] in H.EXTERNAL:
        return H.seen_by_order(case["engine"], pos, vel, box if case["engine"] != "cp2k" else frames[0][2])
    return pos, vel, box


def oracle(H, case, res, own, frames):
    """The statement of C12 evaluated on one propagation.  Returns a list of (class, message)."""
    eng = case["engine"]
    obs = res["main"]
    errs = []
    rev = bool(case.get("reverse", False))
    fr = obs["frames"]
    left, right = case["interfaces"]
    tol, tols = TOL[eng], TOL_STATE[eng]
    nw = min(len(own), H.n_complete(case)) if eng in H.EXTERNAL else len(own)
    stop_at = None
    for k in range(nw):
        if own[k] < left or own[k] > right or k + 1 == case["maxlen"]:
            stop_at = k
            break
    failed = H.return_code(case) != 0 if eng in H.EXTERNAL else False
    if obs["children_alive"]:
        errs.append((None, f"child processes still alive after propagate returned: {obs['children_alive']}"))
    if obs.get("program_alive"):
        how = (f"started through the launcher script run_{eng}_{case['launcher']}.sh (the program is the launcher's child)"
               if case.get("launcher") else "started directly")
        errs.append((None, f"the external program is NOT stopped when propagation ends: {how}, "
                           f"{'; '.join(st + ' ' + cmd for st, cmd in obs['program_alive'])} still alive {obs.get('grace')} s after propagate "
                           f"{'raised' if obs['raised'] is not None else 'returned'} (SIGTERM marker of the program: "
                           f"{'present' if obs.get('sigterm') else 'absent'})"
                           + (f"; it keeps writing into the exe directory: {obs['still_writing']}" if obs.get("still_writing") else "")))
    elif obs.get("still_writing"):
        errs.append((None, f"files in the exe directory still change after propagate ended: {obs['still_writing']}"))
    if obs.get("hang"):
        cls = "L14" if (eng == "gromacs" and not case.get("write_rest", True)) else None
        errs.append((cls, f"the program {death_text(H, case)} leaving an incomplete frame and propagate never "
                          f"returns ({obs['raised']})"))
        return errs
    if obs["raised"] is not None:
        if not failed:
            errs.append((None, f"propagate raised although the program did not fail: {obs['raised']}"))
        return errs
    if stop_at is None:
        if failed:
            errs.append((None, f"engine failure does not raise: the program {death_text(H, case)} after {nw} complete frame(s) "
                               f"[{death_stage(case)}] without reaching a stop, but propagate returned normally (success={obs['success']}, "
                               f"status {obs['status']!r}) with {len(fr)} frame(s) although the length limit is {case['maxlen']} and no "
                               f"frame is outside the interfaces {case['interfaces']} (silently truncated path)"))
        elif eng not in H.EXTERNAL:
            errs.append((None, "harness: no stop expected (ill-formed case)"))
        return errs
    if len(fr) != stop_at + 1:
        errs.append((None, f"path has {len(fr)} frames, the trajectory prefix up to the first stop has {stop_at + 1}"))
    for k, f in enumerate(fr):
        if "recompute_error" in f:
            errs.append((None, f"frame {k}: cannot recompute the order parameter from {f['file']}[{f['idx']}]: {f['recompute_error']}"))
            continue
        if f["idx"] != k or f["vel_rev"] != rev or len(obs["trajfiles"]) != 1:
            errs.append((None, f"frame {k}: config index {f['idx']} / vel_rev {f['vel_rev']} (requested {rev}) / files {obs['trajfiles']}"))
        if not close(f["order"], f["recomputed"], tol):
            cls = "L3" if (eng == "gromacs" and f["vel_rev"] and f["order"] == f.get("recomputed_flip")) else None
            hint = (" — signature of lead L2 (frames arriving in one poll paired with another frame's box, cf. "
                    "proposed_fixes/C12_lammps_box_pairing.diff, theorem C12_lammps_pop_last_refuted)"
                    if eng == "lammps" and case.get("box_rate") and f["idx"] == k else "")
            errs.append((cls, f"frame {k}: stored order {f['order']!r} != {f['recomputed']!r} recomputed from the frame it references "
                              f"({f['file']}[{f['idx']}], vel_rev={f['vel_rev']}){hint}"))
        elif "recomputed_direct" in f and not close(f["order"], f["recomputed_direct"], tol):
            errs.append((None, f"frame {k}: stored order {f['order']!r} != {f['recomputed_direct']!r}, the order function applied to the "
                               f"positions, velocities (vel_rev={f['vel_rev']}) and box of the frame it references ({f['file']}[{f['idx']}]"
                               f"{'' if f.get('has_box', True) else ', no box entry in the file: the box of the engine'})"))
        if k < len(frames):
            p, v, b = expected_state(H, case, k, frames)
            if not (same_arrays(f["pos"], p, tols) and same_arrays(f["vel"], v, tols)
                    and (eng in ("turtlemd", "ase") or same_arrays(f["box"], b, tols))):
                errs.append((None, f"frame {k} of the path is not frame {k} of the trajectory that was run "
                                   f"(pos {f['pos']} vs {p}, vel {f['vel']} vs {v}, box {f['box']} vs {b})"))
    if fr and "recompute_error" not in fr[-1]:
        def out(o):
            return o < left or o > right

        def val(f):
            # the value the stop rule is judged on: the recomputed one; where the file format
            # rounds (TurtleMD xyz, 9 decimals) and the stored value agrees within that rounding,
            # the stored one, so that an interface placed exactly on a value is not a coin toss
            return f["order"] if close(f["order"], f["recomputed"], tol) else f["recomputed"]
        for k, f in enumerate(fr[:-1]):
            if "recomputed" in f and out(val(f)):
                errs.append((None, f"frame {k} is outside the interfaces but the propagation went on"))
        last = val(fr[-1])
        if not out(last) and len(fr) != case["maxlen"]:
            errs.append((None, "propagation stopped although the last frame is inside and the limit is not reached"))
        if obs["success"] and not out(last):
            errs.append((None, "success reported although the last frame is inside the interfaces (length limit)"))
        if out(last) and not obs["success"]:
            errs.append((None, "failure reported although the propagation stopped on a frame outside the interfaces"))
        # first frame = the given phase point (physical state: velocities times (-1)^vel_rev)
        f0 = fr[0]
        if "pos" in f0:
            gp, gv, gb = expected_given(H, case)
            v0 = neg(f0["vel"]) if f0["vel_rev"] else f0["vel"]
            if not (same_arrays(f0["pos"], gp, tols) and same_arrays(v0, gv, tols)):
                errs.append((None, f"first frame is not the given phase point: pos {f0['pos']} vs {gp}, physical vel {v0} vs {gv}"))
    # backward retraces forward
    back = res.get("back")
    j = case.get("back_from")
    if back is not None and j is not None and eng in TOL_RETRACE:
        tr = TOL_RETRACE[eng]
        bf = back["frames"]
        if back["raised"] is not None:
            errs.append((None, f"backward propagation from frame {j} raised: {back['raised']}"))
        elif len(bf) != j + 1:
            errs.append((None, f"backward propagation from frame {j} with limit {j + 1} returned {len(bf)} frames"))
        else:
            for i, b in enumerate(bf):
                f = fr[j - i]
                if "pos" not in b or "pos" not in f:
                    continue
                vb = neg(b["vel"]) if b["vel_rev"] else b["vel"]
                vf = neg(f["vel"]) if f["vel_rev"] else f["vel"]
                okbox = eng in ("ase",) or same_arrays(b["box"], f["box"], tr)
                if not (same_arrays(b["pos"], f["pos"], tr) and same_arrays(vb, vf, tr) and okbox):
                    errs.append((None, f"backward frame {i} from frame {j} is not forward frame {j - i}: pos {b['pos']} vs {f['pos']}, "
                                       f"physical vel {vb} vs {vf}, box {b['box']} vs {f['box']}"))
                elif not close(b["order"], f["order"], tr):
                    cls = "L3" if (eng == "gromacs" and b["vel_rev"] != f["vel_rev"]
                                   and (b if b["vel_rev"] else f)["order"] == (b if b["vel_rev"] else f).get("recomputed_flip")) else None
                    errs.append((cls, f"backward frame {i} from frame {j} has order {b['order']!r}, forward frame {j - i} has {f['order']!r}"))
    if any(cls == "L3" for cls, _ in errs):
        # the stop frame / success flag / length of this propagation follow from the wrongly
        # signed orders: one defect, reported once
        errs = [("L3", m) for _, m in errs]
    return errs


def expected_given(H, case):
    """Physical state of the phase point handed to propagate."""
    eng = case["engine"]
    if eng == "plugin":
        return [[float(case["x0"]), 0.0, 0.0]], [[0.0, 0.0, 0.0]], None
    vel = neg(case["vel"]) if case.get("vel_rev_in", False) else case["vel"]
    if eng in H.EXTERNAL:
        p, v, b = H.seen_by_order(eng, case["pos"], vel, case["box"])
        return p, v, b
    return case["pos"], vel, None


# --------------------------------------------------------------------------- run


def run(ctx):
    common.proof_stage(ctx, "C12", ["extract/c12.vo"])
    runner = common.runner_stage(ctx, "c12")
    if runner is None:
        return
    import c12_harness as H
    import c12_inproc as I
    import sysharness
    wdroot = common.scratch_dir("infv_c12_")
    try:
        _run(ctx, runner, H, I, sysharness, ctx.rng, wdroot)
    finally:
        ctx.cov["stray_processes_killed_at_end"] = H.kill_strays(wdroot)
        shutil.rmtree(wdroot, ignore_errors=True)


def _run(ctx, runner, H, I, sysharness, rng, wdroot):
    cases = [l3_witness(H, wdroot), l14_witness(H, wdroot)]
    for eng in ENGINES_EXT:
        cases += gen_external(H, eng, rng, ctx.tier, wdroot)
    for eng in ENGINES_IN:
        cases += gen_inproc(H, I, eng, rng, ctx.tier, wdroot)
    results = sysharness.run_many(H.run_case, cases, jobs=14, timeout=300)
    evaluate(ctx, runner, H, I, cases, results)
    calc_order_probe(ctx, runner, H, I, sysharness, wdroot)
    ctx.cov["rule"] = ("one evaluation = one propagate() call of a real engine class (plus the opposite-direction call for retrace cases), "
                       "compared with the extracted model and judged by the oracle; distinct = distinct case dicts; every case has a "
                       "non-trivial trajectory (>= 1 frame) and interfaces chosen from its own order parameters; failure scenarios: "
                       "5 ways of dying (exit 1, exit 2, SIGKILL, SIGSEGV, foreign SIGTERM) x 3 stages (before any output, after k complete frames, "
                       "mid-frame) per external engine, systematically and inside the seeded random families (distribution keys <engine>:death=...@...)")
    ctx.cov["trusted_base"] += [
        "extraction ExtrOcamlBasic + ocaml/c12_driver.ml + ocaml/util.ml",
        "py/plugins/fake_lmp.py, fake_cp2k.py, fake_gmx.py, fakemd.py: stand for LAMMPS/CP2K/GROMACS (file formats and timing contract only)",
        "py/c12_harness.py (SyncSleep hand-shake replacing the engine modules' `sleep`), py/c12_inproc.py (reference dynamics run directly with ASE/TurtleMD)",
        "ASE, TurtleMD, numpy internals; kernel process/signal semantics (observed through /proc and a SIGTERM marker file)",
        "/bin/sh for the launcher scripts (run_<engine>_fg.sh / _bg.sh written per case); /proc/<pid>/environ to find every process of a propagation",
    ]
    ctx.assumptions += [
        "the fake programs write the real formats and flush only at schedule points (whole or half frames; the stand-in cp2k also at arbitrary byte positions, scenarios cp2k:family=bytecut-*); LAMMPS/GROMACS byte-level tearing is C13's property",
        "a death by signal is produced by the fake program signalling itself; a signal delivered while the real program holds a partially flushed buffer may leave other byte-level remains (C13's property)",
        "time reversibility is a property of the dynamics (hypothesis of C12_backward_retraces_*): checked for free flight (fake programs) and harmonic velocity Verlet (ASE), not for TurtleMD (Langevin)",
    ]


def evaluate(ctx, runner, H, I, cases, results):
    reqs = []
    present = {"L3": None, "L14": None}
    hits = {"L3": [], "L14": []}
    groups = {}
    for case, (tag, res) in zip(cases, results):
        eng = case["engine"]
        ctx.dist(f"{eng}:{case.get('mode', 'sync') if eng in H.EXTERNAL else 'inproc'}")
        ctx.dist(f"{eng}:reverse={int(bool(case.get('reverse')))}")
        if eng in OPTIONAL and eng != "plugin":
            ctx.dist(f"{eng}:start-file={start_file(case)}")
        if eng in H.EXTERNAL:
            ctx.dist(f"{eng}:command={'launcher-' + case['launcher'] if case.get('launcher') else 'program'}")
            if H.return_code(case) != 0:
                ctx.dist(f"{eng}:death={death_label(case)}@{death_stage(case)}")
        if case.get("unit") == "bytes":
            ctx.dist(f"{eng}:family={case.get('family')}")
            for name, _k, _off, w in bytecut_text(H, case)[1]:
                ctx.dist(f"{eng}:{name}-file-seen-ending={w}")
        if tag != "ok":
            ctx.violation(f"harness failure running a {eng} case: {str(res)[:300]}", {"case": case, "error": str(res)[-2000:]}, False)
            continue
        if case.get("unit") == "bytes" and res["main"].get("layout_ok") is False:
            ctx.violation(f"harness: the stand-in cp2k wrote frames of {res['main'].get('layout')} bytes, the check places its flushes "
                          f"assuming {H.cp2k_frame_len(len(case['pos']))}", {"case": case}, False)
            continue
        if eng in H.EXTERNAL:
            mi = H.model_inputs(case, H.make_order(case["order"]))
        else:
            mi = inproc_inputs(H, case, reference(I, case))
        obs = res["main"]
        errs = oracle(H, case, res, mi["own"], mi["frames"])
        w = case.get("witness")
        if w:
            present[w] = any(cls == w for cls, _ in errs)
            ctx.cov[f"{w}_witness"] = {"what": DEFECTS[w]["witness"], "raised": obs["raised"],
                                       "stored": [f["order"] for f in obs["frames"]],
                                       "recomputed": [f.get("recomputed") for f in obs["frames"]],
                                       "defect_present": present[w]}
        for cls, msg in errs:
            if cls in hits:
                hits[cls].append((case, msg, res))
            else:
                groups.setdefault((eng, re.sub(r"[-+]?\d[\d.e+-]*", "#", msg)[:48]), []).append((case, msg, res))
        ctx.count(json.dumps({k: v for k, v in case.items() if k != "wd"}, sort_keys=True), nontrivial=True,
                  n=2 if res.get("back") else 1)
        reqs.append((case, obs, mi))
    # one violation per (engine, kind of failure): the smallest failing case is the replay
    for (eng, _), lst in sorted(groups.items(), key=lambda kv: kv[0]):
        lst.sort(key=lambda t: (0 if t[2].get("main", {}).get("still_writing") else 1,      # a surviving program caught writing first
                                len(t[0].get("schedule", []) or []), t[0]["maxlen"], len(t[0].get("pos", [])), t[0]["subcycles"]))
        case, msg, res = lst[0]
        if case.get("unit") == "bytes":
            flen, cuts = bytecut_text(H, case)
            msg += (f"  — output timing: the program flushed its output files at the byte positions {case['schedule']} (pos, vel; one entry per "
                    f"polling interval, frames of {flen} bytes), so polls saw "
                    + "; ".join(f"the {n} file ending {w} of frame {k} (byte {off} of the frame)" for n, k, off, w in cuts[:4])
                    + ", before the program completed its output and " + ("exited with code 0" if H.return_code(case) == 0 else death_text(H, case)))
        ctx.violation(f"C12 statement fails on the implementation ({eng}): {msg}  [{len(lst)} generated cases fail this way]",
                      {"case": case, "observed": slim(res), "oracle": msg}, True)
    known = common.load_findings().get("known", [])
    for d, lst in hits.items():
        if not lst:
            continue
        lst.sort(key=lambda t: (0 if t[0].get("witness") else 1, len(t[0].get("schedule", [])), t[0]["maxlen"], len(t[0]["pos"])))
        case, msg, res = lst[0]
        msg = next((m for c, m, _ in lst if c is case and "stored order" in m), msg)
        ncases = len({id(t[0]) for t in lst})
        if any("property=C12" in k and re.search(rf"\b{d}\b", k) for k in known):
            ctx.known(f"{DEFECTS[d]['text']} (lead {d}; witness: {DEFECTS[d]['witness']}; theorem {DEFECTS[d]['theorem']}; "
                      f"{ncases} generated cases)")
        else:
            ctx.violation(f"C12 statement fails on the implementation — {DEFECTS[d]['text']}: {msg}  [{ncases} generated cases hit this defect]",
                          {"case": case, "observed": slim(res), "oracle": msg, "defect": d, "proposed_fix": DEFECTS[d]["fix"]}, True)
    fix3 = 0 if (present["L3"] or hits["L3"]) else 1
    fix14 = 0 if (present["L14"] or hits["L14"]) else 1
    ctx.cov["variant"] = {"stop rule (L11)": "current (fx=1)", "L2 lammps pairing": "repaired (pop(0))",
                          "L3 gromacs velocity negation": "repaired" if fix3 else "original (defect present)",
                          "L14 gromacs wait loop": "repaired" if fix14 else "original (defect present)"}
    # ---- model comparison
    lines, kinds = [], []
    for case, obs, mi in reqs:
        eng = case["engine"]
        if eng in H.EXTERNAL:
            if case.get("mode", "sync") == "sync":
                lines.append(H.model_request(case, mi, fx=1, fix2=1, fix3=fix3, fix14=fix14))
                kinds.append("model")
            else:
                lines.append(H.spec_request(case, mi, fx=1))
                kinds.append("spec")
        else:
            head = f"{mi['rv']} {mi['left']} {mi['right']} {case['maxlen']}"
            if eng in ("turtlemd", "ase"):
                # the loop with its calculate_order call site spelled out (PollM.inproc_loop_args): the
                # overrides are the current state's, the box override is never None (boxmode 1, as in
                # /repo); the file the System points to is the initial configuration (state 0), whose
                # box entry is absent in the "no-box" scenarios
                fbox = "N" if case.get("omit_box") else "0"
                lines.append(f"inprocargs 1 {head} {case['subcycles']} 1 0 1 {fbox} 0 {H.enc_list(mi['traj'])} {H.enc_list(mi['ord'])}")
            else:
                lines.append(f"inproc 1 {head} {case['subcycles']} {H.enc_list(mi['traj'])} {H.enc_list(mi['ord'])}")
            kinds.append("model")
    outs = runner.run(lines)
    bad = 0
    per_engine = {}
    for (case, obs, mi), line, kind, ans in zip(reqs, lines, kinds, outs):
        eng = case["engine"]
        impl = H.canon_impl(obs, mi["q"])
        per_engine[eng] = per_engine.get(eng, 0) + 1
        if kind == "spec":
            t = ans.split()
            mod = f"{t[0]} {t[1]} {t[2]}" if t[0] in ("RET", "MORE") else ans
            ok = (impl == mod)
            ps = "-"
        else:
            mod, ps = H.canon_model(ans)
            ok = (impl == mod)
            if ok and eng in H.EXTERNAL:
                if ps == "K":
                    ok = bool(obs["sigterm"])       # the program was still running: it must have been terminated
                elif ps.startswith("E"):
                    ok = not obs["sigterm"]         # it had exited by itself
        if not ok:
            bad += 1
            if bad <= 3:
                ctx.violation(f"correspondence model/implementation broken for {eng} ({kind}): impl {impl!r} sigterm={obs.get('sigterm')} vs model {ans!r}",
                              {"correspondence": f"c12 runner vs {eng} engine class", "case": case, "impl": impl,
                               "model": ans, "request": line[:4000], "observed": slim({"main": obs})}, False)
    for k in (0, len(lines) // 3, 2 * len(lines) // 3, len(lines) - 1):
        if lines:
            ctx.sample({"engine": reqs[k][0]["engine"], "request": lines[k][:500], "model": outs[k][:300],
                        "impl": H.canon_impl(reqs[k][1], reqs[k][2]["q"])[:300]})
    ctx.cov["correspondence"] = {"compared": len(lines), "disagreements": bad, "per_engine": per_engine,
                                 "what": "path (order, config index, vel_rev per frame), success flag, kind of outcome (return / "
                                         "return without stop / raise), program killed or exited"}


def calc_order_probe(ctx, runner, H, I, sysharness, wdroot):
    """EngineBase.calculate_order itself against PollM.calculate_order_args: all 8 ways of giving /
    not giving xyz, vel, box x vel_rev x a configuration file with / without box entry."""
    combos = I.calc_combos()
    case = {"engine": "calcorder", "combos": combos, "wd": os.path.join(wdroot, "calcorder")}
    (tag, res), = sysharness.run_many(H.run_case, [case], jobs=1, timeout=120)
    if tag != "ok":
        ctx.violation(f"harness failure in the calculate_order probe: {str(res)[:300]}", {"error": str(res)[-2000:]}, False)
        return
    P = I.CALC_PROBE
    orderf = H.make_order(P["order"])
    pos = {0: P["given"]["xyz"], 1: P["file"]["xyz"]}
    vel = {1: P["given"]["vel"], 2: P["file"]["vel"]}
    box = {0: P["given"]["box"], 1: P["file"]["box"], 2: P["sysbox"]}
    ent = {(p, sg * v, b): H.order_value(orderf, [[pos[p], 0.0, 0.0]], [[sg * vel[v], 0.0, 0.0]], [box[b], 1.0, 1.0])
           for p in pos for v in vel for sg in (1, -1) for b in box}
    q0 = H.quantiser(list(ent.values()) + [v for v in res["values"] if isinstance(v, float)])

    def q(v):
        return q0(v) if isinstance(v, float) else str(v)
    ordt = H.enc_list([f"{p}:{v}:{b}:{q(o)}" for (p, v, b), o in ent.items()])
    lines = [f"calcorder {int(c['rv'])} {'0' if c['xyz'] else 'N'} {'1' if c['vel'] else 'N'} {'0' if c['box'] else 'N'} "
             f"1 2 {'1' if c['file_box'] else 'N'} 2 {ordt}" for c in combos]
    outs = runner.run(lines)
    bad = []
    for c, val, line, ans in zip(combos, res["values"], lines, outs):
        ctx.count("calcorder " + json.dumps(c, sort_keys=True), nontrivial=True)
        ctx.dist(f"calculate_order:overrides={'all' if (c['xyz'] and c['vel'] and c['box']) else 'partial/none'}")
        if q(val) != ans.strip():
            bad.append((c, val, ans, line))
    for c, val, ans, line in bad[:2]:
        ctx.violation(f"correspondence model/implementation broken for EngineBase.calculate_order: overrides {c} give {val!r} "
                      f"(= {q(val)} on the model's grid), model {ans!r}",
                      {"correspondence": "c12 runner (calculate_order_args) vs EngineBase.calculate_order", "combo": c,
                       "impl": val, "model": ans, "request": line, "probe": P}, False)
    ctx.cov["calculate_order_probe"] = {"compared": len(combos), "disagreements": len(bad),
                                        "what": "EngineBase.calculate_order (TurtleMD xyz reader) with every subset of the overrides "
                                                "xyz/vel/box given, vel_rev on/off, configuration file with/without 'Box:' entry"}


def slim(res):
    out = {}
    for key, obs in res.items():
        if not isinstance(obs, dict) or "frames" not in obs:
            continue
        o = {k: v for k, v in obs.items() if k not in ("frames", "children")}
        o["frames"] = [{k: v for k, v in f.items() if k in ("order", "recomputed", "recomputed_direct", "has_box", "idx", "vel_rev", "file",
                                                            "recompute_error")}
                       for f in obs["frames"]]
        out[key] = o
    return out


def replay(doc):
    """Re-run the stored case on the implementation and judge it with the oracle."""
    import tempfile

    import c12_harness as H
    import c12_inproc as I
    import sysharness
    rp = doc.get("replay", doc)
    case = rp.get("case")
    if case is None:
        print(json.dumps(doc, indent=1)[:4000])
        print("replay: no runnable case in this file (proof obligation / build failure)")
        return 1
    case = dict(case)
    root = tempfile.mkdtemp(prefix="infv_c12_replay_")
    case["wd"] = os.path.join(root, "case")
    try:
        (tag, res), = sysharness.run_many(H.run_case, [case], jobs=1, timeout=300)
    finally:
        H.kill_strays(root)
        shutil.rmtree(root, ignore_errors=True)
    if tag != "ok":
        print("replay: harness failure:", str(res)[-1500:])
        return 1
    if case["engine"] in H.EXTERNAL:
        mi = H.model_inputs(case, H.make_order(case["order"]))
    else:
        mi = inproc_inputs(H, case, reference(I, case))
    errs = oracle(H, case, res, mi["own"], mi["frames"])
    print(json.dumps({"case": {k: v for k, v in case.items() if k != "wd"}, "observed": slim(res),
                      "expected_own_orders": mi["own"]}, indent=1)[:5000])
    for cls, msg in errs:
        print(f"REPLAY-FAIL property=C12 {('[' + cls + '] ') if cls else ''}{msg}")
    if not errs:
        print("REPLAY-OK property=C12: the statement holds on this case")
    return 1 if errs else 0
