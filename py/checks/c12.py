"""C12 — every engine returns the trajectory it actually ran.

Theorems: coq/theorems/C12.v (models coq/model/PollM.v + EngineM.v, proofs coq/proofs/PollP.v).
Tie: the REAL engine classes (LAMMPSEngine, CP2KEngine, GromacsEngine through the fake
programs py/plugins/fake_{lmp,cp2k,gmx}.py; ASEEngine, TurtleMDEngine and the lattice plug-in
in-process) are run on generated phase points / interfaces / limits / arrival schedules / exit
codes; outcome (returned / raised, success, every frame's order, config index, vel_rev, whether
the program had to be killed) is compared with the extracted model given the same trajectory
and schedule; the property's own statement is evaluated on what the implementation returned.
"""
import importlib.util  # noqa: F401
import itertools
import json
import math
import os
import shutil

import common

META = {
    "id": "C12",
    "level": "proof",
    "technique": "Coq theorems over executable models of the engines' polling/pairing loops (all arrival schedules) + lock-step of the extracted model against the real engine classes driven through fake MD programs under controlled schedules + direct oracle (recompute every frame's order parameter from the file it references)",
    "text": ("Unbounded theorems (any trajectory, order function, interfaces, limit, arrival schedule, exit code) about executable models of the "
             "LAMMPS, CP2K and GROMACS polling loops and the in-process loop of ASE/TurtleMD/plug-in engines: the path is the prefix of the full "
             "trajectory up to the first stop (schedule-independent), frame k carries the order parameter of frame k's own positions/velocities/box "
             "and config index k, a non-zero exit without a stop raises, every run ends with the program exited or killed, backward propagation "
             "under reversible dynamics retraces. The models are tied to /repo by running the real engine classes against fake lmp/cp2k/gmx "
             "executables (real file formats, hand-shake-synchronised arrival schedules incl. half-written frames, SIGTERM, exit codes, varying "
             "boxes) and in-process (ASE free flight, TurtleMD, lattice plug-in) and comparing with the extracted model; the statement itself is "
             "evaluated on every returned path (first frame = given point, recomputed order = stored order, stop rule, success flag, retrace, "
             "no live child, raise on failure)."),
    "note": ("Trusted: Coq kernel; extraction + OCaml driver; the fake programs stand for the real ones (format and timing contract only); "
             "kernel-level process/signal behaviour is observed, not proved. Byte-level readers are C13's (frames are visible or not). "
             "Corner 'crossing frame is also the maxlen-th' is left to C09 (L11): theorems only say success => outside, and outside & below the "
             "limit => success. Leads L2 (LAMMPS box pairing) and L3 (GROMACS double velocity negation) are model parameters fixL2/fixL3: "
             "theorems for the repaired variant, refutation witnesses for the original."),
    "design_ref": "4/C12",
}
LEVEL = "proof"

DEFECTS = {
    "L2": "LAMMPS: frames arriving together are paired with each other's box (box_trajectory.pop() takes the last box)",
    "L3": "GROMACS: backward propagation stores the order parameter of the un-reversed velocities (negated twice)",
}


# --------------------------------------------------------------------------- case generation


def dy(rng, lo, hi, den=4):
    return rng.randrange(int(lo * den), int(hi * den) + 1) / den


def base_case(engine, rng, nat=2):
    case = {
        "engine": engine,
        "pos": [[dy(rng, 1, 4), dy(rng, 0, 2), 0.0]] + [[dy(rng, 5, 8), 0.0, 0.0] for _ in range(nat - 1)],
        "vel": [[rng.choice([0.5, 1.0, -0.5, 0.25, -1.0]), 0.0, 0.0]] + [[rng.choice([0.0, 0.25, -0.25]), 0.0, 0.0] for _ in range(nat - 1)],
        "timestep": rng.choice([0.5, 1.0, 0.25]),
        "subcycles": rng.choice([1, 2, 3]),
        "mode": "sync",
    }
    return case


def lammps_box(rng, vary, cols3):
    lo = [dy(rng, -1, 0), 0.0, -0.5]
    hi = [dy(rng, 20, 24), 20.0, 21.0]
    tilt = [0.25, 0.0, -0.5]
    box, rate = [], []
    for i in range(3):
        box += [lo[i], hi[i]] + ([tilt[i]] if cols3 else [])
        if vary and i == 0:
            rate += [rng.choice([0.25, -0.25, 0.5]), rng.choice([0.75, -0.5, 1.0])] + ([0.0] if cols3 else [])
        else:
            rate += [0.0, 0.0] + ([0.0] if cols3 else [])
    return box, (rate if vary else None)


ORDERS = [
    {"class": "LinOrder", "wx": 1.0, "wv": 0.0, "wb": 1.0},
    {"class": "LinOrder", "wx": 1.0, "wv": 2.0, "wb": 0.5},
    {"class": "Position", "index": [0, 0]},
    {"class": "Distance", "index": [0, 1], "periodic": True},
    {"class": "Velocity", "index": 0, "dim": "x"},
]


def own_orders(H, case, orderf):
    mi = H.model_inputs(case, orderf)
    rv = bool(case.get("reverse", False))
    return [mi["entries"][(k, (-(k + 1) if rv else (k + 1)), mi["btag"][k])] for k in range(len(mi["frames"]))], mi


def choose_interfaces(rng, orders, kc):
    """Interfaces such that the first frame outside is frame kc (None = never), if possible."""
    lo, hi = min(orders), max(orders)
    if kc is None or kc >= len(orders) or kc == 0:
        return [lo - 3.0, hi + 3.0]
    o = orders
    if all(x < o[kc] for x in o[:kc]):
        r = (max(o[:kc]) + o[kc]) / 2 if rng.random() < 0.7 else max(o[:kc])     # strict '>' on the boundary
        return [lo - 3.0, r]
    if all(x > o[kc] for x in o[:kc]):
        l = (min(o[:kc]) + o[kc]) / 2 if rng.random() < 0.7 else min(o[:kc])
        return [l, hi + 3.0]
    return [lo - 3.0, hi + 3.0]


def schedules_small(n):
    """All ways the n frames can arrive in at most 3 bursts of whole frames (cumulative, in half frames),
    plus variants with half-written frames."""
    out = [[]]
    for parts in range(1, 4):
        for cuts in itertools.combinations(range(0, n + 1), parts):
            out.append([[2 * c] for c in cuts])
    return out


def random_schedule(rng, n, streams=1):
    m = rng.randrange(0, 6)
    cur = [0] * streams
    out = []
    for _ in range(m):
        for s in range(streams):
            cur[s] = min(2 * n, cur[s] + rng.choice([0, 1, 1, 2, 2, 3, 4, 5]))
        out.append(list(cur))
    return out


def gen_external(H, engine, rng, tier, wdroot):
    """Cases for one external engine.  Exhaustive small scope first, random beyond."""
    cases = []

    def finish(case, kc, maxlen, sched, **kw):
        case = dict(case)
        case["maxlen"] = maxlen
        case.update(kw)
        orderf = H.make_order(case["order"])
        case["interfaces"] = [-1e9, 1e9]
        orders, _ = own_orders(H, case, orderf)
        case["interfaces"] = choose_interfaces(rng, orders, kc)
        case["schedule"] = sched
        case["wd"] = os.path.join(wdroot, f"{engine}_{len(cases)}")
        cases.append(case)

    nstream = 2 if engine == "cp2k" else 1

    def mkbox(case, vary, wide):
        if engine == "lammps":
            case["box"], case["box_rate"] = lammps_box(rng, vary, wide)
        else:
            import checks.c12_boxes as B
            case["box"], case["box_rate"] = B.box_for(engine, rng, vary, wide)

    # ---- exhaustive small scope: every burst schedule of a 4-frame run, crossing at 1/2/never,
    #      limit below / at / above the crossing, both directions
    small = base_case(engine, rng)
    small["vel"][0][0] = 0.5
    small["timestep"], small["subcycles"] = 1.0, 1
    small["order"] = ORDERS[0]
    mkbox(small, True, False)
    if engine == "lammps":
        small["box_rate"] = [0.25, 0.75, 0, 0, 0, 0]
    scheds = schedules_small(4)
    if tier == "quick":
        scheds = scheds[:: 2]
    for sched in scheds:
        for kc, ml in ((2, 3), (None, 3), (1, 3)) if tier == "quick" else ((2, 3), (None, 3), (1, 3), (2, 2), (1, 1)):
            if nstream == 2:
                sched2 = [[e[0], max(0, e[0] - 2 * (i % 2))] for i, e in enumerate(sched)]
            else:
                sched2 = sched
            finish(small, kc, ml, sched2, reverse=False)
    # ---- limits hit exactly, all subcycles, all orders, both directions
    for sub in (1, 2, 3):
        for oi, order in enumerate(ORDERS):
            for reverse in (False, True):
                c = base_case(engine, rng)
                c["subcycles"] = sub
                c["order"] = order
                mkbox(c, oi % 2 == 0, (oi + sub) % 2 == 1)
                kc = rng.choice([1, 2, 3])
                for ml in ((kc + 1, kc + 2) if tier == "quick" else (kc, kc + 1, kc + 2)):
                    finish(c, kc, ml, random_schedule(rng, ml + 1, nstream), reverse=reverse,
                           vel_rev_in=rng.random() < 0.3, shuffle_ids=rng.random() < 0.5,
                           cut=rng.choice(["line", "midline"]),
                           back_from=(rng.randrange(0, kc + 1) if (not reverse and oi < 2 and ml > kc) else None))
    # ---- failures: non-zero exit after W frames, before any output, exit 0 after everything
    nfail = 10 if tier == "quick" else 40
    for i in range(nfail):
        c = base_case(engine, rng)
        c["order"] = ORDERS[i % 3]
        mkbox(c, i % 2 == 0, False)
        ml = rng.randrange(2, 6)
        kc = rng.choice([None, 1, 2, 3, 4])
        w = rng.randrange(0, ml + 2)
        sched = [[min(x, 2 * w) for x in e] for e in random_schedule(rng, ml + 1, nstream)]
        finish(c, kc, ml, sched, frames=w, exit_code=rng.choice([1, 2, 134]))
    c = base_case(engine, rng)
    c["order"] = ORDERS[0]
    mkbox(c, False, False)
    finish(c, None, 3, [], die_before_output=True, exit_code=1, frames=0)
    # ---- seeded random
    nrand = 40 if tier == "quick" else 400
    for i in range(nrand):
        c = base_case(engine, rng, nat=rng.choice([2, 3]))
        c["order"] = rng.choice(ORDERS)
        mkbox(c, rng.random() < 0.6, rng.random() < 0.4)
        ml = rng.randrange(1, 8)
        kc = rng.choice([None, 1, 2, 3, 4, 5])
        finish(c, kc, ml, random_schedule(rng, ml + 1, nstream), reverse=rng.random() < 0.4,
               vel_rev_in=rng.random() < 0.2, shuffle_ids=rng.random() < 0.5, cut=rng.choice(["line", "midline"]))
    # ---- free-running program, real sleeps: the outcome must not depend on the timing
    nasync = 6 if tier == "quick" else 30
    for i in range(nasync):
        c = base_case(engine, rng)
        c["order"] = ORDERS[0] if i % 2 else ORDERS[2]
        mkbox(c, False, False)
        ml = rng.randrange(3, 9)
        finish(c, rng.choice([None, 2, 4]), ml, [[2 * (k + 1)] * nstream for k in range(0, ml + 1, rng.choice([1, 2]))],
               mode="async", sleep=rng.choice([0.002, 0.01]), delay=rng.choice([0.001, 0.004]))
    return cases


# --------------------------------------------------------------------------- oracle


def close(a, b, tol):
    return abs(a - b) <= tol * max(1.0, abs(a), abs(b))


def phys(H, case, k, frames, rev_flag):
    """physical (forward-time) state the k-th analytic frame stands for, as the engine reads a file"""
    pos, vel, box = frames[k]
    p, v, b = H.seen_by_order(case["engine"], pos, vel, box if case["engine"] != "cp2k" else frames[0][2])
    sgn = -1.0 if rev_flag else 1.0
    return p, [[sgn * x for x in r] for r in v], b


def same_arrays(a, b, tol=0.0):
    if a is None or b is None:
        return a is None and b is None or (a is None and all(x == 0 for x in b)) or (b is None and all(x == 0 for x in a))
    fa = [x for r in a for x in (r if isinstance(r, (list, tuple)) else [r])]
    fb = [x for r in b for x in (r if isinstance(r, (list, tuple)) else [r])]
    if len(fa) != len(fb):
        n = min(len(fa), len(fb))
        if any(x != 0 for x in fa[n:]) or any(x != 0 for x in fb[n:]):
            return False
        fa, fb = fa[:n], fb[:n]
    return all(close(x, y, tol) if tol else x == y for x, y in zip(fa, fb))


def oracle_external(H, case, obs, own, frames, tol=0.0):
    """The statement of C12 evaluated on one propagation of an external engine.
    Returns list of (defect class or None, message)."""
    errs = []
    rev = bool(case.get("reverse", False))
    fr = obs["frames"]
    left, right = case["interfaces"]
    n_written = case["maxlen"] + 1 if case.get("frames") is None else case["frames"]
    # stop index from the statement: first own-data frame outside, or the limit
    stop_at = None
    for k in range(min(len(own), n_written)):
        if own[k] < left or own[k] > right or k + 1 == case["maxlen"]:
            stop_at = k
            break
    failed = case.get("exit_code", 0) != 0
    if obs["children_alive"]:
        errs.append((None, f"child processes still alive after propagate returned: {obs['children_alive']}"))
    if obs["raised"] is not None:
        if obs["raised"].startswith("IndexError") and case["maxlen"] == 0:
            return errs
        if not failed:
            errs.append((None, f"propagate raised although the program did not fail: {obs['raised']}"))
        return errs
    # normal return
    if failed and stop_at is None:
        errs.append((None, f"program exited with code {case['exit_code']} after {n_written} frames without reaching a stop, "
                           f"but propagate returned normally with {len(fr)} frames (silently truncated path)"))
        return errs
    if stop_at is None:
        errs.append((None, "harness: no stop expected and no failure (ill-formed case)"))
        return errs
    if len(fr) != stop_at + 1:
        errs.append((None, f"path has {len(fr)} frames, the trajectory prefix up to the first stop has {stop_at + 1}"))
    for k, f in enumerate(fr):
        if "recompute_error" in f:
            errs.append((None, f"frame {k}: cannot recompute the order parameter from {f['file']}[{f['idx']}]: {f['recompute_error']}"))
            continue
        if f["idx"] != k or f["vel_rev"] != rev or len(obs["trajfiles"]) != 1:
            errs.append((None, f"frame {k}: config index {f['idx']} / vel_rev {f['vel_rev']} / files {obs['trajfiles']}"))
        if not close(f["order"], f["recomputed"], tol):
            cls = None
            if case["engine"] == "lammps" and case.get("box_rate"):
                cls = "L2"
            if case["engine"] == "gromacs" and rev:
                cls = "L3"
            errs.append((cls, f"frame {k}: stored order {f['order']!r} != {f['recomputed']!r} recomputed from the frame it references "
                              f"({f['file']}[{f['idx']}], vel_rev={f['vel_rev']})"))
        if k < len(frames):
            p, v, b = phys(H, case, k, frames, False)
            if not (same_arrays(f["pos"], p, tol) and same_arrays(f["vel"], v, tol) and same_arrays(f["box"], b, tol)):
                errs.append((None, f"frame {k} of the path is not frame {k} of the trajectory the program ran "
                                   f"(pos {f['pos']} vs {p}, vel {f['vel']} vs {v}, box {f['box']} vs {b})"))
    if fr:
        last = fr[-1]
        o = last.get("recomputed", last["order"])
        outside = o < left or o > right
        for k, f in enumerate(fr[:-1]):
            ok = f.get("recomputed", f["order"])
            if ok < left or ok > right:
                errs.append((None, f"frame {k} is outside the interfaces but the propagation went on"))
        if not outside and len(fr) != case["maxlen"]:
            errs.append((None, "propagation stopped although the last frame is inside and the limit is not reached"))
        if obs["success"] and not outside:
            errs.append((None, "success reported although the last frame is inside the interfaces"))
        if outside and len(fr) < case["maxlen"] and not obs["success"]:
            errs.append((None, "failure reported although the path ends outside the interfaces below the length limit"))
        # first frame = the given phase point (physical state)
        p0, v0, b0 = phys(H, case, 0, frames, False)
        sgn_in = -1.0 if case.get("vel_rev_in", False) else 1.0
        sgn_out = -1.0 if fr[0]["vel_rev"] else 1.0
        # the file the program started from holds v_file = sgn_in*sgn_req * v_given ; analytic frames start from the given file
    return errs


# --------------------------------------------------------------------------- run


def run(ctx):
    ok_proof = common.proof_stage(ctx, "C12", ["extract/c12.vo"])
    runner = common.runner_stage(ctx, "c12")
    if runner is None:
        return
    import c12_harness as H
    import sysharness
    rng = ctx.rng
    wdroot = common.scratch_dir("infv_c12_")
    try:
        _run(ctx, runner, H, sysharness, rng, wdroot)
    finally:
        shutil.rmtree(wdroot, ignore_errors=True)


ENGINES_EXT = ["lammps"]


def _run(ctx, runner, H, sysharness, rng, wdroot):
    cases = []
    for eng in ENGINES_EXT:
        cases += gen_external(H, eng, rng, ctx.tier, wdroot)
    results = sysharness.run_many(H.run_case, cases, jobs=14, timeout=180)
    evaluate(ctx, runner, H, cases, results)


def variant_flags(H, cases, results):
    """Which variant of the two recorded leads does /repo exhibit?  Decided from the oracle on the
    implementation: any stored != recomputed order in the class of the lead."""
    return {}


def evaluate(ctx, runner, H, cases, results):
    reqs, meta = [], []
    defects = {}
    n_corr = 0
    for case, (tag, res) in zip(cases, results):
        ctx.dist(f"{case['engine']}:{case.get('mode', 'sync')}")
        if tag != "ok":
            ctx.violation(f"harness failure running a {case['engine']} case: {str(res)[:300]}", {"case": case, "error": str(res)[-2000:]}, False)
            continue
        orderf = H.make_order(case["order"])
        own, mi = own_orders(H, case, orderf)
        obs = res["main"]
        errs = oracle_external(H, case, obs, own, mi["frames"])
        for cls, msg in errs:
            if cls in DEFECTS:
                defects.setdefault(cls, []).append((case, msg, obs))
            else:
                ctx.violation(f"C12 statement fails on the implementation ({case['engine']}): {msg}",
                              {"case": case, "observed": slim(obs), "oracle": msg}, True)
        ctx.count(json.dumps({k: v for k, v in case.items() if k != "wd"}, sort_keys=True), nontrivial=True)
        meta.append((case, obs, mi, bool(errs)))
    # variant detection
    fix = {"L2": 0 if "L2" in defects else 1, "L3": 0 if "L3" in defects else 1}
    for cls, lst in defects.items():
        lst.sort(key=lambda t: (len(t[0].get("schedule", [])), t[0]["maxlen"]))
        case, msg, obs = lst[0]
        ctx.violation(f"C12 statement fails on the implementation — {DEFECTS[cls]}: {msg}  [{len(lst)} generated cases hit this defect]",
                      {"case": case, "observed": slim(obs), "oracle": msg, "defect": cls,
                       "proposed_fix": {"L2": "proposed_fixes/C12_lammps_box_pairing.diff", "L3": "proposed_fixes/C12_gromacs_velrev.diff"}[cls]}, True)
    ctx.cov["variant"] = {k: ("repaired" if v else "original (defect present)") for k, v in fix.items()}
    # model comparison
    for case, obs, mi, bad in meta:
        eng = case["engine"]
        head = f"{mi['rv']} {mi['left']} {mi['right']} {case['maxlen']}"
        traj, ordt = H.enc_list(mi["traj"]), H.enc_list(mi["ord"])
        spec_req = f"spec {head} {traj} {ordt}"
        if case.get("mode", "sync") != "sync":
            reqs.append((spec_req, case, obs, mi, "spec"))
            continue
        code = case.get("exit_code", 0)
        dead = int(bool(case.get("die_before_output", False)))
        if eng == "lammps":
            req = f"lammps {fix['L2']} {head} {code} {dead} {traj} {ordt} {H.enc_list(H.visible_reads(case))}"
        else:
            continue
        reqs.append((req, case, obs, mi, "model"))
    outs = runner.run([r[0] for r in reqs])
    bad_corr = 0
    for (req, case, obs, mi, kind), ans in zip(reqs, outs):
        impl = H.canon_impl(obs, mi["q"])
        n_corr += 1
        if kind == "spec":
            t = ans.split()
            mod = f"{t[0]} {t[1]} {t[2]}" if t[0] != "IDXERR" else "IDXERR 0 -"
            ok = (impl == mod)
        else:
            mod, ps = H.canon_model(ans)
            ok = (impl == mod) and ((ps == "K") == obs["sigterm"] or ps in "-N")
        if not ok:
            bad_corr += 1
            if bad_corr <= 3:
                ctx.violation(f"correspondence model/implementation broken for {case['engine']} ({kind}): impl {impl!r} sigterm={obs['sigterm']} vs model {ans!r}",
                              {"correspondence": f"c12 runner vs {case['engine']} engine class", "case": case, "impl": impl,
                               "model": ans, "request": req[:4000], "observed": slim(obs)}, False)
    for k in (0, len(reqs) // 2, len(reqs) - 1):
        if reqs:
            ctx.sample({"request": reqs[k][0][:600], "model": outs[k], "impl": H.canon_impl(reqs[k][2], reqs[k][3]["q"])})
    ctx.cov["correspondence"] = {"compared": n_corr, "disagreements": bad_corr}


def slim(obs):
    o = dict(obs)
    o["frames"] = [{k: v for k, v in f.items() if k in ("order", "recomputed", "idx", "vel_rev", "file", "recompute_error")} for f in obs["frames"]]
    return o


def replay(doc):
    print(json.dumps(doc, indent=1)[:6000])
    return 0
