"""C04 — fractional weights are conserved and accounted for exactly once.

Theorems: coq/theorems/C04.v (proofs coq/proofs/FracP.v over the fstate layer of
coq/model/RepexM.v).  Tie: the same trace validation as C03 (real scheduler()/REPEX_state on
the lattice plug-in, enumerated completion orders, restarts): after every real treat_output the
model must reproduce traj_data[*]['frac'] (1e-9), with the exact permanent ratios as P, which
are compared with the implementation's own P (1e-10).  Oracle: the statement itself on the
implementation — per step one unit per idle column, none for busy ones, only idle live paths
with non-zero weight are credited, and on the FILES (infretis_data.txt + restart.toml) rows plus
live weights sum per column to the number of steps at which the column was idle; every replaced
path has exactly one row and no live path has one.
"""
import importlib.util  # noqa: F401

from checks import c03

META = {
    "id": "C04",
    "level": "proof",
    "technique": "Coq conservation theorem by induction over arbitrary runs of the REPEX state-machine model (association-list algebra over Q) + trace validation of the real treat_output/write_to_pathens and a file-level conservation oracle",
    "text": "Unbounded theorems: the assignment with which inf_retis undoes its row sorting is the inverse of the row selection for every permutation, in both directions (row i of P belongs to the path in row i of the weight matrix; the selection applied twice is refuted on a 3-cycle); for every reachable state and every run (any interleaving of picks and completions, any accept/reject outcomes) one completed step credits to column c exactly the column-c entries of P over idle slots — hence one unit for an idle column and nothing for a busy one when P has the column sums C02 establishes — picks credit nothing, records are moved to the data file exactly when a path is replaced, a path has at most one row and no live record afterwards; therefore data rows + live records sum per column to the number of completed steps at which the column was idle (with one worker: every step). The model is tied to /repo by trace validation (state incl. all frac vectors after every real treat_output, P compared with the exact permanent ratios) and the statement is evaluated on the recorded states and on the files the program wrote (infretis_data.txt, restart.toml), across restarts.",
    "note": "Trusted: Coq kernel; extraction + OCaml driver; harness/recorder. P is an input of the model's step; in the tie it is computed by the extracted Coq model of inf_retis (model/PermM.v, property C02) from the recorded weight matrix and busy flags, cross-checked against exact rational permanent ratios and the implementation's own P; the hypothesis Pcols/Prows (column sums over idle rows are 1/0, full-length rows) is what C02 proves for the permanent ratios and is additionally checked numerically on every recorded step (implementation P vs exact ratios, 1e-10). longdouble rounding and the decimal rendering str(longdouble) are outside the model (tolerance 1e-9 per step, 1e-7 relative on file totals). The '----' rendering is read back as 0.",
    "design_ref": "4/C04",
}
LEVEL = "proof"
EXTRACTS = ["repex", "c02"]


def run(ctx):
    c03.run(ctx, "C04")
    ctx.cov["rule"] += "; C04: frac vectors of all records compared after every step, conservation evaluated per step and on the files after every segment"


def replay(doc):
    import sysharness as H
    case = doc["replay"]["case"]
    (tag, res), = H.run_many(c03._run, [case], jobs=1)
    print(tag, {k: v for k, v in res.items() if k != "stats"} if tag == "ok" else res)
    return 1 if (tag != "ok" or res["model"] or res["C04"]) else 0
