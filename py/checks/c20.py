"""C20 — order parameters respect the symmetries of what they measure.

Theorems: coq/theorems/C20.v (model coq/model/GeomM.v, proofs coq/proofs/GeomP.v).
Tie: functional lock-step of the real classes of infretis.classes.orderparameter
(pbc_dist_coordinate, Distance, Distancevel, Position, Velocity, Dihedral, Puckering), of
EngineBase.calculate_order (vel_rev flag; array route and file route, on real engines reading
configuration files with their own _read_configuration) and of Path.reverse (order
recomputation) against the extracted model.  Inputs live on a dyadic grid k / 2^g, so the integers k are fed to the
model and the exactly representable floats to the implementation; the model returns the
exact integer ARGUMENTS of sqrt / arctan2, the harness applies sqrt / arctan2 / sin / cos to
them and compares with the implementation's float at 1e-9.  The same cases are pushed
through the model's own translate / shift_images / rotate / reverse_vel / scale_sys and
through numpy versions of these maps, and the property's statement (invariance, sign flip,
box-form independence, half-box bound, purity) is evaluated directly on the implementation.
"""
import importlib.util  # noqa: F401
import itertools
import math
import os
import types

import numpy as np

import common

META = {
    "id": "C20",
    "level": "proof",
    "technique": "Coq theorems (ring/lia/nia over Z, unbounded) about an executable integer model of pbc_dist_coordinate and the built-in order parameters returning the exact arguments of sqrt/arctan2 + lock-step of the extracted model vs the real classes on dyadic-grid inputs (exhaustive small grids, seeded random beyond) + direct symmetry oracle on the implementation",
    "text": "Unbounded theorems for every coordinate, velocity, orthogonal box, index choice, image shift, translation and rational rotation: translation invariance of Distance/Distancevel/Dihedral/Puckering; image-shift invariance of the periodic variants (Distance unconditionally, the others unless a separation component is exactly a half-integer multiple of the box length, with a computed witness that this guard is necessary); |minimum-image component| <= L/2 and it is an image; rotation invariance (M^T M = c^2 I, det = c^3; the dihedral numerator flips under improper maps); sign flip of Distancevel/Velocity and invariance of the position-type parameters under velocity reversal, also through the vel_rev flag of calculate_order on both of its routes (phase point handed in as arrays, or - as soon as one of xyz / vel / box is missing - read by the engine's own _read_configuration from the file the phase point references: the routes agree and the flag is applied on both); 3- vs 9-component box independence; homogeneity under a common positive factor (which is what makes the integer/dyadic scaling immaterial). The model is tied to /repo on every run by lock-step of the extracted model against the real classes and by evaluating the statement itself on the real classes (inputs copied before and compared after calculate). calculate_order is run on real engines in process (TurtleMDEngine constructed as the program does, CP2KEngine and GromacsEngine without their constructors; xyz and g96 files written with the package's writers) for every way of leaving arguments out, vel_rev False/True, Position / Velocity / Distance / Distancevel / Dihedral, with decoy overrides and a stale system.box. Where the package applies the flag: EngineBase.propagate hands the engine a system whose vel_rev IS the direction of the run (model propagate_flag / propagate_frame, theorems C20_propagate_*: the order stored for a frame of propagate(reverse=r) is computed under flag r whatever flag the shooting point came in with; recomputing it from the frame's raw content under the frame's stored flag gives the stored order; frame 0 of either direction carries the shooting point's order; the run in the opposite direction from the reversed point starts the engine with the same raw velocities and stores the sign-reversed (Velocity, Distancevel) / the same (position-type) orders). Tied to /repo by real propagations of in-process engines (TurtleMDEngine with velocity Verlet and with the Langevin integrator, ASEEngine with velocity Verlet; Lennard-Jones atoms in a periodic box) with every order-parameter class, incoming system.vel_rev x reverse: frame 0 in lock-step with the model (order and flag), and on the implementation alone (a) frame 0 of either half has the shooting point's order and every frame is flagged with the direction, (b) every stored order is reproduced from the frame read back with the engine's own _extract_frame/_read_configuration under the frame's stored flag, and by the engine's dump_phasepoint + calculate_order, (c) the opposite-direction run from the velocity-reversed point stores the sign-reversed / equal orders frame by frame, (d) with velocity Verlet the run back from the last frame retraces the path with the same orders.",
    "note": "Trusted: Coq kernel (all 53 theorems closed under the global context); extraction (ExtrOcamlBasic) + OCaml driver; the Python harness, which also applies the uninterpreted sqrt/arctan2/sin/cos to the model's exact arguments. Floating-point rounding is outside the model: inputs are dyadic so that every sum/product before the final sqrt/arctan2 is exact; cases whose result depends on the last ulp (exact half-box ties with a box length that is not a power of two, exactly degenerate angles) are counted as float_boundary_skipped. calculate_order's file route takes what _read_configuration returns as an explicit input of the model (the readers themselves are C19's subject); the phase points written to files have at most 4 binary digits so that the 4-decimal box header and the 9-decimal coordinates are exact and both routes must give bit-identical values; a file without box keeps whatever system.box held (modelled as box0; no agreement of routes is claimed for periodic parameters then). Propagation family: the MD itself is not modelled - the model's propagate_frame takes a frame's raw content as an explicit input, so only frame 0 (the start configuration, on the dyadic grid) is compared in lock-step and clauses (a)-(d) for the later frames are oracle-only (evaluated on the implementation; (c) relies on the integrators being deterministic for equal start and seed, (d) on velocity Verlet being time-reversible, both properties of turtlemd/ASE); turtlemd's VelocityVerlet is plugged into TurtleMDEngine through a one-line adapter, the ASE calculator is ase's own LennardJones loaded through create_external; GROMACS/CP2K/LAMMPS propagations (external programs) are C12's subject. Model numbers are integers (dyadic floats over a common power of two; homogeneity theorems C20_scale_*); rotations are rational (integer matrix M with M^T M = c^2 I). Distancevel is modelled as repaired by proposed_fixes/C20_distancevel_box.diff (lead L7; theorem C20_box_form_distancevel_refuted covers the code as it is). Path.reverse's recomputation of velocity-dependent orders is modelled as it is and does not honour the reversal (lead L12: C20_path_reverse_sign_refuted, C20_path_reverse_unevaluable) - reported as a known finding, not claimed.",
    "design_ref": "4/C20",
}
LEVEL = "proof"

TOL = 1e-9
NAN = float("nan")
MAXREP = 3   # violations reported per category

# --------------------------------------------------------------------------- encoding


def vs(a):
    a = list(a)
    return ",".join(":".join(str(int(x)) for x in v) for v in a) if a else "-"


def zl(a):
    a = list(a)
    return ",".join(str(int(x)) for x in a) if a else "-"


def sysenc(case):
    b = "N" if case["box"] is None else zl(case["box"])
    return f"{vs(case['pos'])}|{vs(case['vel'])}|{b}"


def trenc(tr, case):
    if tr is None:
        return "id", "0"
    t = tr["t"]
    if t == "tr":
        return "tr=" + ":".join(map(str, tr["v"])), "0"
    if t == "sh":
        return "sh=" + ":".join(str(x) for x in case["box"][:3]) + "=" + vs(tr["ks"]), "0"
    if t == "rot":
        return "rot=" + vs(tr["m"]), "0"
    if t == "rev":
        return "rev", "0"
    if t == "sc":
        return f"sc={tr['c']}", "0"
    if t == "vr":
        return "id", "1"
    raise ValueError(t)


def request(case, transformed):
    tr, vr = trenc(case.get("tr") if transformed else None, case)
    k, idx, per = case["kind"], case["idx"], int(case["per"])
    s = sysenc(case)
    if k == "dist":
        return f"dist {idx[0]} {idx[1]} {per} {s} {tr} {vr}"
    if k == "dvel":
        return f"dvel 1 {idx[0]} {idx[1]} {per} {s} {tr} {vr}"
    if k in ("pos", "vel"):
        return f"{k} {idx[0]} {idx[1]} {s} {tr} {vr}"
    if k == "dih":
        return f"dih {idx[0]} {idx[1]} {idx[2]} {idx[3]} {per} {s} {tr} {vr}"
    if k == "puck":
        return f"puck {zl(idx)} {per} {s} {tr} {vr}"
    raise ValueError(k)


# --------------------------------------------------------------------------- implementation side


def arrays(case, transformed):
    s = float(2 ** case["g"])
    P = np.array(case["pos"], dtype=float).reshape(-1, 3) / s
    V = np.array(case["vel"], dtype=float).reshape(-1, 3) / s
    box = None if case["box"] is None else np.array(case["box"], dtype=float) / s
    vr = False
    tr = case.get("tr") if transformed else None
    if tr:
        t = tr["t"]
        if t == "tr":
            P = P + np.array(tr["v"], dtype=float) / s
        elif t == "sh":
            L = box[:3]
            for i, k in enumerate(tr["ks"][: len(P)]):
                P[i] = P[i] + np.array(k, dtype=float) * L
        elif t == "rot":
            M = np.array(tr["m"], dtype=float)
            P = (P @ M.T) / tr["c"]
            V = (V @ M.T) / tr["c"]
        elif t == "rev":
            V = -V
        elif t == "vr":
            vr = True
    return P, V, box, vr


def make_op(case):
    from infretis.classes import orderparameter as op
    k, idx, per = case["kind"], case["idx"], case["per"]
    if k == "dist":
        return op.Distance(tuple(idx), periodic=per)
    if k == "dvel":
        return op.Distancevel(tuple(idx), periodic=per)
    if k == "pos":
        return op.Position((idx[0], idx[1]), periodic=False)
    if k == "vel":
        return op.Velocity(idx[0], "xyz"[idx[1]])
    if k == "dih":
        return op.Dihedral(tuple(idx), periodic=per)
    if k == "puck":
        return op.Puckering(tuple(idx), periodic=per)
    raise ValueError(k)


def impl_eval(case, transformed, boxform="nd"):
    """-> (result, note). result = list of floats, or 'N' for IndexError/TypeError,
    or 'EXC:<type>' for anything else. note = None or a purity complaint."""
    from infretis.classes.engines.enginebase import EngineBase
    from infretis.classes.system import System
    P, V, box, vr = arrays(case, transformed)
    if box is not None:
        if boxform == "nd9":
            box = np.concatenate([box[:3], np.zeros(6)])
        elif boxform == "list3":
            box = [float(x) for x in box[:3]]
        elif boxform == "list9":
            box = [float(x) for x in box[:3]] + [0.0] * 6
    kP, kV = P.copy(), V.copy()
    kB = None if box is None else np.array(box, dtype=float).copy()
    s = System()
    s.config = ("conf", 3)
    s.order = [1.25]
    op = make_op(case)
    res = None
    with np.errstate(all="ignore"):
        try:
            if vr or case.get("via_engine"):
                s.vel_rev = vr
                fake = types.SimpleNamespace(order_function=op)
                out = EngineBase.calculate_order(fake, s, xyz=P, vel=V, box=box)
            else:
                s.pos, s.vel, s.box = P, V, box
                out = op.calculate(s)
            res = [float(x) for x in out]
        except (IndexError, TypeError) as e:
            res = "N"
        except Exception as e:  # noqa: BLE001
            res = f"EXC:{type(e).__name__}"
    note = None
    if not np.array_equal(P, kP) or not np.array_equal(V, kV):
        note = "calculate modified the coordinate/velocity arrays it was given"
    elif box is not None and not np.array_equal(np.array(box, dtype=float), kB):
        note = "calculate modified the box it was given"
    elif s.config != ("conf", 3) or s.order != [1.25] or (s.pos is not P):
        note = "calculate modified the System object (config/order/pos)"
    elif not (vr or case.get("via_engine")) and (s.vel is not V or s.vel_rev is not False):
        note = "calculate modified the System object (vel/vel_rev)"
    return res, note


# --------------------------------------------------------------------------- model side -> floats


def puck_from_z(z):
    """The part of Puckering.calculate after z[] (a fixed function of z; sqrt, sin, cos and
    arctan2 are applied here, to the model's exact arguments)."""
    h1 = h2 = q3 = 0.0
    for i in range(6):
        h1 += math.sqrt(2 / 6) * z[i] * math.cos(2 * math.pi * 2 * i / 6)
        h2 += -math.sqrt(2 / 6) * z[i] * math.sin(2 * math.pi * 2 * i / 6)
        q3 += math.sqrt(1 / 6) * (-1) ** i * z[i]
    q2 = math.sqrt(h1 ** 2 + h2 ** 2)
    theta = math.atan2(q2, q3)
    phi = math.atan2(h2, h1)
    if phi < 0:
        phi += 2 * math.pi
    return [math.degrees(theta), math.degrees(phi), math.sqrt(sum(x * x for x in z))]


def expect(case, mstr, scale):
    """model answer -> (expected floats | 'N', flags) ; flags: period per component (0 = not an
    angle), skip = components that are exactly degenerate (ill-conditioned in floats)."""
    k = case["kind"]
    if mstr == "N":
        return "N", {}
    if mstr.startswith("ERR"):
        return mstr, {}
    if k == "dist":
        return [math.sqrt(int(mstr)) / scale], {}
    if k == "dvel":
        num, den = (int(x) for x in mstr.split(","))
        if den == 0:
            return [NAN], {}
        return [num / math.sqrt(den) / scale], {}
    if k in ("pos", "vel"):
        return [int(mstr) / scale], {"exact": True}
    if k == "dih":
        a, b, c, bb, t = (int(x) for x in mstr.split(","))
        if bb == 0:
            return [NAN], {}
        numer = t / math.sqrt(bb)
        den_exact = a * bb - b * c          # denom * bb, exact
        denom = den_exact / bb
        fl = {"period": [2 * math.pi]}
        mag = max(abs(a), abs(b * c) / bb, abs(numer))
        if (t == 0 and den_exact == 0) or math.hypot(numer, denom) < 1e-5 * mag:
            fl["skip"] = [0]                # (numer, denom) = (0, 0) or lost in cancellation: the angle is ill-defined
        return [math.atan2(numer, denom)], fl
    if k == "puck":
        zs, nn = mstr.split(";")
        zeta = [int(x) for x in zs.split(",")]
        nn = int(nn)
        if nn == 0:
            # R1 x R2 = 0: no mean plane; the implementation divides 0 by 0 (nan) or noise by noise
            return [NAN, NAN, NAN], {"skip": [0, 1, 2]}
        z = [zi / (6.0 * math.sqrt(nn)) / scale for zi in zeta]
        fl = {"period": [360.0, 360.0, 0]}
        h1 = 2 * zeta[0] - zeta[1] - zeta[2] + 2 * zeta[3] - zeta[4] - zeta[5]
        h2 = zeta[1] - zeta[2] + zeta[4] - zeta[5]
        q3 = zeta[0] - zeta[1] + zeta[2] - zeta[3] + zeta[4] - zeta[5]
        zmax = max(abs(x) for x in zeta)
        skip = []
        if math.hypot(h1, h2) <= 1e-5 * zmax:
            skip.append(1)                  # phi = arctan2(h2, h1) with h1 = h2 = 0 (exactly, or lost in cancellation)
            if abs(q3) <= 1e-5 * zmax:
                skip.append(0)
        if skip:
            fl["skip"] = skip
        return puck_from_z(z), fl
    raise ValueError(k)


def close(a, b, flags, sign=1.0):
    """a, b lists of floats (or 'N'); compares sign*a with b."""
    if isinstance(a, str) or isinstance(b, str):
        return a == b
    if len(a) != len(b):
        return False
    per = flags.get("period", [0] * len(a))
    for j, (x, y) in enumerate(zip(a, b)):
        if j in flags.get("skip", ()):
            continue
        x = sign * x
        if math.isnan(x) or math.isnan(y):
            if not (math.isnan(x) and math.isnan(y)):
                return False
            continue
        if flags.get("exact"):
            if x != y:
                return False
            continue
        d = abs(x - y)
        if per[j]:
            d = abs((x - y + per[j] / 2) % per[j] - per[j] / 2)
        if d > TOL * max(1.0, abs(x), abs(y)):
            return False
    return True


# --------------------------------------------------------------------------- exact side conditions


def is_pow2(n):
    return n > 0 and (n & (n - 1)) == 0


def tie(d, L):
    """d is exactly (m + 1/2) L"""
    return L > 0 and (2 * d) % L == 0 and ((2 * d) // L) % 2 == 1


def separations(case):
    k, idx, P = case["kind"], case["idx"], case["pos"]
    try:
        if k in ("dist", "dvel"):
            pairs = [(idx[1], idx[0])]
        elif k == "dih":
            pairs = [(idx[0], idx[1]), (idx[1], idx[2]), (idx[3], idx[2])]
        elif k == "puck":
            pairs = [(idx[j], idx[0]) for j in range(1, 6)]
        else:
            return []
        return [[P[a][c] - P[b][c] for c in range(3)] for a, b in pairs]
    except IndexError:
        return []


def tie_info(case):
    """(some separation component is an exact half-box tie, ... with a non power-of-two length)"""
    if not case["per"] or case["box"] is None:
        return False, False
    box = case["box"][:3]
    anyt = badt = False
    for d in separations(case):
        for c, L in enumerate(box):
            if tie(d[c], L):
                anyt = True
                if not is_pow2(L):
                    badt = True
    return anyt, badt


# --------------------------------------------------------------------------- rotations


def quat_rot(a, b, c, d):
    """integer matrix M with M^T M = n^2 I, det M = n^3, n = a^2+b^2+c^2+d^2 (every rational
    rotation is M / n for some integer quaternion)"""
    n = a * a + b * b + c * c + d * d
    M = [[a * a + b * b - c * c - d * d, 2 * (b * c - a * d), 2 * (b * d + a * c)],
         [2 * (b * c + a * d), a * a - b * b + c * c - d * d, 2 * (c * d - a * b)],
         [2 * (b * d - a * c), 2 * (c * d + a * b), a * a - b * b - c * c + d * d]]
    return M, n


FIXED_ROTS = [quat_rot(*q) for q in [(1, 1, 0, 0), (1, 1, 1, 1), (0, 1, 0, 0), (1, 0, 0, 1), (1, 1, 1, 0),
                                     (2, 1, 0, 0), (1, 2, 2, 0), (2, 1, 1, 1), (3, 1, 1, 0), (1, 2, 3, 1)]]


def reduce_rot(M, n):
    g = n
    for r in M:
        for x in r:
            g = math.gcd(g, abs(x))
    return [[x // g for x in r] for r in M], n // g


FIXED_ROTS = [reduce_rot(M, n) for M, n in FIXED_ROTS]


def rand_rot(rng):
    while True:
        q = [rng.randrange(-3, 4) for _ in range(4)]
        if any(q):
            return reduce_rot(*quat_rot(*q))


# --------------------------------------------------------------------------- the check


class Collector:
    def __init__(self, ctx):
        self.ctx = ctx
        self.reqs = []
        self.items = []      # (case, idx_orig, idx_tr, impl_o, impl_t, note, boxforms)
        self.rep = {}
        self.pending_ls = []

    def report(self, cat, what, payload, found, rank=0):
        """collect; flush() reports the MAXREP best-ranked (least degenerate) per category"""
        self.rep.setdefault(cat, []).append((rank, len(self.rep.get(cat, ())), what, payload, found))

    def flush(self):
        for cat in self.rep:
            for rank, _, what, payload, found in sorted(self.rep[cat], key=lambda x: x[:2])[:MAXREP]:
                payload = dict(payload, failing_cases_in_this_category=len(self.rep[cat]))
                self.ctx.violation(what, payload, found)

    def add(self, case):
        io, note_o = impl_eval(case, False)
        i0 = len(self.reqs)
        self.reqs.append(request(case, False))
        i1, it, note_t = None, None, None
        if case.get("tr"):
            i1 = len(self.reqs)
            self.reqs.append(request(case, True))
            if case["tr"]["t"] != "sc":
                it, note_t = impl_eval(case, True)
        forms = None
        if case["per"] and case["box"] is not None and len(case["box"]) == 3 and case["kind"] in ("dist", "dvel", "dih", "puck"):
            forms = {bf: impl_eval(case, False, bf)[0] for bf in ("nd9", "list3", "list9")}
        self.items.append((case, i0, i1, io, it, note_o or note_t, forms))
        t = case["tr"]["t"] if case.get("tr") else "none"
        if t == "rot":
            t = "rot_proper" if case["tr"].get("proper", True) else "rot_improper"
        self.ctx.dist(f"{case['kind']}/{'periodic' if case['per'] and case['box'] is not None else 'open'}/{t}")


def judge(col, outs):
    """lock-step comparison + the property's own statement on the implementation."""
    ctx = col.ctx
    stats = {"lockstep_compared": 0, "lockstep_disagreements": 0, "float_boundary_skipped": 0,
             "oracle_evaluated": 0, "oracle_guard_excluded": 0, "box_forms_compared": 0}
    for case, i0, i1, io, it, note, forms in col.items:
        s = 2 ** case["g"]
        anyt, badt = tie_info(case)
        skip_ls = badt and case["kind"] != "dist"
        mo = outs[i0]
        eo, fl = expect(case, mo, s)
        ctx.count(col.reqs[i0], nontrivial=True)
        payload = {"case": case, "request": col.reqs[i0], "model": mo, "impl": io}
        # --- purity
        if note:
            col.report("pure", f"C20 statement fails on the implementation: {note}", payload, True)
        # --- lock-step on the untransformed input
        if skip_ls:
            stats["float_boundary_skipped"] += 1
        else:
            stats["lockstep_compared"] += 1
            if not close(eo, io, fl):
                stats["lockstep_disagreements"] += 1
                col.pending_ls.append((f"{case['kind']}", dict(payload, expected_from_model=eo)))
        # --- box forms (oracle, exact equality)
        if forms is not None:
            for bf, val in forms.items():
                stats["box_forms_compared"] += 1
                same = (val == io) or (not isinstance(val, str) and not isinstance(io, str)
                                       and all((x == y) or (math.isnan(x) and math.isnan(y)) for x, y in zip(val, io)))
                if not same:
                    degenerate = isinstance(io, str) or any(math.isnan(x) for x in io)
                    col.report("boxform_" + case["kind"],
                               f"C20 statement fails on the implementation: {type(make_op(case)).__name__} gives {io} with the 3-component "
                               f"ndarray box but {val} with the box form {bf} (N = IndexError/TypeError)",
                               dict(payload, box_form=bf, impl_box_form=val), True, rank=(1 if degenerate else 0) * 10 + ["nd9", "list9", "list3"].index(bf))
        # --- half-box bound on the real distance
        if case["kind"] == "dist" and case["per"] and case["box"] is not None and len(case["box"]) >= 3 and not isinstance(io, str):
            bound = math.sqrt(sum((x / s) ** 2 for x in case["box"][:3])) / 2
            if io[0] > bound * (1 + TOL):
                col.report("bound", f"C20 statement fails on the implementation: periodic distance {io[0]} exceeds half the box diagonal {bound}", payload, True)
        # --- transformed input
        if i1 is None:
            continue
        tr = case["tr"]
        t = tr["t"]
        mt = outs[i1]
        scale = s * tr["c"] if t in ("rot", "sc") else s
        et, flt = expect(case, mt, scale)
        ctx.count(col.reqs[i1], nontrivial=True)
        payload_t = {"case": case, "request": col.reqs[i1], "model": mt, "impl_transformed": it, "impl_original": io}
        if t == "sc":
            # homogeneity: the model on the scaled system, unscaled, is the implementation's value
            stats["lockstep_compared"] += 1
            if not skip_ls and not close(et, io, flt):
                stats["lockstep_disagreements"] += 1
                col.pending_ls.append(("scale", dict(payload_t, expected_from_model=et)))
            continue
        if skip_ls:
            stats["float_boundary_skipped"] += 1
        else:
            stats["lockstep_compared"] += 1
            if not close(et, it, flt):
                stats["lockstep_disagreements"] += 1
                col.pending_ls.append((f"{case['kind']}/{t}", dict(payload_t, expected_from_model=et)))
        # the statement itself, on the implementation only
        rel = case["kind"] in ("dist", "dvel", "dih", "puck")
        sign, applies = 1.0, True
        if t in ("rev", "vr"):
            sign = -1.0 if case["kind"] in ("dvel", "vel") else 1.0
            ofl = dict(fl, exact=True)
        elif t == "tr":
            applies, ofl = rel, fl
        elif t == "sh":
            applies = rel and (case["kind"] == "dist" or not anyt)
            ofl = fl
            if rel and not applies:
                stats["oracle_guard_excluded"] += 1
        elif t == "rot":
            applies, ofl = rel, fl
            if not tr.get("proper", True):
                if case["kind"] == "dih":
                    sign = -1.0
                elif case["kind"] == "puck":
                    applies = False
        if applies:
            stats["oracle_evaluated"] += 1
            if not close(io, it, ofl, sign):
                what = {"tr": "rigid translation", "sh": "shifting atoms by box vectors", "rot": "rotation",
                        "rev": "velocity reversal", "vr": "velocity reversal through calculate_order(vel_rev=True)"}[t]
                exp = "change sign" if sign < 0 else "stay the same"
                col.report(f"sym_{case['kind']}_{t}",
                           f"C20 statement fails on the implementation: {type(make_op(case)).__name__} should {exp} under {what}: "
                           f"original {io}, transformed {it}", payload_t, True)
    return stats


# --------------------------------------------------------------------------- case generators


def transforms_for(case, rng, k):
    """the k-th transformation of a fixed cycle, adapted to the case"""
    n = len(case["pos"])
    rel = case["kind"] in ("dist", "dvel", "dih", "puck")
    periodic = case["per"] and case["box"] is not None and len(case["box"]) >= 3
    cyc = ["none", "tr", "sh", "rot", "rev", "vr", "sc", "roti"]
    t = cyc[k % len(cyc)]
    if t == "none":
        return None
    if t == "tr":
        return {"t": "tr", "v": [rng.randrange(-40, 41) for _ in range(3)]} if rel else {"t": "rev"}
    if t == "sh":
        if not (rel and periodic):
            return {"t": "tr", "v": [rng.randrange(-40, 41) for _ in range(3)]} if rel else {"t": "vr"} if case["box"] is not None else None
        return {"t": "sh", "ks": [[rng.randrange(-2, 3) for _ in range(3)] for _ in range(n)]}
    if t in ("rot", "roti"):
        if not rel:
            return {"t": "rev"}
        if periodic:      # a periodic box is not rotation symmetric: use the box symmetries instead
            if t == "rot":
                return {"t": "sh", "ks": [[rng.randrange(-3, 4) for _ in range(3)] for _ in range(n)]}
            return {"t": "tr", "v": [rng.randrange(-400, 401) for _ in range(3)]}
        M, c = FIXED_ROTS[(k // len(cyc)) % len(FIXED_ROTS)] if rng.random() < 0.5 else rand_rot(rng)
        if t == "roti" and case["kind"] in ("dist", "dvel", "dih"):
            return {"t": "rot", "m": [[-x for x in r] for r in M], "c": c, "proper": False}
        return {"t": "rot", "m": M, "c": c, "proper": True}
    if t == "rev":
        return {"t": "rev"}
    if t == "vr":
        return {"t": "vr"} if case["box"] is not None else {"t": "rev"}
    if t == "sc":
        return {"t": "sc", "c": rng.choice([2, 3, 5, 7])}
    return None


def gen_small(col, rng, tier):
    """exhaustive small scope"""
    k = 0
    # two atoms: all separations on a cube, two reference atoms, open / two boxes
    R = 4 if tier == "quick" else 5
    vels = [[[1, 0, -2], [3, 5, 1]], [[0, 0, 0], [-4, 2, 7]]]
    boxes = [(None, True), ([4, 4, 4], True), ([3, 5, 8], True), ([4, 4, 4], False)]
    if tier != "quick":
        boxes += [([2, 6, 16], True), ([8, 7, 1], True)]
    for p0 in ([0, 0, 0], [1, -2, 3]):
        for d in itertools.product(range(-R, R + 1), repeat=3):
            p1 = [p0[c] + d[c] for c in range(3)]
            k += 1
            for bi, (box, per) in enumerate(boxes):
                for ki, kind in enumerate(("dist", "dvel")):
                    case = {"kind": kind, "idx": [0, 1], "per": per, "g": 1 + (bi % 3), "pos": [p0, p1],
                            "vel": vels[(k // 7) % 2], "box": box}
                    # every (box, kind) meets every map of the cycle as the geometry index k advances
                    case["tr"] = transforms_for(case, rng, k + 3 * bi + 5 * ki)
                    col.add(case)
    # four atoms on the corners of the unit cube (all 8^4 choices, collinear and coincident
    # ones included), open and in a box shorter than the separations
    corners = list(itertools.product((0, 1), repeat=3))
    for quad in itertools.product(corners, repeat=4):
        k += 1
        for bi, box in enumerate((None, [1, 2, 3])):
            case = {"kind": "dih", "idx": [0, 1, 2, 3], "per": box is not None, "g": 0,
                    "pos": [list(q) for q in quad], "vel": [], "box": box}
            case["tr"] = transforms_for(case, rng, k + 3 * bi)
            col.add(case)
    # Position / Velocity: every atom and dimension of a small system
    P = [[3, -1, 4], [1, 5, -9], [2, 6, 5]]
    V = [[-3, 5, 8], [9, -7, 9], [3, 2, -3]]
    for kind in ("pos", "vel"):
        for i in range(3):
            for dim in range(3):
                for tr in (None, {"t": "rev"}, {"t": "vr"}, {"t": "sc", "c": 3}):
                    col.add({"kind": kind, "idx": [i, dim], "per": False, "g": 2, "pos": P, "vel": V, "box": [8, 8, 8], "tr": tr})
    # index errors (N on both sides)
    col.add({"kind": "dist", "idx": [0, 5], "per": False, "g": 0, "pos": P, "vel": V, "box": None, "tr": None})
    col.add({"kind": "dvel", "idx": [0, 1], "per": False, "g": 0, "pos": P, "vel": V[:1], "box": None, "tr": None})
    col.add({"kind": "dih", "idx": [0, 1, 2, 3], "per": False, "g": 0, "pos": P, "vel": V, "box": None, "tr": None})
    # short boxes (fewer than three lengths: the remaining components are zeroed by pbc_dist_coordinate)
    for box in ([], [4], [4, 2]):
        for kind, idx in (("dist", [0, 1]), ("dvel", [2, 0]), ("dih", [0, 1, 2, 0])):
            col.add({"kind": kind, "idx": idx, "per": True, "g": 0, "pos": P, "vel": V, "box": box, "tr": None})


RING_SHAPES = {
    "chair": [[4, 0, 1], [2, 3, -1], [-2, 3, 1], [-4, 0, -1], [-2, -3, 1], [2, -3, -1]],
    "boat": [[4, 0, 2], [2, 3, 0], [-2, 3, 0], [-4, 0, 2], [-2, -3, 0], [2, -3, 0]],
    "planar": [[4, 0, 0], [2, 3, 0], [-2, 3, 0], [-4, 0, 0], [-2, -3, 0], [2, -3, 0]],
    "twist": [[4, 0, 1], [2, 3, 2], [-2, 3, -1], [-4, 0, 1], [-2, -3, -2], [2, -3, 0]],
    "envelope": [[4, 0, 3], [2, 3, 0], [-2, 3, 0], [-4, 0, 0], [-2, -3, 0], [2, -3, 0]],
    "collinear": [[0, 0, 0], [1, 1, 1], [2, 2, 2], [3, 3, 3], [4, 4, 4], [5, 5, 5]],
}


def gen_puck(col, rng, tier):
    k = 0
    n = 1500 if tier == "quick" else 12000
    shapes = list(RING_SHAPES.items())
    for j in range(n):
        name, base = shapes[j % len(shapes)]
        amp = 0 if j < 8 * len(shapes) else rng.choice([0, 1, 2, 6])
        ring = [[4 * x + rng.randrange(-amp, amp + 1) for x in p] for p in base]
        extra = [[rng.randrange(-30, 31) for _ in range(3)] for _ in range(2)]
        pos = ring + extra
        idx = [0, 1, 2, 3, 4, 5]
        if j % 5 == 4:
            perm = list(range(8))
            rng.shuffle(perm)
            pos = [None] * 8
            for a, b in enumerate(perm):
                pos[b] = (ring + extra)[a]
            idx = perm[:6]
        per = j % 2 == 0
        box = [rng.choice([32, 64, 40, 48, 100]) for _ in range(3)] if (per or j % 3 == 0) else None
        case = {"kind": "puck", "idx": idx, "per": per, "g": rng.randrange(0, 5), "pos": pos, "vel": [], "box": box}
        case["tr"] = transforms_for(case, rng, k)
        k += 1
        col.add(case)


def gen_random(col, rng, tier):
    n = 2500 if tier == "quick" else 30000
    for j in range(n):
        kind = rng.choice(["dist", "dvel", "dih", "dih", "puck", "dvel"])
        na = rng.randrange(6, 9)
        g = rng.randrange(0, 7)
        rngc = rng.choice([4, 16, 64, 300])
        pos = [[rng.randrange(-rngc, rngc + 1) for _ in range(3)] for _ in range(na)]
        vel = [[rng.randrange(-50, 51) for _ in range(3)] for _ in range(na)]
        r = rng.random()
        if r < 0.2:
            box = None
        elif r < 0.55:
            box = [2 ** rng.randrange(1, 7) for _ in range(3)]                 # powers of two: ties are exact in floats
        elif r < 0.9:
            box = [rng.randrange(1, 80) for _ in range(3)]
        else:
            box = [rng.randrange(1, 80) for _ in range(3)] + [rng.randrange(-9, 10) for _ in range(6)]   # 9-component, off-diagonal junk
        per = rng.random() < 0.7
        ni = {"dist": 2, "dvel": 2, "dih": 4, "puck": 6}[kind]
        idx = rng.sample(range(na), ni)
        if box is not None and rng.random() < 0.25:
            # force an exact half-box separation between the first two selected atoms
            a, b = idx[1], idx[0]
            c = rng.randrange(3)
            if box[c] % 2 == 0:
                pos[a][c] = pos[b][c] + box[c] // 2 + box[c] * rng.randrange(-2, 3)
        if rng.random() < 0.03:
            idx[-1] = idx[0]                                                   # coincident atoms: degenerate on both sides
        case = {"kind": kind, "idx": idx, "per": per, "g": g, "pos": pos, "vel": vel, "box": box}
        case["tr"] = transforms_for(case, rng, rng.randrange(0, 64))
        col.add(case)


def run_pbc(ctx, runner, rng, tier):
    """pbc_dist_coordinate itself: every (d, L) of a small range, then shapes."""
    from infretis.classes.orderparameter import pbc_dist_coordinate
    Lmax = 12 if tier == "quick" else 24
    reqs, metas = [], []
    skipped = 0
    for g in (0, 2):
        s = float(2 ** g)
        for L in range(1, Lmax + 1):
            for d in range(-3 * L - 1, 3 * L + 2):
                with np.errstate(all="ignore"):
                    w = float(pbc_dist_coordinate(np.array([d / s]), np.array([L / s]))[0]) * s
                reqs.append(f"pbc1 {d} {L}")
                metas.append((d, L, g, w))
    nshape = 60 if tier == "quick" else 400
    shape_cases = []
    for _ in range(nshape):
        nd, nb = rng.randrange(1, 5), rng.randrange(0, 5)
        D = [rng.randrange(-40, 41) for _ in range(nd)]
        B = [rng.choice([1, 2, 4, 8, 16]) for _ in range(nb)]
        with np.errstate(all="ignore"):
            try:
                w = pbc_dist_coordinate(np.array(D, dtype=float) / 4, np.array(B, dtype=float) / 4)
                io = zl([int(x * 4) for x in w]) if all(float(x * 4).is_integer() for x in w) else "nonint:" + repr(list(w))
            except (IndexError, TypeError):
                io = "N"
        shape_cases.append((f"pbc {zl(D)} {zl(B)}", io, D, B))
    outs = runner.run(reqs + [c[0] for c in shape_cases])
    bad = 0
    nrep = {}

    def rep(cat, what, payload, found):
        nrep[cat] = nrep.get(cat, 0) + 1
        if nrep[cat] <= MAXREP:
            ctx.violation(what, payload, found)
    for (d, L, g, w), mo, rq in zip(metas, outs, reqs):
        ctx.count(rq + f" g={g}")
        ctx.dist("pbc_dist_coordinate/scalar")
        mw, mt = mo.split()
        payload = {"function": "pbc_dist_coordinate", "distance": d / 2 ** g, "box_length": L / 2 ** g, "impl": w / 2 ** g, "model": mo, "request": rq}
        # the statement: never more than half a box length, and an image of d
        if not (2 * abs(w) <= L and float((w - d) / L).is_integer()):
            rep("pbc_bound", f"C20 statement fails on the implementation: pbc_dist_coordinate({d / 2 ** g}, L={L / 2 ** g}) = {w / 2 ** g} is not a minimum image", payload, True)
            continue
        if mt == "1" and not is_pow2(L):
            skipped += 1     # tie broken by the rounding of d * (1/L) in floats; |w| = L/2 was checked above
            continue
        if float(int(mw)) != w:
            bad += 1
            rep("pbc_ls", "correspondence model/implementation broken for pbc_dist_coordinate (scalar)", dict(payload, correspondence="c20 runner vs pbc_dist_coordinate"), False)
    for (rq, io, D, B), mo in zip(shape_cases, outs[len(reqs):]):
        ctx.count(rq)
        ctx.dist("pbc_dist_coordinate/shapes")
        if mo != io:
            bad += 1
            rep("pbc_ls", "correspondence model/implementation broken for pbc_dist_coordinate (shapes / IndexError / zero fill)",
                {"correspondence": "c20 runner vs pbc_dist_coordinate", "request": rq, "model": mo, "impl": io}, False)
    ctx.sample({"request": reqs[len(reqs) // 2], "model": outs[len(reqs) // 2], "impl_wrapped_units": metas[len(reqs) // 2][3]})
    return {"pbc_compared": len(reqs) + len(shape_cases) - skipped, "pbc_disagreements": bad, "pbc_float_boundary_skipped": skipped}


# --------------------------------------------------------------------------- Path.reverse (lead L12)


def run_path_reverse(ctx, runner, rng, tier):
    from infretis.classes.orderparameter import Position, Velocity
    from infretis.classes.path import Path
    from infretis.classes.system import System
    reqs, metas = [], []
    vals = [3, -5, 0]
    protos = []
    for v in vals:
        protos.append(("S", v))
    protos.append(("N", 7))
    maxlen = 2 if tier == "quick" else 3
    seqs = []
    for n in range(0, maxlen + 1):
        seqs += list(itertools.product(range(len(protos)), repeat=n))
    for seq in seqs:
        for veldep in (True, False):
            for revv in (True, False):
                flags = [rng.random() < 0.5 for _ in seq]
                p = Path(maxlen=10)
                fr = []
                for pi, fl in zip(seq, flags):
                    kind, v = protos[pi]
                    s = System()
                    s.vel_rev = fl
                    s.config = ("f", 1)
                    if kind == "S":
                        s.pos = np.array([[float(v), 1.0, 2.0]])
                        s.vel = np.array([[float(v), 0.5, 0.25]])
                        s.box = None
                        senc = f"{4 * v}:4:8|{4 * v}:2:1|N"
                    else:
                        s.pos = None
                        s.vel = None
                        senc = "N"
                    s.order = [float(v)]
                    p.phasepoints.append(s)
                    fr.append(f"{4 * v}/{int(fl)}/{senc}")
                op = Velocity(0, "x") if veldep else Position((0, 0), periodic=False)
                kind = "vel" if veldep else "pos"
                req = f"prev {kind} 0 0 {int(veldep)} {int(revv)} {'+'.join(fr) if fr else '-'}"
                try:
                    r = p.reverse(op, rev_v=revv)
                    io = "+".join(f"{int(round(4 * float(x.order[0])))}/{int(bool(x.vel_rev))}" for x in r.phasepoints) or "-"
                    orders_after = [float(x.order[0]) for x in r.phasepoints]
                except (TypeError, IndexError) as e:
                    io, orders_after = "N", None
                reqs.append(req)
                metas.append((io, orders_after, [protos[i] for i in seq], veldep, revv))
                ctx.dist(f"path_reverse/{'veldep' if veldep else 'velindep'}/{'rev_v' if revv else 'keep_v'}")
    outs = runner.run(reqs)
    bad = 0
    l12_sign = l12_none = 0
    for rq, mo, (io, after, fr, veldep, revv) in zip(reqs, outs, metas):
        ctx.count(rq)
        if mo != io:
            bad += 1
            if bad <= MAXREP:
                ctx.violation("correspondence model/implementation broken for Path.reverse (order recomputation)",
                              {"correspondence": "c20 runner vs Path.reverse", "request": rq, "model": mo, "impl": io}, False)
        # the statement: a velocity-type order changes sign when the velocities are reversed
        if veldep and revv and fr:
            if after is None:
                if any(k == "N" for k, _ in fr):
                    l12_none += 1
            else:
                want = [-float(v) for _, v in reversed(fr)]
                if after != want and any(v != 0 for _, v in fr):
                    l12_sign += 1
    if l12_sign:
        ctx.known("Path.reverse with a velocity-dependent order parameter re-evaluates the stored velocities without applying the toggled vel_rev flag: the order keeps its sign (lead L12; theorem C20_path_reverse_sign_refuted)")
    if l12_none:
        ctx.known("Path.reverse with a velocity-dependent order parameter raises TypeError on frames whose pos/vel are None, i.e. on every frame made by snapshot_to_system (lead L12; theorem C20_path_reverse_unevaluable)")
    ctx.sample({"request": reqs[-1], "model": outs[-1], "impl": metas[-1][0]})
    return {"path_reverse_compared": len(reqs), "path_reverse_disagreements": bad,
            "L12_sign_not_flipped_cases": l12_sign, "L12_unevaluable_cases": l12_none}


# --------------------------------------------------------------------------- calculate_order: array route and file route
#
# EngineBase.calculate_order(system, xyz, vel, box) uses the arrays handed in when all three are given and
# otherwise reads the phase point from system.config[0] with the engine's own _read_configuration.  The
# vel_rev flag of the phase point has to be honoured on both routes (theorems C20_calculate_order_file_route,
# C20_calculate_order_routes_agree, C20_velocity_sign_calculate_order_*).  Real engines that work in process:
# TurtleMDEngine (constructed as the program does; xyz files), CP2KEngine and GromacsEngine (created without
# running their constructors, which look for the external program's input files; xyz / g96 readers).

ENGINES = ("turtlemd", "cp2k", "gromacs")
FILE_MASKS = ("000", "110", "101", "011", "100", "010", "001")     # which of xyz / vel / box are handed in
ROUTE_KINDS = ("pos", "vel", "dist", "dvel", "dih")
_ENGINES = {}


def get_engine(name):
    if name in _ENGINES:
        return _ENGINES[name]
    if name == "turtlemd":
        from infretis.classes.engines.turtlemdengine import TurtleMDEngine
        try:
            eng = TurtleMDEngine(timestep=0.025, subcycles=1, temperature=0.07, boltzmann=1.0,
                                 integrator={"class": "VelocityVerlet", "settings": {}},
                                 potential={"class": "DoubleWell", "settings": {"a": 1.0, "b": 2.0, "c": 0.0}},
                                 particles={"mass": [1.0], "name": ["Z"], "pos": [[-1.0]]}, box={"periodic": [False]})
        except Exception:  # noqa: BLE001  the constructor is not what is examined here
            eng = object.__new__(TurtleMDEngine)
            eng.ext = "xyz"
    elif name == "cp2k":
        from infretis.classes.engines.cp2k import CP2KEngine
        eng = object.__new__(CP2KEngine)
        eng.ext = "xyz"
    elif name == "gromacs":
        from infretis.classes.engines.gromacs import GromacsEngine
        eng = object.__new__(GromacsEngine)
        eng.ext = "g96"
    else:
        raise ValueError(name)
    _ENGINES[name] = eng
    return eng


def route_arrays(case):
    """the phase point (what the file holds) and the overrides handed in on the file route, as floats"""
    s = float(2 ** case["g"])
    P = np.array(case["pos"], dtype=float).reshape(-1, 3) / s
    V = np.array(case["vel"], dtype=float).reshape(-1, 3) / s
    B = None if case["box"] is None else np.array(case["box"], dtype=float) / s
    return P, V, B


def route_overrides(case):
    """integer (grid) overrides: the phase point itself, or decoys that differ from it in every entry"""
    box = case["box"] if case["box"] is not None else [8 << case["g"]] * 3
    if case.get("decoy"):
        return ([[x + 3 for x in p] for p in case["pos"]], [[2 * x + 1 for x in v] for v in case["vel"]], [x + 2 for x in box])
    return case["pos"], case["vel"], box


def write_conf(case, tmp):
    """the phase point as a configuration file of the engine (cached per engine and phase point)"""
    ext = get_engine(case["engine"]).ext
    P, V, B = route_arrays(case)
    path = os.path.join(tmp, f"c{abs(hash((ext, case['g'], repr(case['pos']), repr(case['vel']), repr(case['box'])))):x}.{ext}")
    if os.path.exists(path):
        return path
    if ext == "g96":
        from infretis.classes.engines.gromacs import write_gromos96_file
        labels = [f"{i + 1:5d} {'SOL':5s} {'OW':5s}{i + 1:7d}" for i in range(len(P))]
        raw = {"TITLE": ["c20 phase point"], "POSITION": list(labels), "VELOCITY": list(labels)}
        if B is not None:
            raw["BOX"] = ["placeholder"]
        write_gromos96_file(path, raw, P, V, B)
    else:
        from infretis.classes.engines.engineparts import write_xyz_trajectory
        write_xyz_trajectory(path, P, V, ["Ar"] * len(P), B, append=False)
    return path


def route_eval(case, route, vr, path):
    """the REAL engine's calculate_order for the phase point in `path`; route 'array' hands the phase point in,
    route 'file' hands in what the mask says (the rest is None).  -> (floats | 'N' | 'EXC:..', purity note)"""
    from infretis.classes.system import System
    eng = get_engine(case["engine"])
    sc = float(2 ** case["g"])
    P, V, B = route_arrays(case)
    if route == "array":
        xyz, vel = P, V
        box = B if B is not None else np.array([8.0, 8.0, 8.0])
    else:
        oP, oV, oB = route_overrides(case)
        m = case["mask"]
        xyz = np.array(oP, dtype=float).reshape(-1, 3) / sc if m[0] == "1" else None
        vel = np.array(oV, dtype=float).reshape(-1, 3) / sc if m[1] == "1" else None
        box = np.array(oB, dtype=float) / sc if m[2] == "1" else None
    keep = [None if a is None else a.copy() for a in (xyz, vel, box)]
    s = System()
    s.config = (path, 0)
    s.order = [1.25]
    s.vel_rev = vr
    s.box = None if case.get("box0") is None else np.array(case["box0"], dtype=float) / sc
    eng.order_function = make_op(case)
    with np.errstate(all="ignore"):
        try:
            res = [float(x) for x in eng.calculate_order(s, xyz=xyz, vel=vel, box=box)]
        except (IndexError, TypeError):
            res = "N"
        except Exception as e:  # noqa: BLE001
            res = f"EXC:{type(e).__name__}"
    note = None
    if any((a is None) != (k is None) or (a is not None and not np.array_equal(a, k)) for a, k in zip((xyz, vel, box), keep)):
        note = "calculate_order modified the arrays it was given"
    elif s.config != (path, 0) or s.order != [1.25] or s.vel_rev is not vr:
        note = "calculate_order modified config / order / vel_rev of the System"
    return res, note


def route_request(case, route, vr):
    oP, oV, oB = route_overrides(case) if route == "file" else (case["pos"], case["vel"], case["box"] if case["box"] is not None else [8 << case["g"]] * 3)
    inner = {"kind": case["kind"], "idx": case["idx"], "per": case["per"], "pos": oP, "vel": oV, "box": oB, "tr": {"t": "vr"} if vr else None}
    conf = sysenc(case)
    box0 = "N" if case.get("box0") is None else zl(case["box0"])
    return f"via {case['mask'] if route == 'file' else '111'} {conf} {box0} {request(inner, True)}"


def same_vals(a, b, sign=1.0):
    if isinstance(a, str) or isinstance(b, str):
        return a == b
    return len(a) == len(b) and all((sign * x == y) or (math.isnan(x) and math.isnan(y)) for x, y in zip(a, b))


def route_case_eval(case, tmp):
    """-> dict with the four implementation values, requests and the verdicts of the statement"""
    path = write_conf(case, tmp)
    vals, notes, reqs = {}, [], []
    for route in ("file", "array"):
        for vr in (False, True):
            vals[(route, vr)], note = route_eval(case, route, vr, path)
            if note:
                notes.append(f"{route} route, vel_rev={vr}: {note}")
            reqs.append(((route, vr), route_request(case, route, vr)))
    veltype = case["kind"] in ("vel", "dvel")
    name = type(make_op(case)).__name__
    fails = []
    how = {"file": f"read from the configuration file by {type(get_engine(case['engine'])).__name__}._read_configuration "
                   f"(handed in: {', '.join(n for n, b in zip(('xyz', 'vel', 'box'), case['mask']) if b == '1') or 'nothing'})",
           "array": "handed in as arrays"}
    for route in ("file", "array"):
        f, t = vals[(route, False)], vals[(route, True)]
        if not same_vals(f, t, -1.0 if veltype else 1.0):
            fails.append(f"{name} through calculate_order, phase point {how[route]}: vel_rev=False gives {f}, vel_rev=True gives {t}; "
                         f"it should {'change sign' if veltype else 'stay the same'} under velocity reversal")
    # the same phase point on both routes (not claimed when the file has no box and a periodic parameter would use a stale one)
    if case["box"] is not None or not case["per"] or case["kind"] in ("pos", "vel"):
        for vr in (False, True):
            if not same_vals(vals[("file", vr)], vals[("array", vr)]):
                fails.append(f"{name} (vel_rev={vr}): {vals[('array', vr)]} when the phase point is handed in as arrays but {vals[('file', vr)]} "
                             f"when it is {how['file']}")
    fails += [f"purity: {n}" for n in notes]
    return {"values": {f"{r}/{'rev' if v else 'fwd'}": x for (r, v), x in vals.items()}, "vals": vals, "requests": reqs, "fails": fails, "file": path}


def gen_routes(rng, tier):
    cases = []
    # exhaustive small scope: every engine x every way of leaving an argument out x box in the file or not x
    # every atom/dimension (Position, Velocity), every pair (Distance, Distancevel; open and periodic), a dihedral
    P = [[3, -1, 4], [1, 5, -9], [2, 6, 5], [-7, 2, 8]]
    V = [[-3, 5, 8], [9, -7, 9], [3, 2, -3], [4, -6, 1]]
    j = 0
    for eng in ENGINES:
        for mask in FILE_MASKS:
            for box in ([8, 6, 12], None):
                sel = [("pos", [i, d], False) for i in range(4) for d in range(3)] + [("vel", [i, d], False) for i in range(4) for d in range(3)]
                for a, b in itertools.permutations(range(4), 2):
                    if a < b or tier != "quick":
                        for per in ((False, True) if box is not None else (False,)):
                            sel += [("dist", [a, b], per), ("dvel", [a, b], per)]
                sel += [("dih", [0, 1, 2, 3], box is not None), ("dih", [3, 1, 0, 2], False)]
                for kind, idx, per in sel:
                    j += 1
                    cases.append({"engine": eng, "mask": mask, "kind": kind, "idx": idx, "per": per, "g": 2, "pos": P, "vel": V, "box": box,
                                  "decoy": mask != "000" and j % 2 == 0, "box0": None if j % 3 else [16, 16, 16]})
    # a stale system.box with a file without box (lock-step only for the periodic parameters)
    for eng in ENGINES:
        for kind, idx in (("dist", [0, 1]), ("dvel", [2, 0])):
            for box0 in (None, [4, 4, 4]):
                cases.append({"engine": eng, "mask": "000", "kind": kind, "idx": idx, "per": True, "g": 1, "pos": P, "vel": V, "box": None,
                              "decoy": False, "box0": box0})
    # seeded random beyond
    for _ in range(400 if tier == "quick" else 5000):
        kind = rng.choice(["vel", "dvel", "dvel", "dist", "pos", "dih"])
        na = rng.randrange(2 if kind != "dih" else 4, 8)
        g = rng.randrange(0, 5)               # <= 4 binary digits: exact in the 4 decimals of the xyz box header
        rc = rng.choice([4, 16, 64, 300])
        pos = [[rng.randrange(-rc, rc + 1) for _ in range(3)] for _ in range(na)]
        vel = [[rng.randrange(-50, 51) for _ in range(3)] for _ in range(na)]
        box = None if rng.random() < 0.25 else [2 ** rng.randrange(1, 7) if rng.random() < 0.5 else rng.randrange(1, 80) for _ in range(3)]
        per = box is not None and rng.random() < 0.7
        ni = {"dist": 2, "dvel": 2, "dih": 4, "pos": 1, "vel": 1}[kind]
        idx = rng.sample(range(na), ni)
        if kind in ("pos", "vel"):
            idx = [idx[0], rng.randrange(3)]
            per = False
        mask = rng.choice(FILE_MASKS)
        cases.append({"engine": rng.choice(ENGINES), "mask": mask, "kind": kind, "idx": idx, "per": per, "g": g, "pos": pos, "vel": vel, "box": box,
                      "decoy": mask != "000" and rng.random() < 0.6, "box0": rng.choice([None, None, [32, 32, 32]])})
    return cases


def run_routes(ctx, runner, rng, tier):
    tmp = common.scratch_dir("c20_")
    stats = {"route_cases": 0, "route_lockstep_compared": 0, "route_lockstep_disagreements": 0, "route_float_boundary_skipped": 0,
             "route_oracle_failures": 0}
    try:
        cases = gen_routes(rng, tier)
        evs = [route_case_eval(c, tmp) for c in cases]
    finally:
        common.rmtree(tmp)
    reqs = [rq for ev in evs for _, rq in ev["requests"]]
    outs = runner.run(reqs)
    at = 0
    nrep = {}
    pending = []
    for case, ev in zip(cases, evs):
        stats["route_cases"] += 1
        ctx.dist(f"calculate_order/{case['engine']}/{case['kind']}/{'file has box' if case['box'] is not None else 'file without box'}/handed in {case['mask']}")
        s = 2 ** case["g"]
        _, badt = tie_info(case)
        payload = {"engine_case": case, "implementation": ev["values"]}
        for (key, rq) in ev["requests"]:
            mo = outs[at]
            at += 1
            ctx.count(rq + f" g={case['g']} {case['engine']}", nontrivial=True)
            if badt and case["kind"] != "dist":
                stats["route_float_boundary_skipped"] += 1
                continue
            stats["route_lockstep_compared"] += 1
            eo, fl = expect(case, mo, s)
            if not close(eo, ev["vals"][key], fl):
                stats["route_lockstep_disagreements"] += 1
                if ev["fails"]:
                    continue         # this phase point is itself a failing input of the property: that is the report
                pending.append((f"calculate_order ({key[0]} route, vel_rev={key[1]})",
                                dict(payload, request=rq, model=mo, expected_from_model=eo, impl=ev["vals"][key])))
        if ev["fails"]:
            stats["route_oracle_failures"] += 1
            cat = f"{case['kind']}"
            nrep[cat] = nrep.get(cat, 0) + 1
            if nrep[cat] <= MAXREP - 1:
                ctx.violation("C20 statement fails on the implementation: " + ev["fails"][0], dict(payload, observed=ev["fails"]), True)
    found = bool(nrep)
    for cat, pl in pending[:MAXREP]:
        ctx.violation(f"correspondence model/implementation broken for {cat} "
                      f"({'a failing input of the property was found separately' if found else 'property oracle found no failing input'} among {len(cases)} phase points)",
                      dict(pl, correspondence="c20 runner (calculate_order_args) vs EngineBase.calculate_order of the real engines"), False)
    k = len(cases) // 2
    ctx.sample({"engine_case": cases[k], "implementation": evs[k]["values"], "requests": [r for _, r in evs[k]["requests"]]})
    return stats


# --------------------------------------------------------------------------- propagation: where the package applies the flag
#
# EngineBase.propagate(path, ens_set, system, reverse) reverses the velocities of the start configuration when
# reverse != system.vel_rev, sets system.vel_rev = reverse and lets the engine run; every stored frame gets
# order = calculate_order(system, xyz, vel, box) on the engine's RAW arrays and vel_rev = reverse.  Real
# in-process engines (TurtleMDEngine with velocity Verlet and with the Langevin integrator, ASEEngine with
# velocity Verlet), every built-in order-parameter class, (incoming system.vel_rev) x (reverse).  Statement,
# evaluated on the implementation:
#   (a) frame 0 of a run in either direction has the order of the shooting point (order parameter class
#       evaluated directly on the shooting point's physical phase point), every frame is flagged vel_rev = reverse;
#   (b) for every stored frame, the order parameter of the configuration the frame refers to (extracted and read
#       back with the engine's own _extract_frame / _read_configuration, velocities times -1 when the frame's
#       stored vel_rev is set - what calculate_order does) is the stored order; so is what the engine's own
#       dump_phasepoint + calculate_order gives for a copy of the frame (the route of prepare_shooting_point);
#   (c) the run in the opposite direction from the velocity-reversed point (its own file, flag False) visits the
#       same raw frames (deterministic integrators, Langevin with the same seed): stored orders are the
#       sign-reversed (Distancevel, Velocity) / equal (Distance, Position, Dihedral, Puckering) counterparts;
#   (d) velocity Verlet only: running back from the last frame retraces the path with the SAME orders.
# Lock-step: frame 0 (order and flag) against the model's propagate_frame0 (shooting points on a dyadic grid
# with <= 4 binary digits, exact in the 9 decimals of the xyz files).

PROP_ENGINES = ("turtlemd_vv", "turtlemd_langevin", "ase_vv")
PROP_G = {"turtlemd_vv": 4, "turtlemd_langevin": 4, "ase_vv": 2}      # grid 2^-g: 4.0 (turtlemd) / 16.0 (ase) box
PROP_BOXK = 64
PROP_NATOM = 7
PROP_SEED = 20240
PROP_RINGS = ("chair", "boat", "twist", "envelope")


def prop_specs(rng, level):
    """(kind, idx, periodic): every order-parameter class, velocity-type and position-type.  level 0: the two
    velocity-type classes + two position-type ones; 1: one or two of every class; 2: open and periodic variants
    of every class; 3: + seeded random index choices"""
    ring = [0, 1, 2, 3, 4, 5]
    specs = [("dvel", [0, 1], True), ("vel", [0, 1], False), ("dist", [0, 1], True), ("puck", ring, False)]
    if level >= 1:
        specs += [("dvel", [3, 6], False), ("pos", [2, 0], False), ("dih", [0, 1, 2, 3], True)]
    if level >= 2:
        specs += [("dist", [2, 6], False), ("dvel", [4, 1], True), ("pos", [5, 2], False), ("vel", [6, 0], False), ("vel", [3, 2], False),
                  ("dih", [6, 2, 4, 1], False), ("puck", ring, True)]
    if level >= 3:
        for _ in range(40):
            kind = rng.choice(["dist", "dvel", "dvel", "pos", "vel", "vel", "dih", "puck"])
            if kind in ("pos", "vel"):
                specs.append((kind, [rng.randrange(PROP_NATOM), rng.randrange(3)], False))
            elif kind == "puck":
                k = rng.randrange(6)
                specs.append((kind, ring[k:] + ring[:k], rng.random() < 0.5))
            else:
                specs.append((kind, rng.sample(range(PROP_NATOM), {"dist": 2, "dvel": 2, "dih": 4}[kind]), rng.random() < 0.6))
    return specs


def prop_point(rng, straddle):
    """a shooting point on the integer grid: a perturbed six-ring + one atom, non-zero velocities; with
    `straddle` two ring atoms sit in neighbouring periodic images (periodic and open variants then differ)"""
    base = RING_SHAPES[rng.choice(PROP_RINGS)]
    c = [rng.randrange(24, 41) for _ in range(3)]
    pos = [[c[k] + 2 * p[k] + rng.randrange(-1, 2) for k in range(3)] for p in base]
    pos.append([c[0] + rng.randrange(-2, 3), c[1] + rng.randrange(-2, 3), c[2] + rng.choice([-1, 1]) * rng.randrange(14, 18)])
    if straddle:
        pos[1][0] += PROP_BOXK
        pos[4][1] -= PROP_BOXK
    vel = [[rng.choice([-1, 1]) * rng.randrange(4, 25) for _ in range(3)] for _ in range(PROP_NATOM)]
    return pos, vel


def gen_prop(rng, tier):
    """per engine: the spec level of each shooting point (even points straddle a periodic boundary)"""
    if tier == "quick":
        plan = {"turtlemd_vv": [2, 0], "turtlemd_langevin": [0], "ase_vv": [0]}
    else:
        plan = {"turtlemd_vv": [3, 2, 2, 2, 2, 2], "turtlemd_langevin": [3, 2, 2], "ase_vv": [3, 2, 2]}
    cases = []
    j = 0
    for eng in PROP_ENGINES:
        for pi, level in enumerate(plan[eng]):
            pos, vel = prop_point(rng, straddle=(pi % 2 == 0))
            for kind, idx, per in prop_specs(rng, level):
                for flag_in in (False, True):
                    for reverse in (False, True):
                        j += 1
                        nfr = (3 if j % 3 else 4) if (eng == "ase_vv" and tier == "quick") else (6 if j % 3 else 4)
                        cases.append({"engine": eng, "kind": kind, "idx": idx, "per": per, "g": PROP_G[eng], "pos": pos, "vel": vel,
                                      "box": [PROP_BOXK] * 3, "flag_in": flag_in, "reverse": reverse, "sp_index": j % 2, "nframes": nfr,
                                      "retrace": eng.endswith("_vv") and (tier != "quick" or (j // 2) % 2 == 0)})
    return cases


def prop_engine(name):
    """the real engine classes, built by infretis' own factory"""
    key = "prop:" + name
    if key in _ENGINES:
        return _ENGINES[key]
    import contextlib
    import io
    from infretis.classes.engines.factory import create_engine
    if name.startswith("turtlemd"):
        box = PROP_BOXK / 2 ** PROP_G[name]
        integ = ({"class": "VelocityVerlet", "settings": {}} if name == "turtlemd_vv"
                 else {"class": "LangevinInertia", "settings": {"gamma": 2.0, "beta": 1.0}})
        settings = {"class": "turtlemd", "engine": "turtlemd", "timestep": 0.004, "temperature": 1.0, "boltzmann": 1.0, "subcycles": 1,
                    "integrator": integ,
                    "potential": {"class": "LennardJones", "settings": {"parameters": {"1": {"sigma": 0.3, "epsilon": 1.0, "rcut": 1.2}}}},
                    "particles": {"mass": [1.0] * PROP_NATOM, "name": ["Ar"] * PROP_NATOM,
                                  "pos": [[0.5 * i, 0.0, 0.0] for i in range(PROP_NATOM)]},
                    "box": {"periodic": [True, True, True], "low": [0.0, 0.0, 0.0], "high": [box, box, box]}}
        with contextlib.redirect_stdout(io.StringIO()):        # the constructor prints a to-do note for Langevin
            eng = create_engine({"engine": settings})
        if name == "turtlemd_vv":
            # TurtleMDEngine hands every integrator a `seed` argument that turtlemd's VelocityVerlet does not take
            from turtlemd.integrators import VelocityVerlet
            eng.integrator = lambda timestep, seed=None, **kw: VelocityVerlet(timestep=timestep)
            eng.integrator_settings = {}
    elif name == "ase_vv":
        import ase.calculators.lj
        wd = os.getcwd()
        eng = create_engine({"engine": {"class": "ase", "engine": "ase", "timestep": 0.1, "temperature": 300.0, "subcycles": 1,
                                        "input_path": wd, "exe_path": wd, "integrator": "velocityverlet",
                                        "calculator_settings": {"class": "LennardJones", "module": ase.calculators.lj.__file__}}})
    else:
        raise ValueError(name)
    _ENGINES[key] = eng
    return eng


def prop_write(case, path, P, V, B):
    """the shooting point as a file of the engine; with sp_index = 1 it is the second frame behind a decoy"""
    decoy = case["sp_index"] == 1
    if case["engine"] == "ase_vv":
        import ase
        from ase.io.trajectory import Trajectory
        with Trajectory(path, "w") as t:
            for k in ((0, 1) if decoy else (1,)):
                a = ase.Atoms("Ar" * len(P), positions=P + (0.0 if k else 0.75), cell=np.diag(B), pbc=False)
                a.set_velocities(V * (1.0 if k else -0.5))
                t.write(a)
    else:
        from infretis.classes.engines.engineparts import write_xyz_trajectory
        if decoy:
            write_xyz_trajectory(path, P + 0.75, V * -0.5, ["Ar"] * len(P), B, append=False)
        write_xyz_trajectory(path, P, V, ["Ar"] * len(P), B, append=decoy)
    return path


def prop_run(eng, config, flag, reverse, nframes, seed):
    """EngineBase.propagate of the real engine -> (list of (order, vel_rev, config, frame), error text | None)"""
    from infretis.classes.path import Path
    from infretis.classes.system import System
    sp = System()
    sp.config = tuple(config)
    sp.vel_rev = flag
    path = Path(maxlen=nframes)
    eng.rgen = np.random.default_rng(seed)
    ens = {"ens_name": "020", "interfaces": (-1e12, 0.0, 1e12)}
    try:
        with np.errstate(all="ignore"):
            eng.propagate(path, ens, sp, reverse=reverse)
    except Exception as e:  # noqa: BLE001
        return [], f"{type(e).__name__}: {e}"[:300]
    return [([float(x) for x in f.order], bool(f.vel_rev), tuple(f.config), f) for f in path.phasepoints], None


def prop_same(kind, a, b, tol, sign=1.0):
    """sign * a == b within tol (relative to max(1, |.|)); angles modulo their period"""
    if len(a) != len(b):
        return False
    per = {"dih": [2 * math.pi], "puck": [360.0, 360.0, 0]}.get(kind, [0] * len(a))
    for x, y, p in zip(a, b, per):
        x = sign * x
        if math.isnan(x) or math.isnan(y):
            return False
        d = abs(x - y)
        if p:
            d = abs((x - y + p / 2) % p - p / 2)
        if d > tol * max(1.0, abs(x), abs(y)):
            return False
    return True


def prop_eval(case, tmp):
    from infretis.classes.system import System
    eng = prop_engine(case["engine"])
    op = make_op(case)
    kind = case["kind"]
    name = type(op).__name__
    veltype = kind in ("dvel", "vel")
    sign = -1.0 if veltype else 1.0
    exact = 1e-9
    # what the 9 decimals of an xyz frame can change (binary .traj frames are exact); angles in degrees for Puckering
    ftol = (1e-9 if case["engine"] == "ase_vv" else 2e-6) * (100.0 if kind == "puck" else 1.0)
    rtol = 1e-5 * (100.0 if kind == "puck" else 1.0)
    wdir = os.path.join(tmp, "w")
    common.rmtree(wdir)
    os.makedirs(wdir)
    eng.exe_dir = wdir
    eng.order_function = op
    P, V, B = route_arrays(case)
    f, r, n = case["flag_in"], case["reverse"], case["nframes"]
    ext = eng.ext
    spfile = prop_write(case, os.path.join(wdir, f"shoot.{ext}"), P, V, B)
    Vphys = -V if f else V
    s = System()
    s.pos, s.vel, s.box = P.copy(), Vphys.copy(), B.copy()
    with np.errstate(all="ignore"):
        ref = [float(x) for x in op.calculate(s)]
    what = (f"{name} on {type(eng).__name__}[{case['engine']}], shooting point with vel_rev={f}, propagate(reverse={r}), {n} frames")
    fails = []
    frames, err = prop_run(eng, (spfile, case["sp_index"]), f, r, n, PROP_SEED)
    out = {"ref": ref, "orders": [fr[0] for fr in frames], "flags": [fr[1] for fr in frames], "fails": fails, "what": what, "checked": 0}
    if err or len(frames) != n:
        fails.append(f"{what}: {'raised ' + err if err else f'{len(frames)} frames stored'}")
        return out
    # (a)
    out["checked"] += 1
    if not prop_same(kind, frames[0][0], ref, exact):
        fails.append(f"{what}: frame 0 has order {frames[0][0]} but it is the shooting point, whose order is {ref}"
                     + (" (a velocity-type parameter: the sign is that of the physical velocity)" if veltype else ""))
    if any(fl is not r for fl in out["flags"]):
        fails.append(f"{what}: frames are flagged vel_rev={out['flags']}")
    # (b)
    recomputed, by_engine = [], []
    for k, (order, flag, config, frame) in enumerate(frames):
        raw = os.path.join(wdir, f"c20_raw.{ext}")
        eng._extract_frame(config[0], config[1], raw)
        rd = eng._read_configuration(raw)
        fs = System()
        fs.pos, fs.vel, fs.box = rd[0], (rd[1] * -1.0 if flag else rd[1]), rd[2]
        with np.errstate(all="ignore"):
            recomputed.append([float(x) for x in op.calculate(fs)])
        cp = frame.copy()
        eng.dump_phasepoint(cp, deffnm="c20_recheck")
        with np.errstate(all="ignore"):
            by_engine.append([float(x) for x in eng.calculate_order(cp)])
    out["recomputed"], out["recomputed_by_engine"] = recomputed, by_engine
    for k in range(n):
        out["checked"] += 2
        if not prop_same(kind, frames[k][0], recomputed[k], ftol):
            fails.append(f"{what}: frame {k} (vel_rev={frames[k][1]}) has stored order {frames[k][0]} but the order parameter of the configuration "
                         f"it refers to, with the velocities {'reversed' if frames[k][1] else 'as stored'} as its flag says, is {recomputed[k]}")
            break
        if not prop_same(kind, frames[k][0], by_engine[k], ftol):
            fails.append(f"{what}: frame {k} has stored order {frames[k][0]} but dump_phasepoint + calculate_order of the same frame gives {by_engine[k]}")
            break
    # (c) the opposite direction from the velocity-reversed point: same raw frames
    rcase = dict(case, sp_index=0)
    rfile = prop_write(rcase, os.path.join(wdir, f"reversed.{ext}"), P, -Vphys, B)
    cframes, cerr = prop_run(eng, (rfile, 0), False, not r, n, PROP_SEED)
    out["counterpart_orders"] = [fr[0] for fr in cframes]
    if cerr or len(cframes) != n:
        fails.append(f"{what}: the run in the opposite direction from the reversed point {'raised ' + cerr if cerr else f'stored {len(cframes)} frames'}")
    else:
        for k in range(n):
            out["checked"] += 1
            if not prop_same(kind, frames[k][0], cframes[k][0], exact, sign):
                fails.append(f"{what}: frame {k} has order {frames[k][0]}; the run with reverse={not r} from the velocity-reversed point goes through the "
                             f"same raw frames and stores {cframes[k][0]} there: they should be {'opposite' if veltype else 'equal'}")
                break
    # (d) time reversibility of velocity Verlet: back from the last frame
    if case.get("retrace"):
        last = frames[-1]
        bframes, berr = prop_run(eng, last[2], last[1], not r, n, PROP_SEED)
        out["retraced_orders"] = [fr[0] for fr in bframes]
        if berr or len(bframes) != n:
            fails.append(f"{what}: the run back from the last frame {'raised ' + berr if berr else f'stored {len(bframes)} frames'}")
        else:
            for k in range(n):
                out["checked"] += 1
                if not prop_same(kind, bframes[k][0], frames[n - 1 - k][0], rtol):
                    fails.append(f"{what}: running with reverse={not r} from the last frame retraces the path (velocity Verlet), but its frame {k} has "
                                 f"order {bframes[k][0]} where frame {n - 1 - k} of the path has {frames[n - 1 - k][0]}")
                    break
    return out


def prop_request(case):
    inner = {"kind": case["kind"], "idx": case["idx"], "per": case["per"], "pos": case["pos"], "vel": case["vel"], "box": case["box"], "tr": None}
    return f"prop {int(case['flag_in'])} {int(case['reverse'])} {request(inner, False)}"


def run_propagation(ctx, runner, rng, tier):
    stats = {"propagation_cases": 0, "propagation_oracle_statements": 0, "propagation_oracle_failures": 0,
             "propagation_lockstep_compared": 0, "propagation_lockstep_disagreements": 0, "propagation_sign_sensitive": 0}
    import time
    t0 = time.time()
    cases = gen_prop(rng, tier)
    tmp = common.scratch_dir("c20p_")
    cwd = os.getcwd()
    try:
        os.chdir(tmp)
        evs = [prop_eval(c, tmp) for c in cases]
    finally:
        os.chdir(cwd)
        common.rmtree(tmp)
    stats["propagation_wall_s"] = round(time.time() - t0, 1)
    reqs = [prop_request(c) for c in cases]
    outs = runner.run(reqs)
    nrep, pending = {}, []
    for case, ev, rq, mo in zip(cases, evs, reqs, outs):
        stats["propagation_cases"] += 1
        stats["propagation_oracle_statements"] += ev["checked"]
        ctx.count(rq + f" {case['engine']} sp{case['sp_index']} n{case['nframes']}", nontrivial=True)
        ctx.dist(f"propagate/{case['engine']}/{case['kind']}/{'periodic' if case['per'] else 'open'}/vel_rev_in={int(case['flag_in'])}/reverse={int(case['reverse'])}")
        if case["kind"] in ("dvel", "vel") and abs(ev["ref"][0]) > 1e-3:
            stats["propagation_sign_sensitive"] += 1
        payload = {"prop_case": case, "shooting_point_order": ev["ref"], "stored_orders": ev["orders"], "stored_vel_rev": ev["flags"],
                   "request": rq, "model": mo}
        if ev["fails"]:
            stats["propagation_oracle_failures"] += 1
            # the most direct failures first: clause (a) on the case's own run, then (b), then the auxiliary runs
            rank = 0 if "it is the shooting point" in ev["fails"][0] else 1 if "stored order" in ev["fails"][0] else 2
            nrep.setdefault(case["kind"], []).append((rank, len(nrep.get(case["kind"], ())), ev["fails"][0], dict(payload, observed=ev["fails"])))
        if not ev["orders"]:
            continue
        stats["propagation_lockstep_compared"] += 1
        mord, _, mflag = mo.rpartition(" ")
        eo, fl = expect(case, mord, 2 ** case["g"])
        fl = {k: v for k, v in fl.items() if k != "exact"}     # ASE keeps momenta: v -> m v -> (m v) / m is exact only to the last ulp
        if not (close(eo, ev["orders"][0], fl) and mflag == str(int(ev["flags"][0]))):
            stats["propagation_lockstep_disagreements"] += 1
            if not ev["fails"]:
                pending.append(dict(payload, expected_from_model=eo, model_flag=mflag))
    found = bool(nrep) or any(f for _, _, f in ctx.violations)
    for cat in nrep:
        for _, _, msg, pl in sorted(nrep[cat], key=lambda x: x[:2])[:MAXREP - 1]:
            ctx.violation("C20 statement fails on the implementation: " + msg, dict(pl, failing_cases_in_this_category=len(nrep[cat])), True)
    for pl in pending[:MAXREP]:
        ctx.violation("correspondence model/implementation broken for frame 0 of EngineBase.propagate "
                      f"({'a failing input of the property was found separately' if found else 'property oracle found no failing input'} among {len(cases)} propagations)",
                      dict(pl, correspondence="c20 runner (propagate_frame0) vs EngineBase.propagate + _propagate_from of the real engines"), False)
    k = len(cases) // 2
    ctx.sample({"prop_case": cases[k], "request": reqs[k], "model": outs[k], "shooting_point_order": evs[k]["ref"], "stored_orders": evs[k]["orders"],
                "stored_vel_rev": evs[k]["flags"]})
    return stats


# --------------------------------------------------------------------------- witnesses of the Coq file on the implementation


def run_witnesses(ctx):
    """C20_image_shift_unguarded_refuted on the real class: informational (shows the guard of the
    image-shift theorems is needed by the code, not only by the model)."""
    case = {"kind": "dvel", "idx": [0, 1], "per": True, "g": 0, "pos": [[0, 0, 0], [1, 0, 0]],
            "vel": [[0, 0, 0], [1, 0, 0]], "box": [2, 2, 2], "tr": {"t": "sh", "ks": [[0, 0, 0], [1, 0, 0]]}}
    a, _ = impl_eval(case, False)
    b, _ = impl_eval(case, True)
    ctx.cov["guard_witness_on_implementation"] = {"case": "separation exactly L/2, atom 1 shifted by one box vector",
                                                  "distancevel_before": a, "distancevel_after": b,
                                                  "sign_flips_as_in_C20_image_shift_unguarded_refuted": (a == [1.0] and b == [-1.0])}


def run(ctx):
    common.proof_stage(ctx, "C20", ["extract/c20.vo"])
    runner = common.runner_stage(ctx, "c20")
    if runner is None:
        return
    rng = ctx.rng
    col = Collector(ctx)
    gen_small(col, rng, ctx.tier)
    gen_puck(col, rng, ctx.tier)
    gen_random(col, rng, ctx.tier)
    outs = runner.run(col.reqs)
    stats = judge(col, outs)
    col.flush()
    found_any = any(f for _, _, f in ctx.violations)
    if "boxform_dvel" in col.rep:
        # the box-form oracle has exhibited the Distancevel defect (lead L7); lock-step differences that are
        # the same failure (periodic Distancevel, box not a 3-component ndarray, exception) are that finding
        def same_defect(payload):
            c = payload["case"]
            return (c["kind"] == "dvel" and c["per"] and c["box"] is not None and len(c["box"]) != 3
                    and "N" in (payload.get("impl"), payload.get("impl_transformed"), payload.get("impl_original")))
        n0 = len(col.pending_ls)
        col.pending_ls = [(cat, pl) for cat, pl in col.pending_ls if not same_defect(pl)]
        stats["lockstep_disagreements_attributed_to_L7"] = n0 - len(col.pending_ls)
    for cat, payload in col.pending_ls[:MAXREP]:
        payload = dict(payload, correspondence="c20 runner vs infretis.classes.orderparameter")
        ctx.violation(f"correspondence model/implementation broken for {cat} "
                      f"({'a failing input of the property was found separately' if found_any else 'property oracle found no failing input'} among {len(col.reqs)} evaluations)",
                      payload, False)
    stats.update(run_pbc(ctx, runner, rng, ctx.tier))
    stats.update(run_path_reverse(ctx, runner, rng, ctx.tier))
    stats.update(run_routes(ctx, runner, rng, ctx.tier))
    stats.update(run_propagation(ctx, runner, rng, ctx.tier))
    run_witnesses(ctx)
    for k in (0, len(col.items) // 3, len(col.items) // 2, len(col.items) - 1):
        case, i0, i1, io, it, _, _ = col.items[k]
        ctx.sample({"request": col.reqs[i0], "model": outs[i0], "impl": io,
                    "transformed_request": col.reqs[i1] if i1 is not None else None,
                    "model_transformed": outs[i1] if i1 is not None else None, "impl_transformed": it})
    ctx.cov["rule"] = (
        "exhaustive small scope: pbc_dist_coordinate on every (d, L) with L <= 12 (24 thorough) grid units and |d| <= 3L+1 at two grid "
        "resolutions; Distance and Distancevel on every separation of a (2R+1)^3 cube (R = 4 quick, 5 thorough) from two reference atoms, "
        "open and in 2 (4) boxes; Dihedral on all 8^4 placements of four atoms on the unit-cube corners, open and periodic; Position/Velocity "
        "on every atom and dimension; Path.reverse on every frame sequence up to length 2 (3) over {3 stored velocities, a frame without arrays} "
        "x velocity-dependent x rev_v; calculate_order on 3 real engines x the 7 ways of leaving out at least one of xyz / vel / box (file route) and the "
        "array route x file with / without box x vel_rev x every atom and dimension (Position, Velocity), every pair (Distance, Distancevel, open and periodic) "
        "and two dihedrals of a 4-atom system, with decoy overrides and a stale system.box, plus seeded random phase points; EngineBase.propagate on 3 real in-process "
        "engines (TurtleMDEngine with velocity Verlet and with Langevin, ASEEngine with velocity Verlet; 7 Lennard-Jones atoms in a periodic box, a six-ring + one atom, "
        "seeded shooting points on the dyadic grid, every other one with ring atoms in neighbouring periodic images) x order-parameter classes (all six on TurtleMD/velocity Verlet, "
        "open and periodic; quick: Distancevel, Velocity, Distance, Puckering on the other two engines, thorough: all six + seeded random index choices) x incoming "
        "system.vel_rev x reverse, 3-6 frames, start configuration alone in its file or behind a decoy frame; each case is followed by the run in the opposite direction "
        "from the velocity-reversed point and (velocity Verlet) by the run back from the last frame. Seeded random beyond: ring shapes (chair, boat, planar, twist, envelope, collinear) with perturbations "
        "for Puckering; random systems of 6-8 atoms, grid 2^-g (g <= 6), open / power-of-two / arbitrary / 9-component boxes, forced half-box "
        "separations. Every case is run untransformed and through one map of a fixed cycle (translation, image shift, proper and improper "
        "rational rotation, velocity reversal, vel_rev flag of calculate_order, common factor). A case is distinct by its request line; all are "
        "non-trivial (each evaluates a modelled function on the real class).")
    ctx.cov["correspondence"] = stats
    ctx.cov["trusted_base"] += [
        "extraction: ExtrOcamlBasic only; ocaml/util.ml + ocaml/c20_driver.ml",
        "py/checks/c20.py: the configuration files of the calculate_order cases are written with infretis' own write_xyz_trajectory / write_gromos96_file (C19's subject); CP2KEngine / GromacsEngine objects are created without running __init__",
        "py/checks/c20.py: generators, numpy versions of the symmetry maps, and the application of sqrt/arctan2/sin/cos to the model's exact arguments (puck_from_z, expect)",
        "numpy float arithmetic is exact on the dyadic inputs used up to the final sqrt/arctan2/normalisation (tolerance 1e-9)",
        "py/checks/c20.py, propagation family: TurtleMDEngine / ASEEngine are built by infretis' create_engine; turtlemd's VelocityVerlet is plugged in through a one-line adapter "
        "(TurtleMDEngine hands every integrator a seed argument it does not take); the ASE calculator is ase.calculators.lj.LennardJones loaded through create_external; "
        "start configurations are written with write_xyz_trajectory / ase Trajectory; determinism of the integrators for equal start and seed (clause c) and time "
        "reversibility of velocity Verlet over <= 6 steps to 1e-5 (clause d) are properties of turtlemd / ASE, not of infretis; tolerances: 1e-9 for values computed from "
        "the same floats (frame 0, clause c), 2e-6 against the 9 decimals of xyz frames (x100 for Puckering, in degrees; measured deviations are below 1% of the tolerances)",
    ]
    ctx.assumptions += [
        "box lengths positive, indices non-negative; orthogonal boxes (only the first three box entries are read by the code)",
        "exact arithmetic: floating-point rounding is not modelled; exact half-box ties with non power-of-two lengths and exactly degenerate angles are skipped in the float comparison (counted as float_boundary_skipped)",
        "rotation theorems are for the non-periodic variants; rotations are rational (integer matrix over a common denominator)",
        "Distancevel is the repaired one (proposed_fixes/C20_distancevel_box.diff); on the code as it is the box-form oracle reports the failing input",
    ]


def replay(doc):
    import json
    rp = doc.get("replay", {})
    print(json.dumps({k: v for k, v in doc.items() if k != "replay"}, indent=1))
    case = rp.get("case")
    r = common.Runner("c20")
    if rp.get("prop_case"):
        pc = rp["prop_case"]
        print("propagation case:", json.dumps(pc))
        tmp = common.scratch_dir("c20r_")
        cwd = os.getcwd()
        try:
            os.chdir(tmp)
            ev = prop_eval(pc, tmp)
        finally:
            os.chdir(cwd)
            common.rmtree(tmp)
        rq = prop_request(pc)
        mo = r.run([rq])[0]
        mord, _, mflag = mo.rpartition(" ")
        print("shooting point, order parameter class evaluated directly on the physical phase point:", ev["ref"])
        print("stored orders :", ev["orders"])
        print("stored vel_rev:", ev["flags"])
        for k in ("recomputed", "recomputed_by_engine", "counterpart_orders", "retraced_orders"):
            if k in ev:
                print(f"{k}:", ev[k])
        print(f"model, frame 0 ({rq}): {mo} -> order {expect(pc, mord, 2 ** pc['g'])[0]}, vel_rev {mflag}")
        for f in ev["fails"]:
            print("statement fails:", f)
        if not ev["fails"]:
            print("statement on the implementation: holds")
        return 1 if ev["fails"] else 0
    if rp.get("engine_case"):
        ec = rp["engine_case"]
        print("calculate_order case:", json.dumps(ec))
        tmp = common.scratch_dir("c20r_")
        try:
            ev = route_case_eval(ec, tmp)
            print("configuration file of the phase point:")
            print(open(ev["file"]).read())
        finally:
            common.rmtree(tmp)
        outs = r.run([rq for _, rq in ev["requests"]])
        for ((route, vr), rq), mo in zip(ev["requests"], outs):
            print(f"{route} route, vel_rev={vr}: implementation {ev['vals'][(route, vr)]}  model {mo} -> {expect(ec, mo, 2 ** ec['g'])[0]}")
        for f in ev["fails"]:
            print("statement fails:", f)
        if not ev["fails"]:
            print("statement on the implementation: holds")
        return 1 if ev["fails"] else 0
    if rp.get("request"):
        print("request:", rp["request"])
        print("model now answers:", r.run([rp["request"]]))
    if not case:
        print(json.dumps(rp, indent=1, default=str))
        return 0
    print("case:", json.dumps(case))
    io, note = impl_eval(case, False)
    print("implementation, original input (3-component ndarray box):", io, "" if not note else f"[{note}]")
    rc = 0
    if note:
        rc = 1
    if case.get("tr") and case["tr"]["t"] != "sc":
        it, _ = impl_eval(case, True)
        print(f"implementation, transformed input ({case['tr']['t']}):", it)
    if rp.get("box_form"):
        val, _ = impl_eval(case, False, rp["box_form"])
        print(f"implementation, box form {rp['box_form']}:", val)
        same = (val == io) or (not isinstance(val, str) and not isinstance(io, str) and all(x == y or (math.isnan(x) and math.isnan(y)) for x, y in zip(val, io)))
        print("box forms agree:", same)
        if not same:
            rc = 1
    return rc
