"""C18 — invalid configurations are rejected up front, by whatever route they reach setup_config
(fresh input file, restart file the program wrote and the user edited, infretis.toml replaced by
an equal restart.toml); accepted ones are valid and initialise; the defaults filled in by
setup_config are a fixed point (restart files re-read unchanged) and are filled in BEFORE the
validation.

Theorems: coq/theorems/C18.v (model coq/model/ConfigM.v = infretis/setup.py: check_config, the
default-filling statements of setup_config one by one in program order with check_config last, and
the route into setup_config, `setup_from`).  Tie: functional lock-step of the real `check_config`
(configuration dict built directly) and of the real `setup_config` (TOML files written to a scratch
directory, all three routes) against the extracted model, exhaustive over a small scope and seeded
random beyond it.  Oracle: the property's list, written here independently of both the code and the
model (and cross-checked against the proved-correct `validb` of the model), applied to the file
after the DOCUMENTED defaults (`documented_defaults`): an invalid configuration must end in
TOMLConfigError - not in acceptance, not in another exception; and whatever setup_config accepts
must get through the real setup_internal and the first picks (`try_initialise`) without any
exception.  The restart fixed point is exercised with the real `REPEX_state.write_toml`; the restart
route with restart files written by the real write_toml and by real runs (py/sysharness.py), each
edited in every way of the property's list; the order of normalisation and validation with the
product of all fields the defaults touch (quantis, [engine0], [engine], ensemble_engines,
lambda_minus_one, seed, accept_all) on directories in which the program has really run.  Explicit
ensemble_engines lists of every length 0 .. n+1 are generated in all four blocks: a list with fewer
entries than interfaces is invalid (an ensemble without an entry: its first pick indexes the list out
of range), longer lists are valid and must initialise.  The model carries the code with and without
the length test of proposed_fixes/C18_short_ensemble_engines.diff; one probing call of the real
check_config (`probe_variant`) selects which of the two the lock-step uses, the oracle always demands
the repaired behaviour.

Robustness: every call into the implementation is guarded; an exception or an answer outside its
domain (None, a malformed configuration, a configuration error on the program's own restart file)
is a finding reported with the configuration at hand, never a crash of the check (`run` keeps a
last-resort net that reports whatever escapes together with the configuration under test).
"""
import importlib.util  # noqa: F401
import copy
import itertools
import json
import os
import random
import re
import types
from fractions import Fraction

import common

META = {
    "id": "C18",
    "level": "proof",
    "technique": "Coq theorems over an executable model of check_config/setup_config defaults (decision procedure with explicit Python truthiness and exceptions) + exhaustive small-scope lock-step of the extracted model vs the real check_config / setup_config",
    "text": "Unbounded theorems (any interface list over Q, worker count, move list, cap, lambda_minus_one, quantis, engine lists and tables): accepted => valid; invalid => configuration error that truthfully names a violated clause, never acceptance, never another exception; no IndexError on any input; exact characterisation of acceptance; the property's list has nine clauses, the ninth being an ensemble_engines entry for every ensemble: an explicit list shorter than the interfaces is a configuration error, by check_config and through setup_config by either route (C18_short_engine_list_rejected, C18_setup_short_engine_list_invalid), longer lists are fine, the default list has exactly one entry per interface (C18_default_engine_list_length), and for every accepted configuration each of the n ensembles finds its entry at the first picks and every engine named there has a table (C18_accepted_picks_defined: prep_md_items' ens_engs[ens_num + 1] is in range); the code before that repair differs only on short lists, accepted three interfaces with ensemble_engines = [['engine']] by either route and left ensembles [0+], [1+] without an entry (C18_before_fix_differs_only_on_short_lists, C18_before_fix_accepts, C18_short_engine_list_before_fix_refuted); the defaults are idempotent; and the route is no excuse: for a fresh input file and for a restart file at any step (setup_from, both values of 'has a [current] table') an invalid configuration gets a configuration error and never reaches sampling, a restart that goes on is treated exactly like a fresh start, and no answer (None) is given only for a finished run or a missing stored path. The model is tied to /repo by running it and the real check_config/setup_config on the same configurations (all interface lists up to length 4 over 4 values x workers x move lists x caps x lambda_minus_one x quantis x engines defined/undefined, explicit ensemble_engines lists of every length 0..n+1 for every interface list, random engine lists and tables) and by evaluating the property's list directly on the implementation's outcome; the restart fixed point is checked on files written by the real write_toml. Restart route: restart.toml files written by the real write_toml (about 100 accepted random configurations, quick tier) and left behind by 6 real runs of the program on the lattice engine (completed and stopped with jobs in flight) are edited as a user would - every position of every class of the property's list (workers; interfaces swapped / duplicated / reversed / cut to 0 or 1 / one added; shooting moves dropped; cap below, on, between and above every interface, alone and with each ensemble made wire fencing; undefined engine per ensemble, engine table removed, the engine list cut / extended to every length 0..n+1; lambda_minus_one on/above lambda_0), harmless edits (more steps only, fewer workers, ...) and random replacements of all validated fields - written back with tomli_w and handed to the real setup_config by each route (restart.toml as input; infretis.toml + equal restart.toml; [current] stripped): an invalid edit must raise TOMLConfigError with the stored paths untouched, the outcome must equal the model's setup_from, and the plain continuation of every real run (steps raised only) must be accepted and run on to the end. Order of normalisation and validation (the validity of a file can depend on what setup_config itself fills in: quantis = true without ensemble_engines gives [0-] the engine 'engine0', which then needs a table): the model composes the six default-filling statements in program order and validates last (C18_setup_config / C18_setup_any_route: the verdict IS check_config (normalise c), and an accepted quantis file without an engine list has a table [engine0]; C18_example_order refutes the variant that validates first); the check enumerates quantis {absent,false,true} x [engine0] {present,absent,misnamed} x [engine] {present,absent} x ensemble_engines {absent, [], all engine, engine0 first, engine0 last, both, undefined name, ['engine'] x k for every other length k in 1..n+1} x lambda_minus_one {absent,false,-1.5,0.0,=interfaces[0]} x seed {absent,given} x accept_all {absent,given} (workers 1/n-1/n in turn) on 3 lattice set-ups (quick; 6 thorough) in which the program has really run, each as a fresh input file and as the edited restart file of that run (given as input / next to an equal infretis.toml): invalid after the documented defaults => TOMLConfigError with the stored paths untouched, outcome and returned configuration == the model's setup_from, and EVERY accepted configuration is taken through the real setup_internal (REPEX state, ensembles, stored paths and weights, engines, order parameters) and the first `workers` picks (initiate/prep_md_items) - any exception there, a missing engine object, a zero own-ensemble weight or a pick outside the ensembles is a violation with that file as input.",
    "note": "Trusted: Coq kernel; extraction (ExtrOcamlBasic) + OCaml driver; this harness (generators, encoders, the Python oracle — cross-checked on every case against the model's validb, which is proved equivalent to the Coq predicate valid). 'Leaving a wire-fencing ensemble no room' is read as: some ensemble i < n_ens with move 'wf' has interface_cap <= interfaces[max(i-1,0)] (its region [interface, cap) is empty). Required keys (simulation.interfaces, shooting_moves, tis_set, runner.workers, output.data_dir) are assumed present and of the right type; numbers are ints/dyadic floats so comparisons are exact. 'Accepted configurations initialise' is checked with real engines only: for every accepted configuration of the order block (lattice plug-in engine; about 1800 per quick run) through setup_internal and the first picks, and for the plain continuation of the real runs of the restart route through to the end of the run; the random input files of the setup_config block name gromacs/turtlemd tables without input files and are not started. Explicit ensemble_engines lists: every length 0..n+1 in all blocks; the empty list counts as absent (defaults), shorter than the interfaces = invalid (clause 'an entry per ensemble': the first pick of an ensemble without an entry raised IndexError in prep_md_items before proposed_fixes/C18_short_ensemble_engines.diff), longer = valid and taken through setup_internal and the first picks in the order block (about 2900 accepted configurations per quick run). Variant of the code under test: C18 has no generated-parameter file (py/params_c*.py); the check probes the real check_config ONCE (3 interfaces, ensemble_engines = [['engine']], all else valid): TOMLConfigError (or anything but acceptance) => the lock-step uses the model with the length test (check_config_g true, the model of every theorem); accepted => it uses check_config_g false (= check_config_before_fix, requests cfg0/setup0) so that the lock-step stays meaningful, while the oracle - which never depends on the probe - reports every accepted short list as a violation with the file as failing input (preferring as witness a file that was accepted and then failed in the first picks); the probe's answer is recorded in coverage.correspondence.variant. Restart route: 'before sampling starts' is observed at setup_config (infretis.bin.internalrun / infretisrun hand whatever it returns straight to the scheduler; a None return ends the program), a finished run (cstep == steps) or a missing stored path makes setup_config return None before any check - modelled (setup_from = None), no sampling, not counted as a rejection; the stub-written restart files carry an empty frac table and a fresh rng state, the real-run ones are exactly what the program left. Observation outside the property's list: quantis together with lambda_minus_one = 0.0 is accepted (0.0 is falsy in 'quantis and lambda_minus_one'); modelled faithfully, not reported.",
    "design_ref": "4/C18",
}
LEVEL = "proof"

A = "A"           # absent
NAME_IDS = {"engine": 0, "engine0": 1, "simulation": 10, "runner": 11, "output": 12, "current": 13}
NON_ENGINE_KEYS = ("simulation", "runner", "output", "current")


class Interner:
    def __init__(self, fixed=None):
        self.d = dict(fixed or {})
        self.next = 100

    def __call__(self, k):
        if k not in self.d:
            self.d[k] = self.next
            self.next += 1
        return self.d[k]


NAMES = Interner(NAME_IDS)
PATHS = Interner()
RESTS = Interner()


def qs(x):
    """number -> 'num/den' (exact; bool is not a number here)"""
    if isinstance(x, int):
        return str(x)
    f = Fraction(*float(x).as_integer_ratio())
    return str(f.numerator) if f.denominator == 1 else f"{f.numerator}/{f.denominator}"


def enc_opt_bool(v):
    return A if v is A else ("1" if v else "0")


_SEC_CACHE = {}


def enc_section(name, sec):
    if name in NON_ENGINE_KEYS or not isinstance(sec, dict):
        return f"{NAMES(name)}:N:N:0"
    try:
        key = (name, tuple(sorted(sec.items())))
    except TypeError:
        return _enc_section(name, sec)
    if key not in _SEC_CACHE:
        _SEC_CACHE[key] = _enc_section(name, sec)
    return _SEC_CACHE[key]


def _enc_section(name, sec):
    cls = "N" if "class" not in sec else ("g" if sec["class"] == "gromacs" else "o")
    inp = "N" if "input_path" not in sec else str(PATHS(sec["input_path"]))
    rest = {k: v for k, v in sec.items() if k not in ("class", "input_path")}
    if cls == "o":
        # any class other than gromacs is lumped by the model; keep distinct classes apart
        rest["__class__"] = sec["class"]
    return f"{NAMES(name)}:{cls}:{inp}:{RESTS(json.dumps(rest, sort_keys=True, default=str))}"


# Which check_config does the tree under test have?  The model carries both: the code with the
# length test on ensemble_engines (proposed_fixes/C18_short_ensemble_engines.diff; requests cfg /
# setup = check_config_g true, what every theorem is about) and the code before it (requests cfg0 /
# setup0 = check_config_g false, refuted by C18_short_engine_list_before_fix_refuted).  There is no
# generated-parameter file for C18; the variant is found by ONE probing call of the real
# check_config (`probe_variant`).  Only the lock-step depends on it: the oracle always demands the
# repaired behaviour, so a tree without the test is reported by the oracle with a failing input.
VARIANT = {"fixed": True, "probe": None}


def probe_variant():
    """three interfaces, ensemble_engines = [["engine"]], everything else valid: the repaired
    check_config answers with TOMLConfigError; accepted outright = the code before the repair.
    Any other answer keeps the repaired model (and shows up in the lock-step)."""
    cfg = build([0, 1, 2], 1, ["sh"] * 3, A, A, A, True)
    cfg["simulation"]["ensemble_engines"] = [["engine"]]
    VARIANT["probe"] = real_check(cfg)
    VARIANT["fixed"] = VARIANT["probe"] != "OK"
    return VARIANT["fixed"]


def cmd(name):
    return name if VARIANT["fixed"] else name + "0"


def encode(cfg, extra_keys=()):
    """request line for the model from a configuration dict as check_config would see it
    (extra_keys: top-level keys setup_config adds before checking)"""
    sim = cfg["simulation"]
    tis = sim["tis_set"]
    intf = sim["interfaces"]
    moves = sim["shooting_moves"]
    cap = tis.get("interface_cap", A)
    lm1 = tis.get("lambda_minus_one", A)
    ee = sim.get("ensemble_engines", A)
    if ee is A:
        ees = A
    elif not ee:
        ees = "-"
    else:
        ees = ";".join(",".join(str(NAMES(e)) for e in ens) if ens else "_" for ens in ee)
    keys = list(cfg.keys()) + [k for k in extra_keys if k not in cfg]
    secs = ";".join(enc_section(k, cfg.get(k, {})) for k in keys) or "-"
    return " ".join([
        cmd("cfg"),
        ",".join(qs(x) for x in intf) if intf else "-",
        str(cfg["runner"]["workers"]),
        "".join("w" if m == "wf" else "s" for m in moves) if moves else "-",
        "N" if cap is A else qs(cap),
        enc_opt_bool(tis.get("quantis", A)),
        A if lm1 is A else ("F" if lm1 is False else qs(lm1)),
        enc_opt_bool(tis.get("accept_all", A)),
        A if "seed" not in sim else str(sim["seed"]),
        ees,
        secs,
    ])


# --------------------------------------------------------------------------- the real code

MSG_KIND = [
    ("lambda_minus_one interface must be less", "Lm1"),
    ("Cannot run quantis", "QuantisLm1"),
    ("Define at least 2", "FewIntf"),
    ("Too many workers", "Workers"),
    ("not sorted", "Unsorted"),
    ("duplicate", "Duplicate"),
    ("N_ensemble_engines", "EngineListShort"),
    ("N_interfaces", "Moves"),
    ("wire fencing ensemble", "CapWf"),
    ("> interface[-1]", "CapHigh"),
    ("< interface[", "CapLow"),
    ("not defined", "EngineUndef"),
    ("identic", "GmxDup"),
]


def classify_exc(e, TOMLConfigError):
    if isinstance(e, TOMLConfigError):
        msg = str(e)
        for pat, kind in MSG_KIND:
            if pat in msg:
                return "CE:" + kind
        return "CE:?"
    return "CRASH:" + type(e).__name__


_IMPL = []


def real_check(cfg):
    if not _IMPL:
        from infretis.setup import TOMLConfigError, check_config
        _IMPL.extend([TOMLConfigError, check_config])
    try:
        _IMPL[1](cfg)
        return "OK"
    except Exception as e:  # noqa: BLE001
        return classify_exc(e, _IMPL[0])


def outcome_class(s):
    """OK / NONE / CE / CRASH:<type> (the kind of configuration error is informative only)"""
    return "CE" if s.startswith("CE") else s


def how_met(oc):
    """an outcome of the implementation that is not a configuration error, in words"""
    if oc == "OK":
        return "accepted"
    if oc == "NONE":
        return "answered with None (no error, nothing set up)"
    return "met with " + (oc[6:] if oc.startswith("CRASH:") else oc)


def exc_text(e):
    return f"{type(e).__name__}: {e}"[:400]


def raised_by_implementation(e):
    """does the traceback of e pass through the infretis package (and not only the harness)?"""
    tb, hit = e.__traceback__, False
    while tb is not None:
        fn = tb.tb_frame.f_code.co_filename.replace(os.sep, "/")
        if "/infretis/" in fn:
            hit = True
        tb = tb.tb_next
    return hit


def safe_invalid_reasons(cfg, extra_keys=()):
    """the oracle on a configuration the IMPLEMENTATION returned: an answer outside the domain
    (not a dict, missing tables, wrong types) is itself a reason, never a crash of the check"""
    try:
        return invalid_reasons(cfg, extra_keys)
    except Exception as e:  # noqa: BLE001
        return [f"returned configuration malformed ({exc_text(e)})"]


def safe_enc_normalised(cfg, extra_keys=()):
    try:
        return enc_normalised(cfg, extra_keys)
    except Exception as e:  # noqa: BLE001
        return f"MALFORMED {exc_text(e)}"


# --------------------------------------------------------------------------- the oracle


def invalid_reasons(cfg, extra_keys=()):
    """The property's list, evaluated on the configuration as check_config sees it."""
    sim = cfg["simulation"]
    tis = sim["tis_set"]
    intf = list(sim["interfaces"])
    moves = sim["shooting_moves"]
    n = len(intf)
    why = []
    if any(intf[i] > intf[i + 1] for i in range(n - 1)):
        why.append("unsorted interfaces")
    if any(intf[i] == intf[j] for i in range(n) for j in range(i + 1, n)):
        why.append("duplicate interfaces")
    if n < 2:
        why.append("fewer than two interfaces")
    if cfg["runner"]["workers"] > n - 1:
        why.append("more workers than ensembles minus one")
    if len(moves) < n:
        why.append("fewer shooting moves than ensembles")
    cap = tis.get("interface_cap", A)
    if cap is not A and n >= 1:
        if cap > intf[-1] or cap < intf[0]:
            why.append("interface cap outside the interfaces")
        for i in range(min(n, len(moves))):
            if moves[i] == "wf" and not intf[max(i - 1, 0)] < cap:
                why.append(f"interface cap leaves wire-fencing ensemble {i} no room")
                break
    if "ensemble_engines" in sim and len(sim["ensemble_engines"]) < n:
        why.append("fewer ensemble_engines entries than ensembles")
    keys = set(cfg.keys()) | set(extra_keys)
    if any(e not in keys for ens in sim.get("ensemble_engines", []) for e in ens):
        why.append("undefined engine")
    lm1 = tis.get("lambda_minus_one", A)
    if lm1 is not A and lm1 is not False and n >= 1 and lm1 >= intf[0]:
        why.append("lambda_minus_one not below lambda_0")
    return why


# --------------------------------------------------------------------------- generators

ENG = {"class": "turtlemd", "input_path": "."}
VALS = [0, 1, 2, 3]
CAPS = [A, -1, 0.0, 0.5, 1, 1.5, 2, 3, 4]
LM1S = [A, -1, 0, 1]


def all_lists(vals, maxlen):
    out = []
    for L in range(maxlen + 1):
        out += [list(t) for t in itertools.product(vals, repeat=L)]
    return out


def all_moves(maxlen):
    out = []
    for L in range(maxlen + 1):
        out += [["wf" if b else "sh" for b in t] for t in itertools.product((0, 1), repeat=L)]
    return out


def build(intf, workers, moves, cap, lm1, quantis, eng_ok):
    """configuration dict as setup_config would hand it to check_config"""
    tis = {}
    if cap is not A:
        tis["interface_cap"] = cap
    if lm1 is not A:
        tis["lambda_minus_one"] = lm1
    if quantis is not A:
        tis["quantis"] = quantis
    ee = [["engine"] for _ in intf]
    if quantis is True and ee:
        ee[0] = ["engine0"]
    cfg = {
        "runner": {"workers": workers},
        "simulation": {"interfaces": list(intf), "shooting_moves": list(moves), "tis_set": tis,
                       "ensemble_engines": ee},
    }
    if eng_ok:
        cfg["engine"] = dict(ENG)
        cfg["engine0"] = dict(ENG)
    return cfg


EE_SHAPES = ("engine", "engine0-first", "pair")


def engine_list(length, shape):
    """an explicit ensemble_engines list with `length` entries"""
    if shape == "pair":
        return [["engine", "engine0"] for _ in range(length)]
    return [["engine0"] if (i == 0 and shape == "engine0-first") else ["engine"] for i in range(length)]


def gen_small_scope(ctx):
    """Exhaustive blocks (the others fields drawn from the seeded rng)."""
    rng = ctx.rng
    thorough = ctx.tier == "thorough"
    lists = all_lists(VALS, 4)
    moves = all_moves(5)
    caps = CAPS + ([2.5, 3.5] if thorough else [])
    lm1s = LM1S + ([False, -0.5, 0.5, 2] if thorough else [False])
    good = [l for l in lists if len(l) >= 2 and all(a < b for a, b in zip(l, l[1:]))]

    def workers_for(n):
        # mostly admissible so that the later checks are reached
        return rng.choice([0, 1, max(n - 1, 0), max(n - 1, 0), n, 4])

    # block A: interfaces x cap x moves (the three-way interaction of the cap clauses)
    for intf in lists:
        for cap in caps:
            for mv in moves:
                yield ("A", build(intf, workers_for(len(intf)), mv, cap, rng.choice(lm1s),
                                  rng.choice([A, False, True]), rng.random() < 0.85))
    # block B: interfaces x lambda_minus_one x quantis x workers x engines
    for intf in lists:
        for lm1 in lm1s:
            for q in (A, False, True):
                for w in range(0, 5 + (1 if thorough else 0)):
                    for eng_ok in (True, False):
                        mv = ["sh"] * rng.choice([len(intf), len(intf), max(len(intf) - 1, 0), 5])
                        yield ("B", build(intf, w, mv, rng.choice(caps), lm1, q, eng_ok))
    # block C: every strictly increasing list with the full product of everything else
    for intf in good:
        for w in range(0, 5):
            for mv in moves:
                for cap in caps:
                    for lm1 in lm1s:
                        for q in ((False, True) if not thorough else (A, False, True)):
                            for eng_ok in (True, False):
                                yield ("C", build(intf, w, mv, cap, lm1, q, eng_ok))
    # block L: explicit ensemble_engines lists of EVERY length 0 .. n+1 for every interface list
    # (a list shorter than the interfaces leaves an ensemble without an entry); entries name
    # defined engines (and, as a further factor, engines without a table); the rest mostly valid
    for intf in lists:
        n = len(intf)
        for length in range(0, n + 2):
            for shape in EE_SHAPES:
                for q in (A, False, True):
                    for eng_ok in (True, False):
                        for w in sorted({1, max(n - 1, 0)}):
                            cap = rng.choice([A, A, intf[-1] if intf else A, rng.choice(caps)])
                            cfg = build(intf, w, ["sh"] * (n + rng.choice([0, 0, 0, 1])), cap,
                                        rng.choice([A, False, -1]), q, eng_ok)
                            cfg["simulation"]["ensemble_engines"] = engine_list(length, shape)
                            yield ("L", cfg)
    if thorough:
        # block D: the full product over all lists, sampled
        for intf in lists + [list(t) for t in itertools.product(VALS, repeat=5)]:
            for w in range(0, 5):
                for cap in caps:
                    for lm1 in lm1s:
                        for _ in range(4):
                            yield ("D", build(intf, w, rng.choice(moves), cap, lm1,
                                              rng.choice([A, False, True]), rng.random() < 0.8))


ENG_POOL = ["engine", "engine0", "engine1", "gmxA", "gmxB", "simulation", "nowhere"]


def gen_engines(ctx, n):
    """Random engine lists / engine tables on otherwise mostly valid configurations."""
    rng = ctx.rng
    for _ in range(n):
        k = rng.randrange(2, 5)
        intf = sorted(rng.sample([0, 0.5, 1, 1.5, 2, 3, 4.25, 7], k))
        if rng.random() < 0.1:
            intf = [rng.choice(VALS) for _ in range(rng.randrange(0, 4))]
        mv = [rng.choice(["sh", "sh", "wf"]) for _ in range(len(intf) + rng.choice([0, 0, 1, -1]))]
        cfg = build(intf, rng.randrange(0, max(len(intf), 1)), mv, rng.choice([A, A, intf[-1] if intf else 1, 1.25, 0.0]),
                    rng.choice([A, False, -1, -0.5]), rng.choice([A, False, True]), False)
        r = rng.random()
        if r < 0.08:
            del cfg["simulation"]["ensemble_engines"]
        elif r < 0.16:
            cfg["simulation"]["ensemble_engines"] = []
        else:
            ne = len(intf) + rng.choice([0, 0, 0, 1, -1])
            cfg["simulation"]["ensemble_engines"] = [
                [rng.choice(ENG_POOL[:5] if rng.random() < 0.85 else ENG_POOL) for _ in range(rng.choice([1, 1, 1, 2, 0]))]
                for _ in range(max(ne, 0))]
        for name in ENG_POOL[:5]:
            if rng.random() < 0.85:
                sec = {}
                if rng.random() < 0.93:
                    sec["class"] = "gromacs" if (name.startswith("gmx") or rng.random() < 0.3) else rng.choice(["turtlemd", "cp2k"])
                if rng.random() < 0.93:
                    sec["input_path"] = rng.choice(["p", "p", "q"])
                sec["timestep"] = rng.choice([1, 1, 2])
                if rng.random() < 0.2:
                    sec["extra"] = rng.choice(["x", "y"])
                cfg[name] = sec
        yield ("E", cfg)


# --------------------------------------------------------------------------- setup_config path


def raw_toml_case(ctx):
    """A raw input file (before the defaults): dict to be dumped as TOML."""
    rng = ctx.rng
    r = rng.random()
    if r < 0.75:
        k = rng.randrange(2, 5)
        intf = sorted(rng.sample([0, 0.5, 1, 1.5, 2, 3], k))
    else:
        intf = [rng.choice(VALS) for _ in range(rng.randrange(0, 5))]
    n = len(intf)
    mv = [rng.choice(["sh", "sh", "wf"]) for _ in range(max(n + rng.choice([0, 0, 0, 0, 1, -1]), 0))]
    tis = {}
    cap = rng.choice([A, A, A, intf[-1] if intf else 1, intf[-1] if intf else 1, -1, 0.0, 0.5, 1, 1.5, 2, 3, 4])
    if cap is not A:
        tis["interface_cap"] = cap
    lm1 = rng.choice([A, A, False, False, -1, -1, 0, 1, -0.5])
    if lm1 is not A:
        tis["lambda_minus_one"] = lm1
    q = rng.choice([A, False, True])
    if q is not A:
        tis["quantis"] = q
    if rng.random() < 0.3:
        tis["accept_all"] = rng.random() < 0.5
    sim = {"interfaces": intf, "shooting_moves": mv, "tis_set": tis, "steps": 10}
    if rng.random() < 0.4:
        sim["seed"] = rng.randrange(0, 100)
    r = rng.random()
    if r < 0.15:
        sim["ensemble_engines"] = []
    elif r < 0.4:
        # any length 0 .. n+1: one entry per interface, more, or fewer
        ne = rng.choice([n, n, n, n + 1, max(n - 1, 0), rng.randrange(0, n + 2)])
        sim["ensemble_engines"] = [[rng.choice(["engine", "engine0", "engine1", "current", "nowhere"])
                                    for _ in range(rng.choice([1, 1, 2]))] for _ in range(ne)]
    w = rng.choice([0, 1, 1, max(n - 1, 0), max(n - 1, 0), n, 4])
    cfg = {"runner": {"workers": w}, "simulation": sim, "output": {"data_dir": "./", "screen": 1}}
    for name in ("engine", "engine0", "engine1"):
        if rng.random() < 0.85:
            cfg[name] = {"class": rng.choice(["turtlemd", "turtlemd", "gromacs"]),
                         "input_path": rng.choice(["p", "q"]), "timestep": rng.choice([1, 2])}
    return cfg


def engine_length_files():
    """input files with an explicit ensemble_engines list of every length 0 .. n+1 (n = 2, 3, 4
    interfaces), all engines defined, everything else valid"""
    out = []
    for n in (2, 3, 4):
        intf = [0, 0.5, 1, 1.5][:n]
        for length in range(0, n + 2):
            for shape in EE_SHAPES:
                for q in (A, False, True):
                    for w in sorted({1, n - 1}):
                        tis = {} if q is A else {"quantis": q}
                        cfg = {"runner": {"workers": w},
                               "simulation": {"interfaces": list(intf), "shooting_moves": ["sh"] * n, "tis_set": tis,
                                              "steps": 10, "ensemble_engines": engine_list(length, shape)},
                               "output": {"data_dir": "./", "screen": 1}}
                        for name in ("engine", "engine0"):
                            cfg[name] = {"class": "turtlemd", "input_path": "p", "timestep": 1}
                        out.append(cfg)
    return out


def documented_defaults(raw):
    """What setup_config is documented to fill in, written independently of the code and of the
    model: one ["engine"] per interface unless a (non-empty) list is given, ["engine0"] first under
    quantis; quantis / lambda_minus_one / accept_all default to false, seed to 0."""
    cfg = json.loads(json.dumps(raw))
    sim, tis = cfg["simulation"], cfg["simulation"]["tis_set"]
    tis.setdefault("quantis", False)
    tis.setdefault("lambda_minus_one", False)
    tis.setdefault("accept_all", False)
    sim.setdefault("seed", 0)
    if not sim.get("ensemble_engines"):
        sim["ensemble_engines"] = [["engine0"] if (i == 0 and tis["quantis"]) else ["engine"]
                                   for i in range(len(sim["interfaces"]))]
    return cfg


def real_setup(raw, d):
    """Run the real setup_config on raw written as TOML inside directory d (cwd = d)."""
    import tomli_w
    from infretis.setup import TOMLConfigError, setup_config
    for f in os.listdir(d):
        if f.startswith("infretis_data") or f.endswith(".toml"):
            os.remove(os.path.join(d, f))
    with open(os.path.join(d, "infretis.toml"), "wb") as f:
        tomli_w.dump(raw, f)
    try:
        cfg = setup_config("infretis.toml", "restart.toml")
    except Exception as e:  # noqa: BLE001
        return classify_exc(e, TOMLConfigError), None
    if cfg is None:
        return "NONE", None
    if not isinstance(cfg, dict):
        return "CRASH:returned " + type(cfg).__name__, None
    return "OK", cfg


def write_restart_real(cfg):
    """restart.toml in the cwd, written by the real REPEX_state.write_toml from configuration cfg
    (a bare REPEX_state without __init__, so that its properties - cstep, ... - work on the stub)"""
    import numpy as np
    from infretis.classes.repex import REPEX_state
    size = cfg["current"]["size"]
    stub = REPEX_state.__new__(REPEX_state)
    stub.config = cfg
    stub.live_paths = lambda: list(range(size))
    stub.locked = []
    stub._offset = 1
    stub.rgen = np.random.default_rng(0)
    stub.traj_data = {}
    REPEX_state.write_toml(stub)


def touch_active_paths(cfg, d):
    """the stored paths a restart file refers to (setup_config only asks whether traj.txt exists)"""
    load_dir = cfg["simulation"].get("load_dir", "trajs")
    for act in cfg["current"]["active"]:
        os.makedirs(os.path.join(d, load_dir, str(act)), exist_ok=True)
        open(os.path.join(d, load_dir, str(act), "traj.txt"), "a").close()


def restart_fixed_point(cfg1, d):
    """cfg1 = accepted, normalised configuration. Write restart.toml with the real write_toml,
    re-read it with the real setup_config, twice.  Returns None or an error string; whatever the
    implementation raises on the way (a configuration error on its own restart file included) is
    such an error, not a crash of the check."""
    from infretis.setup import setup_config

    def step(what, fn, *a):
        try:
            return fn(*a), None
        except Exception as e:  # noqa: BLE001
            return None, f"{what} is met with {exc_text(e)}"

    cstep1 = cfg1["current"]["cstep"]
    touch_active_paths(cfg1, d)
    _, err = step("writing the restart file (write_toml) of the accepted configuration", write_restart_real, cfg1)
    if err:
        return err
    cfg2, err = step("the restart file written from the accepted configuration, read back by setup_config,",
                     setup_config, "restart.toml", "restart.toml")
    if err:
        return err
    if cfg2 is None:
        return "setup_config returned None on the restart file"
    try:
        if cfg2["current"].pop("restarted_from", None) != cstep1:
            return "restarted_from not set to cstep"
        ref = json.loads(json.dumps(cfg1, default=str))
        if json.loads(json.dumps(cfg2, default=str)) != ref:
            diff = [k for k in set(cfg1) | set(cfg2) if json.dumps(cfg1.get(k), default=str, sort_keys=True) != json.dumps(cfg2.get(k), default=str, sort_keys=True)]
            return f"re-reading the written restart file changed sections {diff}"
        # a step later, written and read again
        cfg2["current"]["cstep"] = cstep1 + 1
        cfg2["current"]["restarted_from"] = cstep1
    except Exception as e:  # noqa: BLE001
        return f"re-reading the written restart file gave a malformed configuration ({exc_text(e)})"
    _, err = step("writing the second restart file (write_toml)", write_restart_real, cfg2)
    if err:
        return err
    cfg3, err = step("the second restart file, read back by setup_config,", setup_config, "restart.toml", "restart.toml")
    if err:
        return err
    if cfg3 is None:
        return "setup_config returned None on the second restart file"
    try:
        cfg3["current"].pop("restarted_from", None)
        cfg2["current"].pop("restarted_from", None)
        if json.loads(json.dumps(cfg3, default=str)) != json.loads(json.dumps(cfg2, default=str)):
            return "second re-read of the restart file is not a fixed point"
    except Exception as e:  # noqa: BLE001
        return f"second re-read of the restart file gave a malformed configuration ({exc_text(e)})"
    return None


def enc_normalised(cfg, extra_keys=()):
    """the 10 fields of a normalised configuration, as the model prints them"""
    return " ".join(encode(cfg, extra_keys).split(" ")[1:])


# --------------------------------------------------------------------------- the restart route
#
# A configuration reaches setup_config by one of three routes:
#   fresh    infretis.toml without a [current] table;
#   restart  restart.toml, the file the program wrote (and the user edited: more steps, more
#            workers, another cap, ...), given as the input file;
#   equal    infretis.toml whose tables all equal those of the restart.toml lying next to it, which
#            is then used instead.
# The property's list holds whatever the route.  Program-written restart files are edited here
# in every way of the property's list (and in harmless ways), written back as a user would and
# handed to the real setup_config.

ROUTES = ("restart", "equal", "fresh")


def _set(path, value):
    def f(c):
        for k in path[:-1]:
            c = c[k]
        c[path[-1]] = value
    return f


def restart_edits(written, rng, n_random=0):
    """[(label, class, edit function)] for the restart file `written` (a dict): every position
    of every edit class of the property's list, harmless edits, and n_random random overlays of all
    validated fields.  Whether the result is valid is decided by the oracle, not here."""
    sim = written["simulation"]
    intf = list(sim["interfaces"])
    moves = list(sim["shooting_moves"])
    ee = sim.get("ensemble_engines", [])
    n = len(intf)
    out = [("steps raised only", "steps", lambda c: None)]
    # workers
    for w in sorted({0, 1, max(n - 2, 0), n - 1, n, n + 1, 100}):
        out.append((f"runner.workers = {w}", "workers", _set(("runner", "workers"), w)))
    # interfaces: unsorted, duplicates, too few, one more than there are moves
    for i in range(n - 1):
        def swap(c, i=i):
            x = c["simulation"]["interfaces"]
            x[i], x[i + 1] = x[i + 1], x[i]
        out.append((f"interfaces {i} and {i + 1} swapped", "unsorted", swap))
        out.append((f"interfaces[{i + 1}] = interfaces[{i}]", "duplicate",
                    _set(("simulation", "interfaces", i + 1), intf[i])))
        out.append((f"interfaces[{i}] = interfaces[{i + 1}]", "duplicate",
                    _set(("simulation", "interfaces", i), intf[i + 1])))
    if n >= 3:
        out.append(("interfaces[0] = interfaces[-1]", "unsorted", _set(("simulation", "interfaces", 0), intf[-1])))
        out.append(("interfaces reversed", "unsorted", _set(("simulation", "interfaces"), intf[::-1])))
    for k in range(0, n):
        out.append((f"only the first {k} interfaces kept", "few-interfaces" if k < 2 else "interfaces-cut",
                    _set(("simulation", "interfaces"), intf[:k])))
    if intf:
        out.append(("one interface appended", "interfaces-added",
                    _set(("simulation", "interfaces"), intf + [intf[-1] + 1])))
    # shooting moves
    for k in range(1, len(moves) + 1):
        out.append((f"last {k} shooting moves dropped", "moves", _set(("simulation", "shooting_moves"), moves[:-k])))
    out.append(("one shooting move appended", "moves-added", _set(("simulation", "shooting_moves"), moves + ["sh"])))
    # interface cap, with the moves as they are and with each ensemble turned into wire fencing
    caps = set()
    if intf:
        caps |= {intf[0] - 1, intf[-1] + 0.5, intf[-1] + 4, 0.0}
        caps |= set(intf)
        caps |= {(a + b) / 2 for a, b in zip(intf, intf[1:])}
    for q in sorted(caps):
        out.append((f"tis_set.interface_cap = {q}", "cap", _set(("simulation", "tis_set", "interface_cap"), q)))
    for j in range(len(moves)):
        out.append((f"shooting_moves[{j}] = 'wf'", "wf", _set(("simulation", "shooting_moves", j), "wf")))
        if j < n:
            for q in sorted({intf[max(j - 1, 0)], intf[max(j - 1, 0)] - 0.25, intf[max(j - 1, 0)] + 0.25}):
                def wfcap(c, j=j, q=q):
                    c["simulation"]["shooting_moves"][j] = "wf"
                    c["simulation"]["tis_set"]["interface_cap"] = q
                out.append((f"shooting_moves[{j}] = 'wf' and tis_set.interface_cap = {q}", "cap-wf", wfcap))
    if "interface_cap" in sim["tis_set"]:
        out.append(("tis_set.interface_cap removed", "cap-removed",
                    lambda c: c["simulation"]["tis_set"].pop("interface_cap")))
    # engines
    for i in range(len(ee)):
        out.append((f"ensemble_engines[{i}] = ['engine7'] (no such table)", "engine",
                    _set(("simulation", "ensemble_engines", i), ["engine7"])))
        out.append((f"'nowhere' (no such table) added to ensemble_engines[{i}]", "engine",
                    _set(("simulation", "ensemble_engines", i), list(ee[i]) + ["nowhere"])))
    for name in sorted({e for ens in ee for e in ens}):
        if name in written and name not in NON_ENGINE_KEYS:
            out.append((f"table [{name}] removed", "engine", lambda c, name=name: c.pop(name)))
    # the engine list cut / extended to every length 0 .. n+1 (entries kept, padded with the last)
    pad = list(ee[-1]) if ee else ["engine"]
    for k in range(0, n + 2):
        if k != len(ee):
            new = [list(x) for x in ee[:k]] + [list(pad) for _ in range(k - len(ee))]
            out.append((f"ensemble_engines {'cut' if k < len(ee) else 'extended'} to {k} entries ({json.dumps(new)})",
                        "engine-length", _set(("simulation", "ensemble_engines"), new)))
    out.append(("ensemble_engines removed", "engine-default", lambda c: c["simulation"].pop("ensemble_engines", None)))
    # lambda_minus_one
    if intf:
        for v in sorted({intf[0], intf[0] + 0.25, intf[-1], intf[0] - 0.5, 0.0}):
            out.append((f"tis_set.lambda_minus_one = {v}", "lm1", _set(("simulation", "tis_set", "lambda_minus_one"), v)))
    out.append(("tis_set.lambda_minus_one = false", "lm1-off", _set(("simulation", "tis_set", "lambda_minus_one"), False)))
    # harmless settings
    out.append(("tis_set.accept_all = true, seed = 5", "harmless",
                lambda c: (c["simulation"]["tis_set"].__setitem__("accept_all", True),
                           c["simulation"].__setitem__("seed", 5))))
    # everything at once
    shim = types.SimpleNamespace(rng=rng)
    for k in range(n_random):
        raw = raw_toml_case(shim)
        out.append((f"all validated fields replaced (random #{k})", "overlay", lambda c, raw=raw: overlay(c, raw)))
    return out


def overlay(c, raw):
    """replace every validated field of the restart file c by those of the input file raw"""
    c["runner"]["workers"] = raw["runner"]["workers"]
    sim, rs = c["simulation"], raw["simulation"]
    sim["interfaces"] = list(rs["interfaces"])
    sim["shooting_moves"] = list(rs["shooting_moves"])
    for k in ("interface_cap", "lambda_minus_one", "quantis", "accept_all"):
        if k in rs["tis_set"]:
            sim["tis_set"][k] = rs["tis_set"][k]
        else:
            sim["tis_set"].pop(k, None)
    if "ensemble_engines" in rs:
        sim["ensemble_engines"] = copy.deepcopy(rs["ensemble_engines"])
    else:
        sim.pop("ensemble_engines", None)
    for name in ("engine", "engine0", "engine1"):
        if name in raw:
            c[name] = dict(raw[name])
        else:
            c.pop(name, None)


def apply_edit(written, edit, steps):
    c = copy.deepcopy(written)
    c["simulation"]["steps"] = steps
    edit(c)
    return c


def real_setup_route(edited, route, d, keep_data=False):
    """The real setup_config on the edited restart file `edited` (a dict with [current]) arriving by
    `route`; cwd = d.  Returns (outcome, returned configuration or None)."""
    import tomli_w
    from infretis.setup import TOMLConfigError, setup_config
    for f in os.listdir(d):
        if f.endswith(".toml") or (f.startswith("infretis_data") and not keep_data):
            os.remove(os.path.join(d, f))
    plain = {k: v for k, v in edited.items() if k != "current"}
    try:
        if route == "restart":
            with open(os.path.join(d, "restart.toml"), "wb") as f:
                tomli_w.dump(edited, f)
            cfg = setup_config("restart.toml")
        elif route == "equal":
            with open(os.path.join(d, "restart.toml"), "wb") as f:
                tomli_w.dump(edited, f)
            with open(os.path.join(d, "infretis.toml"), "wb") as f:
                tomli_w.dump(plain, f)
            cfg = setup_config("infretis.toml", "restart.toml")
        else:
            with open(os.path.join(d, "infretis.toml"), "wb") as f:
                tomli_w.dump(plain, f)
            cfg = setup_config("infretis.toml", "restart.toml")
    except Exception as e:  # noqa: BLE001
        return classify_exc(e, TOMLConfigError), None
    if cfg is not None and not isinstance(cfg, dict):
        return "CRASH:returned " + type(cfg).__name__, None
    return ("NONE" if cfg is None else "OK"), cfg


def setup_request(edited, route, paths_present=True):
    """request line for the model's setup_from"""
    cur = "N" if route == "fresh" else f"{edited['current']['cstep']}:{1 if paths_present else 0}"
    extra = ("current",) if route == "fresh" else ()
    plain = {k: v for k, v in edited.items() if k != "current"} if route == "fresh" else edited
    return " ".join([cmd("setup"), str(edited["simulation"]["steps"]), cur] + encode(plain, extra).split(" ")[1:])


def tree_state(d, load_dir="load"):
    """the stored paths (sampling adds to them; setup_config never does)"""
    out = []
    for root, dirs, files in os.walk(os.path.join(d, load_dir)):
        dirs.sort()
        out += [(os.path.relpath(os.path.join(root, f), d), os.path.getsize(os.path.join(root, f))) for f in sorted(files)]
    return out


def slim(edited):
    """the part of a restart file the property's list looks at (table names + runner + simulation)"""
    return {k: (v if k in ("runner", "simulation") else {}) for k, v in edited.items()}


def real_run_restart_cases(case):
    """(forked child) Run the real program on the lattice engine for a few steps, then edit the
    restart.toml IT wrote in every way of restart_edits and hand each to the real setup_config.
    Returns plain data: the written file and one record per edit."""
    import tomli
    import sysharness as H
    rng = random.Random(case["seed"])
    wd = H.scratch("infv_c18r_")
    try:
        H.write_setup(wd, n_intf=case["n_intf"], moves=case.get("moves"), workers=case["workers"],
                      steps=case["steps"], seed=case["seed"], cap=case.get("cap"),
                      lambda_minus_one=case.get("lm1"), n_jumps=case.get("n_jumps", 2),
                      extra_engine=case.get("extra_engine"), ensemble_engines=case.get("ensemble_engines"))
        with open(os.path.join(wd, "infretis.toml"), "rb") as f:
            first_input = tomli.load(f)
        try:
            res = H.run_sim(wd, stop_after=case.get("stop_after"))
            H.reset_class_state()
            with open(os.path.join(wd, "restart.toml"), "rb") as f:
                written = tomli.load(f)
        except Exception as e:  # noqa: BLE001  (a valid lattice set-up must start and run)
            return {"case": case, "run_failed": exc_text(e), "from_impl": raised_by_implementation(e),
                    "config": first_input}
        info = {"status": res["status"], "cstep": written["current"]["cstep"],
                "locked": len(written["current"]["locked"])}
        cstep = written["current"]["cstep"]
        steps = max(case["steps"], cstep) + 3
        records = []
        cwd = os.getcwd()
        os.chdir(wd)
        try:
            for k, (label, cls, edit) in enumerate(restart_edits(written, rng, case.get("n_random", 4))):
                edited = apply_edit(written, edit, steps)
                route = ROUTES[k % 2] if k else "restart"
                before = tree_state(wd)
                real, cfg = real_setup_route(edited, route, wd, keep_data=True)
                rec = {"label": label, "cls": cls, "edited": edited, "route": route, "impl": real,
                       "paths_present": True, "touched": tree_state(wd) != before}
                if cfg is not None:
                    rec.update(describe_returned(cfg))
                records.append(rec)
            # a finished run and a run with a lost path: setup_config answers None
            fin = apply_edit(written, lambda c: None, cstep)
            real, _ = real_setup_route(fin, "restart", wd, keep_data=True)
            records.append({"label": "steps = cstep (finished)", "cls": "finished", "edited": fin,
                            "route": "restart", "impl": real, "paths_present": True, "touched": False})
        finally:
            os.chdir(cwd)
        # the usual continuation must not only be accepted but run on to the end
        import tomli_w
        cont = apply_edit(written, lambda c: None, steps)
        with open(os.path.join(wd, "restart.toml"), "wb") as f:
            tomli_w.dump(cont, f)
        try:
            r2 = H.run_sim(wd, inp="restart.toml")
            with open(os.path.join(wd, "restart.toml"), "rb") as f:
                end = tomli.load(f)["current"]["cstep"]
            info["continuation"] = "ok" if (r2["status"] == "done" and end == steps) else \
                f"status {r2['status']}, restart file at step {end} of {steps}"
        except Exception as e:  # noqa: BLE001
            info["continuation"] = f"{type(e).__name__}: {e}"
        info["continued_config"] = cont
        return {"case": case, "written": written, "info": info, "records": records}
    finally:
        common.rmtree(wd)


def real_run_cases(tier):
    eng1 = {"engine1": {"class": "LatticeEngine", "module": None, "wall": -4}}
    cases = [
        {"n_intf": 3, "workers": 1, "steps": 2, "seed": 1},
        {"n_intf": 4, "moves": ["sh", "wf", "wf", "sh"], "cap": 2.75, "lm1": -1.5, "workers": 2, "steps": 3, "seed": 2},
        {"n_intf": 4, "workers": 3, "steps": 6, "seed": 3, "stop_after": 2},
        {"n_intf": 5, "moves": ["sh", "wf", "wf", "wf", "sh"], "cap": 3.75, "workers": 2, "steps": 3, "seed": 4, "n_jumps": 3},
        {"n_intf": 3, "workers": 2, "steps": 3, "seed": 5, "extra_engine": eng1,
         "ensemble_engines": [["engine"], ["engine", "engine1"], ["engine1"]]},
        {"n_intf": 2, "workers": 1, "steps": 2, "seed": 6},
    ]
    if tier == "thorough":
        for s in range(7, 31):
            n = 2 + s % 5
            wf = s % 2 == 0 and n >= 3
            cases.append({"n_intf": n, "workers": 1 + s % max(n - 1, 1), "steps": 2 + s % 4, "seed": s,
                          "moves": (["sh"] + ["wf"] * (n - 2) + ["sh"]) if wf else None,
                          "cap": (n - 1.25) if wf else None, "lm1": -1.5 if s % 3 == 0 else None,
                          "stop_after": 2 if s % 4 == 1 else None, "n_random": 12})
    import sysharness as H
    for c in cases:
        if c.get("extra_engine"):
            for sec in c["extra_engine"].values():
                sec["module"] = H.PLUGINS
    return cases


# --------------------------------------------------------------------------- accepted => initialises


def describe_returned(cfg):
    """what the checks look at in a configuration returned by setup_config (never raises)"""
    try:
        rf = cfg["current"].get("restarted_from")
    except Exception:  # noqa: BLE001
        rf = "MALFORMED"
    return {"returned_invalid": safe_invalid_reasons(cfg), "enc": safe_enc_normalised(cfg), "restarted_from": rf}


def try_initialise(cfg):
    """What scheduler() does with a configuration setup_config returned, up to the first MD step:
    the real setup_internal (REPEX state, ensembles, stored paths and their weights, engines,
    order parameters) and the first `workers` picks (initiate / prep_md_items: pick, lock, engine
    assignment).  Must be called in a directory holding the stored paths.  ANY exception, and any
    answer outside its domain, is reported: {"ok", "stage", "error"}."""
    import sysharness as H
    from infretis.core import tis
    from infretis.setup import setup_internal
    H.reset_class_state()
    stage = "setup_internal"
    problems = []
    try:
        sim = cfg["simulation"]
        n = len(sim["interfaces"])
        workers = cfg["runner"]["workers"]
        left = sim["steps"] - cfg["current"]["cstep"]
        md_items, state = setup_internal(cfg)
        stage = "the state after setup_internal"
        if len(state.ensembles) != n:
            problems.append(f"{len(state.ensembles)} ensembles for {n} interfaces")
        used = sorted({e for ens in sim["ensemble_engines"] for e in ens})
        for e in used:
            if not tis.ENGINES.get(e):
                problems.append(f"no engine object for '{e}'")
        for i in range(n):
            t = state._trajs[i]
            if isinstance(t, str):
                problems.append(f"ensemble {i} has no path")
            elif not state.state[i][i] > 0:
                problems.append(f"path {t.path_number} has weight {state.state[i][i]} in its ensemble {i}")
        stage = "the first picks (initiate / prep_md_items)"
        n_picks = 0
        while state.initiate():
            w = state.prep_md_items(copy.deepcopy(md_items))
            n_picks += 1
            if not w.get("picked"):
                problems.append(f"pick {n_picks} is empty")
                continue
            for ens, d in w["picked"].items():
                if not -1 <= ens < n - 1:
                    problems.append(f"pick {n_picks}: ensemble {ens} out of range")
                for eng, idx in d["eng_idx"].items():
                    if eng not in tis.ENGINES or not 0 <= idx < len(tis.ENGINES[eng]):
                        problems.append(f"pick {n_picks}: ensemble {ens} is given engine '{eng}'[{idx}], which does not exist")
            if n_picks > workers + 1:
                problems.append("more first picks than workers")
                break
        if n_picks != max(min(workers, left), 0):
            problems.append(f"{n_picks} first picks for {workers} workers and {left} steps left")
    except Exception as e:  # noqa: BLE001
        return {"ok": False, "stage": stage, "error": exc_text(e)}
    finally:
        try:
            H.reset_class_state()
        except Exception:  # noqa: BLE001
            pass
    return {"ok": not problems, "stage": "the answers of setup_internal / the first picks", "error": "; ".join(problems)}


# --------------------------------------------------------------------------- order of normalisation and validation
#
# setup_config first fills in defaults - one ["engine"] per interface when no (non-empty)
# ensemble_engines is given, seed = 0, quantis / lambda_minus_one / accept_all = false, and under
# quantis (without an engine list of its own) ["engine0"] for [0-] - and only THEN validates.
# Whether a file is valid can depend on what these statements put in place: quantis = true without
# ensemble_engines needs a table [engine0].  This block enumerates the fields the defaults touch, on
# directories in which the program has really run (lattice engine), so that every configuration
# setup_config accepts can be taken through the real setup_internal and the first picks:
#   quantis {absent, false, true} x [engine0] {present, absent, misnamed} x [engine] {present, absent}
#   x ensemble_engines {absent, [], all "engine", "engine0" first, "engine0" last, both per
#   ensemble, an undefined name} x lambda_minus_one {absent, false, valid, 0.0, = interfaces[0]}
#   x seed {absent, given} x accept_all {absent, given} (workers in turn 1, n-1, n),
# each as a fresh input file AND as the restart file the run left behind, edited.

ORDER_Q = (A, False, True)
ORDER_E0 = ("present", "absent", "misnamed")
ORDER_E = (True, False)
ORDER_EE = ("absent", "empty", "engine", "engine0-first", "engine0-last", "both", "undefined")
ORDER_SEED = (A, 7)
ORDER_AA = (A, True)


def order_bases(tier):
    bases = [
        {"n_intf": 2, "moves": None, "cap": None, "seed": 11},
        {"n_intf": 3, "moves": None, "cap": None, "seed": 12},
        {"n_intf": 3, "moves": ["sh", "sh", "wf"], "cap": 2.25, "seed": 13},
    ]
    if tier == "thorough":
        bases += [
            {"n_intf": 4, "moves": ["sh", "wf", "wf", "sh"], "cap": 2.75, "seed": 14},
            {"n_intf": 4, "moves": None, "cap": None, "seed": 15},
            {"n_intf": 5, "moves": ["sh", "wf", "wf", "wf", "sh"], "cap": 3.75, "seed": 16},
        ]
    return bases


def order_variations(base, tier):
    """[(k, var)]: the full product of the fields the defaults of setup_config touch; workers in
    turn (quick) or as a further factor (thorough)"""
    n = base["n_intf"]
    lm1s = (A, False, -1.5, 0.0, 0.5)           # interfaces[0] = 0.5 on the lattice
    ws = sorted({1, n - 1, n})
    out = []
    k = 0
    # explicit lists of every length 0 .. n+1: "empty" is 0, "engine" is n, the others are len<k>
    ees = ORDER_EE + tuple(f"len{k}" for k in range(1, n + 2) if k != n)
    for q, e0, e, ee, lm1, sd, aa in itertools.product(ORDER_Q, ORDER_E0, ORDER_E, ees, lm1s, ORDER_SEED, ORDER_AA):
        for w in (ws if tier == "thorough" else [ws[k % len(ws)]]):
            # surplus shooting moves (more moves than interfaces is legal: the examples ship such inputs)
            out.append((k, {"q": q, "e0": e0, "e": e, "ee": ee, "lm1": lm1, "seed": sd, "aa": aa, "w": w, "xm": (0, 1, 3)[k % 3]}))
            k += 1
    return out


def order_engine_lists(kind, n):
    if kind == "absent":
        return A
    if kind == "empty":
        return []
    if kind == "engine":
        return [["engine"] for _ in range(n)]
    if kind.startswith("len"):
        return [["engine"] for _ in range(int(kind[3:]))]        # whatever the number of interfaces
    if kind == "engine0-first":
        return [["engine0"]] + [["engine"] for _ in range(n - 1)]
    if kind == "engine0-last":
        return [["engine"] for _ in range(n - 1)] + [["engine0"]]
    if kind == "both":
        return [["engine", "engine0"] for _ in range(n)]
    return [["engine"] for _ in range(n - 1)] + [["engine7"]]      # no such table


def order_label(var):
    """the fields of the input file the variation sets, in words (what is left out is absent)"""
    def show(v):
        return json.dumps(v)
    out = []
    if not isinstance(var["q"], str):
        out.append(f"quantis = {show(var['q'])}")
    out.append({"present": "a table [engine0]", "absent": "no table [engine0]",
                "misnamed": "no table [engine0] (but one called [engine_0])"}[var["e0"]])
    if not var["e"]:
        out.append("no table [engine]")
    if var["ee"] == "absent":
        out.append("no ensemble_engines")
    elif var["ee"].startswith("len"):
        out.append(f"ensemble_engines = {json.dumps(order_engine_lists(var['ee'], 0))}")
    else:
        out.append(f"ensemble_engines = {json.dumps(order_engine_lists(var['ee'], 3))}" + (" (for 3 interfaces)" if var["ee"] != "empty" else ""))
    for key, name in (("lm1", "lambda_minus_one"), ("seed", "seed"), ("aa", "accept_all")):
        if not isinstance(var[key], str):
            out.append(f"{name} = {show(var[key])}")
    out.append(f"workers = {var['w']}")
    if var.get("xm"):
        out.append(f"{var['xm']} shooting move(s) more than interfaces")
    return ", ".join(out)


def order_edit(written, var, steps):
    """the restart file `written` (a dict, as a real run left it) with the fields of `var` set or
    removed as a user would"""
    c = copy.deepcopy(written)
    sim = c["simulation"]
    tis = sim["tis_set"]
    sim["steps"] = steps
    c["runner"]["workers"] = var["w"]
    if var.get("xm"):
        sim["shooting_moves"] = list(sim["shooting_moves"]) + ["sh"] * var["xm"]
    for key, v in (("quantis", var["q"]), ("lambda_minus_one", var["lm1"]), ("accept_all", var["aa"])):
        if isinstance(v, str):
            tis.pop(key, None)
        else:
            tis[key] = v
    if isinstance(var["seed"], str):
        sim.pop("seed", None)
    else:
        sim["seed"] = var["seed"]
    ee = order_engine_lists(var["ee"], len(sim["interfaces"]))
    if ee is A:
        sim.pop("ensemble_engines", None)
    else:
        sim["ensemble_engines"] = ee
    eng = c.pop("engine")
    for k in ("engine0", "engine_0"):
        c.pop(k, None)
    if var["e"]:
        c["engine"] = dict(eng)
    if var["e0"] == "present":
        c["engine0"] = dict(eng, wall=-5)
    elif var["e0"] == "misnamed":
        c["engine_0"] = dict(eng, wall=-5)
    return c


def order_routes(k):
    return ("fresh", ("restart", "equal")[k % 2])


def order_block_child(job):
    """(forked child) One real run of the program on the lattice engine, then every variation of
    job["variations"] written into the input / restart file and handed to the real setup_config;
    whatever it accepts goes on through the real setup_internal and the first picks."""
    import tomli
    import sysharness as H
    import logging
    logging.getLogger("main").setLevel(logging.CRITICAL)
    base = job["base"]
    wd = H.scratch("infv_c18o_")
    try:
        H.write_setup(wd, n_intf=base["n_intf"], moves=base.get("moves"), workers=1, steps=2,
                      seed=base["seed"], cap=base.get("cap"))
        with open(os.path.join(wd, "infretis.toml"), "rb") as f:
            first_input = tomli.load(f)
        try:
            H.run_sim(wd)
            H.reset_class_state()
            with open(os.path.join(wd, "restart.toml"), "rb") as f:
                written = tomli.load(f)
            steps = written["current"]["cstep"] + 6
        except Exception as e:  # noqa: BLE001
            return {"base": base, "run_failed": exc_text(e), "from_impl": raised_by_implementation(e),
                    "config": first_input}
        records = []
        cwd = os.getcwd()
        os.chdir(wd)
        try:
            before = tree_state(wd)
            for k, var in job["variations"]:
                edited = order_edit(written, var, steps)
                for route in job.get("routes") or order_routes(k):
                    real, cfg = real_setup_route(edited, route, wd, keep_data=True)
                    rec = {"k": k, "var": var, "route": route, "impl": real}
                    if cfg is not None:
                        rec.update(describe_returned(cfg))
                        rec["init"] = try_initialise(cfg)
                    after = tree_state(wd)          # nothing else writes here: = the state before the next case
                    rec["touched"] = after != before
                    before = after
                    records.append(rec)
                    for f in os.listdir(wd):
                        if re.fullmatch(r"infretis_data_\d+\.txt", f):
                            os.remove(os.path.join(wd, f))
        finally:
            os.chdir(cwd)
        return {"base": base, "written": written, "steps": steps, "records": records}
    finally:
        common.rmtree(wd)


# --------------------------------------------------------------------------- run


class Tally:
    """keeps the smallest witness per violation class"""

    def __init__(self):
        self.best = {}
        self.n = {}
        self.flushed = False

    def add(self, key, what, payload, found, rank=0):
        size = rank + len(json.dumps(payload["config"], default=str))
        self.n[key] = self.n.get(key, 0) + 1
        if key not in self.best or size < self.best[key][0]:
            self.best[key] = (size, what, payload, found)

    def flush(self, ctx, cap=8):
        # oracle findings first, smallest witness first; at most `cap` replay files
        self.flushed = True
        ranked = sorted(self.best.items(), key=lambda kv: (not kv[1][3], kv[1][0]))
        for key, (size, what, payload, found) in ranked[:cap]:
            payload = dict(payload, cases_in_this_class=self.n[key], violation_classes_in_this_run=len(ranked))
            ctx.violation(what, payload, found)


def run(ctx):
    common.proof_stage(ctx, "C18", ["extract/c18.vo"])
    runner = common.runner_stage(ctx, "c18")
    if runner is None:
        return
    tally = Tally()
    under_test = {}       # the configuration most recently handed to the implementation (last-resort net)
    try:
        _run(ctx, runner, tally, under_test)
    except Exception as e:  # noqa: BLE001
        # nothing of the implementation may crash the check: whatever escapes the guarded steps is
        # reported with the configuration that was under test
        import traceback
        impl = raised_by_implementation(e) and under_test.get("config") is not None
        tally.add(("escaped", type(e).__name__),
                  (f"C18 fails on the implementation: {exc_text(e)} escaped from the implementation while the check was at step "
                   f"'{under_test.get('step')}' on this configuration") if impl else
                  f"harness error at step '{under_test.get('step')}' (not raised by the implementation): {exc_text(e)}",
                  {"mode": under_test.get("mode", "none"), "config": under_test.get("config"), "route": under_test.get("route"),
                   "step": under_test.get("step"), "traceback": traceback.format_exc()[-3000:],
                   "expected": "TOMLConfigError or a configuration that initialises"}, impl)
        if not tally.flushed:
            tally.flush(ctx)


def _run(ctx, runner, tally, under_test):
    import time
    t0 = time.time()
    stats = {"compared": 0, "disagreements": 0, "kind_agreement": 0, "oracle_vs_validb_disagreements": 0,
             "setup_compared": 0, "setup_disagreements": 0, "restart_roundtrips": 0,
             "outcomes": {}, "model_results": {},
             "restart_route": {"stub_written_files": 0, "real_runs": 0, "real_run_info": [], "compared": 0,
                               "disagreements": 0, "oracle_vs_validb_disagreements": 0, "edit_classes": {},
                               "outcomes": {}}}

    def process(batch, mode):
        """batch: list of (tag, cfg, real_outcome, extra_keys, raw_for_replay)"""
        reqs = [encode(cfg, extra) for _, cfg, _, extra, _ in batch]
        outs = runner.run(reqs)
        for (tag, cfg, real, extra, raw), req, out in zip(batch, reqs, outs):
            parts = out.split(" ")
            if out.startswith("ERR") or len(parts) != 14:
                tally.add(("model-error", mode), f"model runner failed on a request: {out[:80]}",
                          {"correspondence": "c18 runner", "mode": mode, "config": raw, "request": req, "model": out}, False)
                continue
            m_check, m_valid = parts[0], parts[1] == "1"
            why = invalid_reasons(cfg, extra)
            ctx.count(req, nontrivial=True)
            ctx.dist(f"{mode}:{tag}")
            oc = outcome_class(real)
            k = f"{mode}:{'valid' if not why else 'invalid'}:{oc}"
            stats["outcomes"][k] = stats["outcomes"].get(k, 0) + 1
            stats["compared"] += 1
            mk = re.sub(r"^(CE:CapWf|CE:EngineUndef)\d+$", r"\1", m_check)
            stats["model_results"][mk] = stats["model_results"].get(mk, 0) + 1
            payload = {"mode": mode, "config": raw, "request": req, "impl": real, "model": m_check,
                       "invalid_because": why}
            if (not why) != m_valid:
                stats["oracle_vs_validb_disagreements"] += 1
                tally.add(("oracle", mode), "harness oracle and the model's validb (proved = valid) disagree",
                          dict(payload, obligation="python oracle == validb", validb=m_valid), False)
                continue
            if why and oc != "CE":
                tally.add(("prop", mode, tuple(re.sub(r"\d+", "#", w) for w in why), oc),
                          f"C18 fails on the implementation: configuration with {', '.join(why)} is "
                          + how_met(oc) + " instead of TOMLConfigError",
                          dict(payload, expected="TOMLConfigError"), True)
                stats["disagreements"] += outcome_class(m_check) != oc
                continue
            if outcome_class(m_check) != oc:
                stats["disagreements"] += 1
                tally.add(("corr", mode, outcome_class(m_check), oc),
                          f"correspondence model/implementation broken ({mode}): model {m_check}, implementation {real} "
                          "(the property's oracle is satisfied on this case)",
                          dict(payload, correspondence="c18 runner vs infretis.setup"), False)
                continue
            if m_check == real or (m_check.startswith(real) and real in ("CE:CapWf", "CE:EngineUndef")):
                stats["kind_agreement"] += 1
        return outs

    def judge_restart(items):
        """items: edited restart files with the implementation's answer; asks the model (setup_from)
        and the oracle"""
        rr = stats["restart_route"]
        reqs = [setup_request(it["edited"], it["route"], it["paths_present"]) for it in items]
        outs = runner.run(reqs)
        for it, req, out in zip(items, reqs, outs):
            real, route = it["impl"], it["route"]
            oc = outcome_class(real)
            parts = out.split(" ")
            cur = it["edited"]["current"]
            payload = {"mode": it.get("mode", "restart_edit"), "route": route, "edit": it["label"], "config": it["edited"],
                       "paths_present": it["paths_present"], "base": it["base"], "request": req, "impl": real,
                       "model": parts[0]}
            if "case" in it:
                payload["case"] = it["case"]
            ctx.count(f"route {route} {req}", nontrivial=True)
            ctx.dist(f"restart-route:{it['base_kind']}:{route}:{it['cls']}")
            rr["compared"] += 1
            rr["edit_classes"][it["cls"]] = rr["edit_classes"].get(it["cls"], 0) + 1
            if out.startswith("ERR") or (out != "NONE" and len(parts) != 12):
                tally.add(("model-error", "restart"), f"model runner failed on a request: {out[:80]}",
                          dict(payload, correspondence="c18 runner", model=out), False)
                continue
            if out == "NONE":
                key = f"{route}:no-answer:{oc}"
                rr["outcomes"][key] = rr["outcomes"].get(key, 0) + 1
                if oc != "NONE":
                    rr["disagreements"] += 1
                    tally.add(("corr-restart", "NONE", oc),
                              f"correspondence model/implementation broken (setup_config, route {route}): the model gives no "
                              f"answer (finished run or missing path), the implementation {real}",
                              dict(payload, correspondence="setup_from vs infretis.setup.setup_config"), False)
                continue
            m_res, m_valid = parts[0], parts[1] == "1"
            why = invalid_reasons(documented_defaults(slim(it["edited"])))
            payload["invalid_because"] = why
            key = f"{route}:{'valid' if not why else 'invalid'}:{oc}"
            rr["outcomes"][key] = rr["outcomes"].get(key, 0) + 1
            if (not why) != m_valid:
                rr["oracle_vs_validb_disagreements"] += 1
                tally.add(("oracle", "restart"), "harness oracle and the model's validb (proved = valid) disagree on an edited restart file",
                          dict(payload, obligation="python oracle == validb o normalise", validb=m_valid), False)
                continue
            init = it.get("init")
            if why and oc != "CE" and oc != "NONE":
                how = {"restart": "given as the input file", "equal": "used in place of an infretis.toml with the same tables",
                       "fresh": "stripped of its [current] table (fresh start)"}[route]
                then = ""
                if oc == "OK":
                    then = "accepted by setup_config (sampling would " + ("start" if route == "fresh" else f"go on from step {cur['cstep']}") + ")"
                    if init is not None and not init["ok"]:
                        then += f"; {init['stage']} then fails with {init['error']}"
                else:
                    then = how_met(oc)
                if it["base_kind"] == "order":
                    what = (f"C18 fails on the implementation: {it['label']} (" + ("fresh input file" if route == "fresh" else
                            f"restart file of a real run at step {cur['cstep']}, {how}") + f"): with the documented defaults this has {', '.join(why)}, "
                            f"yet it is {then} instead of TOMLConfigError")
                else:
                    what = (f"C18 fails on the implementation: a restart file written by the program at step {cur['cstep']}, then edited "
                            f"({it['label']}; steps = {it['edited']['simulation']['steps']}) into a configuration with {', '.join(why)} and {how}, is "
                            f"{then} instead of TOMLConfigError")
                tally.add(("prop-restart", it["base_kind"] == "order", route != "fresh", re.sub(r"\d+", "#", why[0]), oc),
                          what, dict(payload, expected="TOMLConfigError", **({"then": init} if init is not None else {})), True,
                          # witness: a single edit breaking a single clause, on a real run's file, if there is one
                          # (and, first of all, one that was accepted and then failed to initialise)
                          rank=10 ** 7 * (len(why) - 1) + 10 ** 6 * (it["cls"] == "overlay") + 10 ** 5 * (it["base_kind"] == "stub")
                          - 10 ** 9 * (init is not None and not init["ok"]))
                rr["disagreements"] += outcome_class(m_res) != oc
                continue
            if outcome_class(m_res) != oc:
                rr["disagreements"] += 1
                tally.add(("corr-restart", outcome_class(m_res), oc),
                          f"correspondence model/implementation broken (setup_config, route {route}): model {m_res}, implementation {real} "
                          f"on an edited restart file ({it['label']})",
                          dict(payload, correspondence="setup_from vs infretis.setup.setup_config"), False)
                continue
            if oc == "CE" and it.get("touched"):
                tally.add(("prop-restart-touched",), "C18 fails on the implementation: the stored paths changed although the edited restart "
                          f"file ({it['label']}) was rejected", dict(payload, expected="rejected before sampling starts"), True)
            if oc == "OK":
                if it.get("returned_invalid"):
                    tally.add(("prop-restart-accepted", it["returned_invalid"][0]),
                              f"C18 fails on the implementation: setup_config returned from an edited restart file ({it['label']}) "
                              f"a configuration with {', '.join(it['returned_invalid'])}",
                              dict(payload, invalid_because=it["returned_invalid"], expected="TOMLConfigError"), True)
                elif it.get("enc") != " ".join(parts[2:]):
                    rr["disagreements"] += 1
                    tally.add(("corr-restart-norm",), f"correspondence broken (route {route}): configuration returned by setup_config "
                              "differs from the model's normalise", dict(payload, impl=it.get("enc"), model=" ".join(parts[2:]),
                                                                         correspondence="normalise vs setup_config defaults"), False)
                elif route != "fresh" and it.get("restarted_from") != cur["cstep"]:
                    rr["disagreements"] += 1
                    tally.add(("corr-restart-from",), f"setup_config did not record the step it restarts from (route {route})",
                              dict(payload, correspondence="restarted_from == cstep"), False)
                elif init is not None:
                    rr["initialised"] = rr.get("initialised", 0) + 1
                    if not init["ok"]:
                        tally.add(("prop-init", route != "fresh", init["stage"], re.sub(r"\d+", "#", init["error"])[:60]),
                                  f"C18 fails on the implementation: a configuration setup_config accepts ({it['label']}; route {route}) does not "
                                  f"initialise: {init['stage']} fails with {init['error']}",
                                  dict(payload, then=init, expected="accepted configurations initialise (setup_internal, first picks) without error"), True)

    def run_failed(res, mode, case):
        """a real run on a valid lattice set-up that did not get through"""
        cfg = res["config"]
        why = safe_invalid_reasons(documented_defaults(slim(cfg)))
        found = bool(res.get("from_impl")) and not why and not res["run_failed"].startswith("TOMLConfigError")
        tally.add(("real-run-raised", res["run_failed"][:40]),
                  ("C18 fails on the implementation: a valid configuration (lattice engine, stored initial paths) does not "
                   f"initialise and run: {res['run_failed']}") if found else
                  f"real run failed ({'implementation' if res.get('from_impl') else 'harness'}): {res['run_failed']}",
                  {"mode": mode, "config": cfg, "case": case, "error": res["run_failed"],
                   "expected": "accepted configurations initialise and run"}, found)

    # ---------------- which variant of check_config is under test (one probing call)
    under_test.update(mode="check_config", step="probing check_config for the ensemble_engines length test")
    probe_variant()
    stats["variant"] = {
        "probe": "check_config on 3 interfaces with ensemble_engines = [['engine']] (all else valid) -> " + str(VARIANT["probe"]),
        "model_used_for_the_lock_step": "check_config_g true (with the length test; requests cfg/setup)" if VARIANT["fixed"] else
        "check_config_g false = check_config_before_fix (requests cfg0/setup0): the tree under test lacks "
        "proposed_fixes/C18_short_ensemble_engines.diff; the oracle demands the repaired behaviour"}
    # ---------------- direct check_config: exhaustive small scope + random engine tables
    chunk = []

    def flush():
        if chunk:
            process(chunk, "check_config")
            chunk.clear()

    under_test.update(mode="check_config", step="check_config on a configuration dict")
    for tag, cfg in itertools.chain(gen_small_scope(ctx), gen_engines(ctx, 20000 if ctx.tier == "quick" else 200000)):
        under_test["config"] = cfg
        chunk.append((tag, cfg, real_check(cfg), (), cfg))
        if len(chunk) >= 200000:
            flush()
    flush()

    stats["wall_s"] = {"check_config": round(time.time() - t0, 1)}
    t0 = time.time()
    # ---------------- through setup_config with a TOML file, and the restart fixed point
    nsetup = 1500 if ctx.tier == "quick" else 15000
    d = common.scratch_dir("infv_c18_")
    cwd = os.getcwd()
    import logging
    logging.getLogger("main").setLevel(logging.CRITICAL)
    try:
        os.chdir(d)
        batch, norm_reqs, norm_meta = [], [], []
        length_files = engine_length_files()
        stats["engine_length_files"] = len(length_files)
        for i in range(nsetup + len(length_files)):
            raw = raw_toml_case(ctx) if i < nsetup else length_files[i - nsetup]
            under_test.update(mode="setup_config", step="setup_config on a fresh input file / restart round trip", config=raw)
            real, cfg = real_setup(raw, d)
            # what check_config sees inside setup_config: raw + defaults (+ "current"); the model
            # is given the raw file and applies its own normalise
            batch.append(("T", raw, real, ("current",), raw))
            if cfg is not None:
                norm_meta.append((raw, cfg, safe_enc_normalised(cfg)))
                if len(norm_meta) % 2 == 1:
                    try:
                        err = restart_fixed_point(cfg, d)
                    except Exception as e:  # noqa: BLE001  (a malformed answer of the implementation)
                        err = f"the restart round trip of the accepted configuration fails with {exc_text(e)}"
                    stats["restart_roundtrips"] += 1
                    if err:
                        tally.add(("restart", re.sub(r"\d+", "#", err)[:60]),
                                  f"C18 fails on the implementation: setup_config accepts this input file, but {err}",
                                  {"mode": "restart", "config": raw, "impl": "OK",
                                   "expected": "re-read restart file == written configuration"}, True)
        # model on raw: parts[2] = check_config (normalise c), parts[4:] = normalise c
        reqs = [encode(raw, ("current",)) for _, raw, _, _, _ in batch]
        outs = runner.run(reqs)
        by_req = {}
        for (tag, raw, real, extra, _), req, out in zip(batch, reqs, outs):
            parts = out.split(" ")
            stats["setup_compared"] += 1
            ctx.count("setup " + req, nontrivial=True)
            ctx.dist("setup_config:T")
            if out.startswith("ERR") or len(parts) != 14:
                tally.add(("model-error", "setup"), f"model runner failed on a request: {out[:80]}",
                          {"correspondence": "c18 runner", "mode": "setup_config", "config": raw, "request": req, "model": out}, False)
                continue
            m_setup, m_nvalid = parts[2], parts[3] == "1"
            by_req[json.dumps(raw, sort_keys=True, default=str)] = parts
            oc = outcome_class(real)
            k = f"setup_config:{'valid' if m_nvalid else 'invalid'}:{oc}"  # noqa: E501
            stats["outcomes"][k] = stats["outcomes"].get(k, 0) + 1
            payload = {"mode": "setup_config", "config": raw, "request": req, "impl": real, "model": m_setup}
            why = invalid_reasons(documented_defaults(raw), ("current",))
            payload["invalid_because"] = why
            if (not why) != m_nvalid:
                stats["oracle_vs_validb_disagreements"] += 1
                tally.add(("oracle", "setup"), "harness oracle and the model's validb (proved = valid) disagree after the defaults",
                          dict(payload, obligation="python oracle == validb o normalise", validb=m_nvalid), False)
            elif why and oc != "CE":
                tally.add(("prop-setup", oc),
                          f"C18 fails on the implementation: setup_config on an input file with {', '.join(why)} "
                          "(after the documented defaults) is " + how_met(oc) + " instead of TOMLConfigError",
                          dict(payload, expected="TOMLConfigError"), True)
                stats["setup_disagreements"] += outcome_class(m_setup) != oc
            elif outcome_class(m_setup) != oc:
                stats["setup_disagreements"] += 1
                tally.add(("corr-setup", outcome_class(m_setup), oc),
                          f"correspondence model/implementation broken (setup_config): model {m_setup}, implementation {real}",
                          dict(payload, correspondence="c18 runner vs infretis.setup.setup_config"), False)
        # accepted ones: the defaults the real code filled in == the model's normalise, the oracle
        # holds on the returned configuration, and normalising the result again changes nothing
        again = []
        for raw, cfg, enc in norm_meta:
            parts = by_req.get(json.dumps(raw, sort_keys=True, default=str))
            if parts is None:
                continue
            m_norm = " ".join(parts[4:])
            why = safe_invalid_reasons(cfg)
            if why:
                tally.add(("prop-setup-accepted", tuple(why)),
                          f"C18 fails on the implementation: setup_config accepted a configuration with {', '.join(why)}",
                          {"mode": "setup_config", "config": raw, "impl": "OK", "invalid_because": why, "expected": "TOMLConfigError"}, True)
            elif m_norm != enc:
                stats["setup_disagreements"] += 1
                tally.add(("corr-norm",), "correspondence broken: defaults filled in by setup_config differ from the model's normalise",
                          {"mode": "setup_config", "config": raw, "impl": enc, "model": m_norm,
                           "correspondence": "normalise vs setup_config defaults"}, False)
            again.append(cmd("cfg") + " " + m_norm)
        for req, out in zip(again, runner.run(again)):
            ctx.count("idem " + req, nontrivial=True)
            if " ".join(out.split(" ")[4:]) != " ".join(req.split(" ")[1:]):
                tally.add(("idem",), "extracted normalise is not idempotent on a normalised configuration",
                          {"mode": "model", "config": req, "model": out, "obligation": "C18_normalise_idempotent (extraction)"}, False)
        stats["wall_s"]["setup_config"] = round(time.time() - t0, 1)
        t0 = time.time()
        # ---------------- the restart route: program-written restart files, edited, re-read
        import tomli
        rr = stats["restart_route"]
        nbase = 100 if ctx.tier == "quick" else 1000
        items = []
        for bi, (raw, cfg, _) in enumerate(norm_meta[1::2][:nbase]):
            base_cfg = copy.deepcopy(cfg)
            base_cfg["current"].pop("restarted_from", None)
            k = ctx.rng.randrange(1, 10)
            base_cfg["current"]["cstep"] = k
            for f in os.listdir(d):
                if f.endswith(".toml"):
                    os.remove(os.path.join(d, f))
            try:
                touch_active_paths(base_cfg, d)
                write_restart_real(base_cfg)
                with open("restart.toml", "rb") as f:
                    written = tomli.load(f)
            except Exception as e:  # noqa: BLE001
                tally.add(("restart-write", type(e).__name__),
                          "C18 fails on the implementation: setup_config accepts this input file, but the restart file of the returned "
                          f"configuration cannot be written and read back: {exc_text(e)}",
                          {"mode": "restart", "config": raw, "impl": "OK", "expected": "a restart file the program wrote can be re-read"},
                          raised_by_implementation(e))
                continue
            rr["stub_written_files"] += 1
            base = {"kind": "restart.toml written by the real write_toml at step k from the configuration the real "
                            "setup_config returned for a fresh input file", "k": k, "fresh_input": raw}
            for j, (label, cls, edit) in enumerate(restart_edits(written, ctx.rng, 6)):
                edited = apply_edit(written, edit, 20)
                route = "restart" if j == 0 else ROUTES[(j + bi) % 3]
                under_test.update(mode="restart_edit", step=f"setup_config on an edited restart file ({label})", config=edited,
                                  route=route)
                real, out = real_setup_route(edited, route, d)
                it = {"label": label, "cls": cls, "edited": edited, "route": route, "impl": real,
                      "paths_present": True, "base": base, "base_kind": "stub"}
                if out is not None:
                    it.update(describe_returned(out))
                items.append(it)
            # no answer: the run is finished; a stored path is gone (checked on an invalid edit too)
            for label, edit in (("steps = cstep (finished)", lambda c: None),
                                ("steps = cstep (finished) and workers = 100", _set(("runner", "workers"), 100))):
                edited = apply_edit(written, edit, k)
                real, _ = real_setup_route(edited, "restart", d)
                items.append({"label": label, "cls": "finished", "edited": edited, "route": "restart", "impl": real,
                              "paths_present": True, "base": base, "base_kind": "stub"})
            gone = os.path.join(d, written["simulation"].get("load_dir", "trajs"), str(written["current"]["active"][-1]), "traj.txt")
            os.remove(gone)
            for label, edit in (("a stored path removed", lambda c: None),
                                ("a stored path removed and workers = 100", _set(("runner", "workers"), 100))):
                edited = apply_edit(written, edit, 20)
                real, _ = real_setup_route(edited, ("restart", "equal")[bi % 2], d)
                items.append({"label": label, "cls": "path-gone", "edited": edited, "route": ("restart", "equal")[bi % 2],
                              "impl": real, "paths_present": False, "base": base, "base_kind": "stub"})
            open(gone, "w").close()
        judge_restart(items)

        # the same on restart files left behind by real runs (lattice engine, in-process scheduler)
        import sysharness as H
        cases = real_run_cases(ctx.tier)
        for case, (tag, res) in zip(cases, H.run_many(real_run_restart_cases, cases, jobs=6, timeout=300)):
            if tag != "ok":
                tally.add(("real-run-failed",), f"real run for the restart route failed in the harness: {str(res)[:300]}",
                          {"mode": "restart_real_run", "config": case, "case": case, "error": str(res)[-2000:]}, False)
                continue
            if "run_failed" in res:
                run_failed(res, "restart_real_run", case)
                continue
            rr["real_runs"] += 1
            info = res["info"]
            rr["real_run_info"].append({k: info[k] for k in ("status", "cstep", "locked", "continuation")})
            base = {"kind": "restart.toml left behind by a real run (py/sysharness.py, lattice engine)", "case": case,
                    "status": info["status"], "cstep": info["cstep"], "locked_jobs": info["locked"]}
            if info["continuation"] != "ok":
                tally.add(("continuation",), "C18 fails on the implementation: the restart file a real run left behind, with only "
                          f"the number of steps raised, is accepted but does not run on to the end: {info['continuation']}",
                          {"mode": "restart_real_run", "config": info["continued_config"], "case": case, "base": base,
                           "expected": "accepted configurations initialise and run"}, True)
            judge_restart([dict(r, base=base, base_kind="real-run") for r in res["records"]])

        stats["wall_s"]["restart_route"] = round(time.time() - t0, 1)
        t0 = time.time()
        # ---------------- the order of normalisation and validation; accepted => initialises
        jobs = []
        for base in order_bases(ctx.tier):
            vs = order_variations(base, ctx.tier)
            jobs += [{"base": base, "variations": vs[i::4]} for i in range(4)]
        ob = stats["order_block"] = {"bases": len(order_bases(ctx.tier)), "real_runs": 0, "configurations": 0,
                                     "accepted": 0, "taken_through_setup_internal_and_first_picks": 0}
        for job, (tag, res) in zip(jobs, H.run_many(order_block_child, jobs, jobs=12, timeout=600)):
            if tag != "ok":
                tally.add(("order-failed",), f"order block failed in the harness: {str(res)[:300]}",
                          {"mode": "order", "config": job["base"], "error": str(res)[-2000:]}, False)
                continue
            if "run_failed" in res:
                run_failed(res, "order", {"base": job["base"]})
                continue
            ob["real_runs"] += 1
            base = {"kind": "restart.toml left behind by a real run (py/sysharness.py, lattice engine); fresh route: the same tables "
                            "without [current], stored paths 0..n-1 of the same directory", "case": job["base"],
                    "cstep": res["written"]["current"]["cstep"]}
            items = []
            for r in res["records"]:
                var = r["var"]
                it = dict(r, edited=order_edit(res["written"], var, res["steps"]), label=order_label(var),
                          cls=f"quantis={var['q']}:engine0={var['e0']}:engines={var['ee']}", paths_present=True,
                          base=base, base_kind="order", mode="order",
                          case={"base": job["base"], "k": r["k"], "var": var, "route": r["route"]})
                ob["configurations"] += 1
                ob["accepted"] += r["impl"] == "OK"
                ob["taken_through_setup_internal_and_first_picks"] += "init" in r
                items.append(it)
            judge_restart(items)
        stats["wall_s"]["order_block"] = round(time.time() - t0, 1)
    finally:
        os.chdir(cwd)
        common.rmtree(d)

    tally.flush(ctx)
    ctx.sample({"note": "outcome table (mode:oracle:implementation -> cases)", "outcomes": stats["outcomes"]})
    ctx.cov["rule"] = (
        "exhaustive small scope on the real check_config: block A = all interface lists of length 0-4 over {0,1,2,3} x all caps "
        f"{[c for c in CAPS]} x all move lists of length 0-5 over {{sh,wf}} (workers, lambda_minus_one, quantis, engines defined drawn from the seeded rng); "
        "block B = all interface lists x lambda_minus_one {absent,false,-1,0,1} x quantis {absent,off,on} x workers 0-4 x engines defined/undefined; "
        "block C = every strictly increasing list with the product of workers x moves x caps x lambda_minus_one x quantis x engines "
        "(full product; thorough adds caps 2.5/3.5, lambda_minus_one -0.5/0.5/2, quantis absent, and block D = all lists up to length 5 x workers x caps x lambda_minus_one with 4 random move lists each); "
        "block L = all interface lists x explicit ensemble_engines of EVERY length 0..n+1 x {all 'engine', 'engine0' first, two engines per entry} x quantis {absent,off,on} x engines defined/undefined x workers {1,n-1}; random engine lists/tables (lengths n-1, n, n+1) (gromacs input_path clashes, missing class/input_path, undefined names); "
        f"{nsetup} random input files (explicit ensemble_engines of any length 0..n+1 in a quarter of them) and {stats['engine_length_files']} systematic ones (2-4 interfaces x every list length 0..n+1 x 3 entry shapes x quantis x workers, engines defined) through the real setup_config (TOML in a scratch directory), restart round trip (real write_toml, two re-reads) on every 2nd accepted one. "
        f"Restart route: {stats['restart_route']['stub_written_files']} restart files written by the real write_toml (from every other accepted one of these, at a random step) "
        f"and {stats['restart_route']['real_runs']} left behind by real runs on the lattice engine, each edited in every position of every class of the property's list, "
        "harmlessly, and by random replacement of all validated fields, then handed to the real setup_config as restart.toml / as infretis.toml + equal "
        "restart.toml / without [current]; plus a finished run and a missing stored path (no answer) per file. "
        f"Order of normalisation and validation: on {stats['order_block']['bases']} lattice set-ups in which the program has really run, the full product quantis {{absent,false,true}} x "
        "[engine0] {present,absent,misnamed} x [engine] {present,absent} x ensemble_engines {absent,[],engine,engine0 first,engine0 last,both,undefined, and ['engine'] x k for every other length k in 1..n+1} x "
        "lambda_minus_one {absent,false,-1.5,0.0,0.5=interfaces[0]} x seed {absent,7} x accept_all {absent,true} (workers 1/n-1/n in turn; a further factor in the thorough tier), "
        f"each as a fresh file and as the edited restart file of the run ({stats['order_block']['configurations']} files); the "
        f"{stats['order_block']['taken_through_setup_internal_and_first_picks']} accepted ones went through the real setup_internal and the first picks. "
        "A case is distinct by its request line (= the whole configuration); every case is non-trivial (it is a configuration run through the real validator)")
    ctx.cov["correspondence"] = stats
    ctx.cov["trusted_base"] += [
        "extraction: ExtrOcamlBasic only; ocaml/util.ml + ocaml/c18_driver.ml",
        "py/checks/c18.py generators, encoder (dict -> model request), python oracle (cross-checked against validb on every case)",
        "tomli / tomli_w (restart round trip, edited restart files)",
        "py/sysharness.py + py/plugins/engines.py (real runs leaving restart files; in-process runner)",
    ]
    ctx.assumptions += [
        "required keys present and well-typed (interfaces: list of numbers, workers: int, shooting_moves: list of str)",
        "numbers are ints or dyadic floats (exact comparisons); no NaN",
        "non-gromacs engine classes are lumped (the gromacs check only ever compares against a gromacs table)",
        "'no room' = interface_cap <= interfaces[max(i-1,0)] for an ensemble i < n_ens whose move is 'wf'",
        "'initialises' = the real setup_internal and the first `workers` picks (what scheduler() does before the first MD step) raise nothing and answer in range; run with the lattice plug-in engine on stored lattice paths (order block), and to the end of the run for the plain continuations of the restart route",
        "documented defaults (oracle, written independently): one ['engine'] per interface unless a non-empty ensemble_engines is given, ['engine0'] for [0-] under quantis; quantis / lambda_minus_one / accept_all false, seed 0",
        "restart route: rejection is observed at setup_config (its return value goes straight to the scheduler); a finished run or a missing stored path ends in None before any check",
    ]


def replay(doc):
    print(json.dumps(doc, indent=1))
    probe_variant()
    rp = doc["replay"]
    cfg = rp.get("config")
    mode = rp.get("mode")
    if mode == "check_config":
        real = real_check(cfg)
        why = invalid_reasons(cfg)
        print(f"implementation now: {real}; invalid because: {why}")
        r = common.Runner("c18")
        print("model now answers:", r.run([encode(cfg)])[0].split(" ")[0])
        bad = bool(why) and outcome_class(real) != "CE"
    elif mode == "setup_config":
        d = common.scratch_dir("infv_c18_")
        cwd = os.getcwd()
        try:
            os.chdir(d)
            real, out = real_setup(cfg, d)
        finally:
            os.chdir(cwd)
            common.rmtree(d)
        r = common.Runner("c18")
        parts = r.run([encode(cfg, ("current",))])[0].split(" ")
        print(f"implementation now: {real}; model: {parts[2]}; model says valid after defaults: {parts[3]}")
        bad = parts[3] != "1" and outcome_class(real) != "CE"
    elif mode == "restart_edit":
        # cfg = the edited restart file; the stored paths it refers to are recreated as stubs
        d = common.scratch_dir("infv_c18_")
        cwd = os.getcwd()
        route = rp.get("route", "restart")
        try:
            os.chdir(d)
            touch_active_paths(cfg, d)
            if not rp.get("paths_present", True):
                os.remove(os.path.join(d, cfg["simulation"].get("load_dir", "trajs"), str(cfg["current"]["active"][-1]), "traj.txt"))
            real, out = real_setup_route(cfg, route, d)
        finally:
            os.chdir(cwd)
            common.rmtree(d)
        why = invalid_reasons(documented_defaults(slim(cfg)))
        r = common.Runner("c18")
        model = r.run([setup_request(cfg, route, rp.get("paths_present", True))])[0].split(" ")[0]
        print(f"edit: {rp.get('edit')}; route: {route}; implementation now: {real}; model (setup_from): {model}; invalid because: {why}")
        bad = bool(why) and outcome_class(real) not in ("CE", "NONE")
    elif mode == "restart_real_run":
        import sysharness as H
        tag, res = H.run_many(real_run_restart_cases, [rp["case"]], jobs=1, timeout=300)[0]
        if tag != "ok":
            print("real run failed in the harness:", str(res)[-1500:])
            return 1
        if "run_failed" in res:
            print("real run fails:", res["run_failed"])
            return 1
        print("real run:", {k: res["info"][k] for k in ("status", "cstep", "locked", "continuation")})
        bad = res["info"]["continuation"] != "ok"
    elif mode == "order" and "var" in rp.get("case", {}):
        # one real run on the lattice engine, then this one variation by this one route, through the real
        # setup_config and - if accepted - the real setup_internal and the first picks
        import sysharness as H
        case = rp["case"]
        job = {"base": case["base"], "variations": [(case["k"], case["var"])], "routes": [case["route"]]}
        tag, res = H.run_many(order_block_child, [job], jobs=1, timeout=300)[0]
        if tag != "ok" or "run_failed" in res:
            print("real run failed:", str(res)[-1500:])
            return 1
        rec = res["records"][0]
        edited = order_edit(res["written"], case["var"], res["steps"])
        why = invalid_reasons(documented_defaults(slim(edited)))
        r = common.Runner("c18")
        model = r.run([setup_request(edited, case["route"])])[0].split(" ")[0]
        print(f"input: {order_label(case['var'])}; route: {case['route']}; implementation now: {rec['impl']}; model (setup_from): {model}; "
              f"invalid because: {why}; after acceptance: {rec.get('init')}")
        bad = (bool(why) and outcome_class(rec["impl"]) not in ("CE", "NONE")) or \
              (rec["impl"] == "OK" and not rec["init"]["ok"]) or (rec["impl"] == "OK" and bool(rec["returned_invalid"]))
    elif mode == "restart" and cfg is not None:
        d = common.scratch_dir("infv_c18_")
        cwd = os.getcwd()
        try:
            os.chdir(d)
            real, out = real_setup(cfg, d)
            err = restart_fixed_point(out, d) if out is not None else None
        finally:
            os.chdir(cwd)
            common.rmtree(d)
        print(f"implementation now: {real}; restart round trip: {err or 'fixed point'}")
        bad = err is not None
    else:
        print("nothing to re-run for this replay (proof obligation / restart fixed point)")
        return 0
    print("property still violated on this input" if bad else "property holds on this input now")
    return 1 if bad else 0
